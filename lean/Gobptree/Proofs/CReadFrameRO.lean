/-
  READ FRAME, part 2: the blocks that do not write the tree (`roArrive`, `startOp`) and the
  loop that starts the following client operations (`threadLoop`).
-/
import Gobptree.Proofs.CReadFrameBase

namespace Gobptree.Conc
open Gobptree

variable {K V : Type}

section
variable {S : Nat → Prop} {R : Prop} {b1 b2 : List (Ev K V)} {s1 s2 : St K V}

/-- Search / NewScanner arriving at a node the thread has just been granted -/
theorem roArrive_rf (P : Params K) (t : Nat) (sc : Bool) (key : K) (hold : Lk) (n : Nat)
    (hr : SRel S R b1 b2 s1 s2) (hn : S n) :
    BRel S R b1 b2 (roArrive P t s1 sc key hold n) (roArrive P t s2 sc key hold n) := by
  have hr1 := hr.rel t hold
  unfold roArrive
  simp only []
  rcases find_arel hr.tree hn with ⟨h1, h2⟩ | ⟨a1, a2, h1, h2, hl, hru, hk⟩
  · rw [show (s1.rel t hold).tree.find n = none from h1, show (s2.rel t hold).tree.find n = none from h2]
    exact ⟨hr1, rfl⟩
  · rw [show (s1.rel t hold).tree.find n = some a1 from h1, show (s2.rel t hold).tree.find n = some a2 from h2]
    simp only []
    rw [hl, hru]
    cases hleaf : leafOf? a2 with
    | some l =>
      simp only []
      cases sc with
      | true =>
        simp only [if_true]
        refine ⟨hr1.withCursor _ _ ?_, rfl⟩
        intro leaf i e
        cases e
        exact hn
      | false =>
        simp only [Bool.false_eq_true, if_false]
        cases Leaf.search P l key with
        | ok v => exact ⟨hr1.rel t _, rfl⟩
        | error _ => exact ⟨hr1, rfl⟩
    | none =>
      simp only []
      cases innerRunts? a2 with
      | none => exact ⟨hr1, rfl⟩
      | some runts =>
        simp only []
        rw [hk]
        cases innerKidId? a2 (searchLE P.lt key runts) with
        | none => exact ⟨hr1, rfl⟩
        | some c => exact ⟨hr1, rfl⟩

/-- starting a client operation: only the cursor's leaf is read -/
theorem startOp_rf (t : Nat) (op : COp K V) (hr : SRel S R b1 b2 s1 s2) :
    BRel S R b1 b2 (startOp t s1 op) (startOp t s2 op) := by
  have hm : misuse s1 = misuse s2 := by unfold misuse; rw [hr.cursor]
  cases op with
  | ins k v =>
    simp only [startOp, hm]
    split
    · exact ⟨hr, rfl⟩
    · exact ⟨hr, rfl⟩
  | upd k f y =>
    simp only [startOp, hm]
    split
    · exact ⟨hr, rfl⟩
    · exact ⟨hr, rfl⟩
  | del k =>
    simp only [startOp, hm]
    split
    · exact ⟨hr, rfl⟩
    · exact ⟨hr, rfl⟩
  | get k =>
    simp only [startOp, hm]
    split
    · exact ⟨hr, rfl⟩
    · exact ⟨hr, rfl⟩
  | ns k =>
    simp only [startOp, hm]
    split
    · exact ⟨hr, rfl⟩
    · exact ⟨hr, rfl⟩
  | pause => exact ⟨hr, rfl⟩
  | scan =>
    simp only [startOp]
    rw [← hr.cursor, ← hr.exhausted]
    cases hc : s1.cursor with
    | none => exact ⟨hr, rfl⟩
    | some p =>
      obtain ⟨lf, i⟩ := p
      cases lf with
      | none => exact ⟨hr, rfl⟩
      | some leaf =>
        cases hex : s1.exhausted with
        | true => exact ⟨hr, rfl⟩
        | false =>
          simp only []
          have hS : S leaf := hr.curS leaf i hc
          have hfl : (s1.tree.find leaf).bind leafOf? = (s2.tree.find leaf).bind leafOf? := by
            rcases find_arel hr.tree hS with ⟨h1, h2⟩ | ⟨a1, a2, h1, h2, hl, _, _⟩
            · rw [h1, h2]
            · rw [h1, h2]; exact hl
          rw [hfl]
          cases (s2.tree.find leaf).bind leafOf? with
          | none => exact ⟨hr, rfl⟩
          | some l =>
            simp only []
            split
            · cases l.next with
              | none =>
                refine ⟨(hr.rel t _).withCursor _ _ ?_, rfl⟩
                intro leaf' i' e; cases e
              | some nx =>
                refine ⟨hr.withCursor _ _ ?_, rfl⟩
                intro leaf' i' e
                cases e
                exact hS
            · refine ⟨hr.withCursor _ _ ?_, rfl⟩
              intro leaf' i' e
              cases e
              exact hS
  | pair =>
    simp only [startOp]
    rw [← hr.cursor, ← hr.exhausted]
    cases hc : s1.cursor with
    | none => exact ⟨hr, rfl⟩
    | some p =>
      obtain ⟨lf, i⟩ := p
      cases lf with
      | none => exact ⟨hr, rfl⟩
      | some leaf =>
        cases hex : s1.exhausted with
        | true => exact ⟨hr, rfl⟩
        | false =>
          simp only []
          have hS : S leaf := hr.curS leaf i hc
          have hfl : (s1.tree.find leaf).bind leafOf? = (s2.tree.find leaf).bind leafOf? := by
            rcases find_arel hr.tree hS with ⟨h1, h2⟩ | ⟨a1, a2, h1, h2, hl, _, _⟩
            · rw [h1, h2]
            · rw [h1, h2]; exact hl
          rw [hfl]
          cases (s2.tree.find leaf).bind leafOf? with
          | none => exact ⟨hr, rfl⟩
          | some l =>
            simp only []
            split
            · exact ⟨hr, rfl⟩
            · split
              · exact ⟨hr, rfl⟩
              · exact ⟨hr, rfl⟩
  | close =>
    simp only [startOp]
    rw [← hr.cursor]
    cases hc : s1.cursor with
    | none => exact ⟨hr, rfl⟩
    | some p =>
      obtain ⟨lf, i⟩ := p
      simp only []
      cases lf with
      | none =>
        refine ⟨hr.withCursor _ _ ?_, rfl⟩
        intro leaf' i' e; cases e
      | some leaf =>
        refine ⟨(hr.rel t _).withCursor _ _ ?_, rfl⟩
        intro leaf' i' e; cases e

/-- outcome of a whole step of the thread in the two runs -/
def TRes (S : Nat → Prop) (R : Prop) (b1 b2 : List (Ev K V)) (r1 r2 : Thread K V × St K V × Bool) : Prop :=
  r1.1 = r2.1 ∧ SRel S R b1 b2 r1.2.1 r2.2.1 ∧ r1.2.2 = r2.2.2

theorem threadLoop_rf (t : Nat) (th : Thread K V) :
    ∀ (fuel : Nat) (s1 s2 : St K V) (fl : Flow K V) (pc : Nat), SRel S R b1 b2 s1 s2 →
      TRes S R b1 b2 (threadLoop t th fuel s1 fl pc) (threadLoop t th fuel s2 fl pc) := by
  intro fuel
  induction fuel with
  | zero =>
    intro s1 s2 fl pc hr
    cases fl with
    | panic =>
      refine ⟨?_, hr.note t _, rfl⟩
      show ({ th with pc := pc, park := .finished, held := s1.held, cursor := s1.cursor, exhausted := s1.exhausted } : Thread K V) = _
      rw [hr.held, hr.cursor, hr.exhausted]; rfl
    | park p =>
      refine ⟨?_, hr, rfl⟩
      show ({ th with pc := pc, park := p, held := s1.held, cursor := s1.cursor, exhausted := s1.exhausted } : Thread K V) = _
      rw [hr.held, hr.cursor, hr.exhausted]; rfl
    | done r =>
      refine ⟨?_, hr.note t _, rfl⟩
      show ({ th with pc := pc + 1, park := .finished, held := s1.held, cursor := s1.cursor, exhausted := s1.exhausted } : Thread K V) = _
      rw [hr.held, hr.cursor, hr.exhausted]; rfl
  | succ fuel ih =>
    intro s1 s2 fl pc hr
    cases fl with
    | panic =>
      refine ⟨?_, hr.note t _, rfl⟩
      show ({ th with pc := pc, park := .finished, held := s1.held, cursor := s1.cursor, exhausted := s1.exhausted } : Thread K V) = _
      rw [hr.held, hr.cursor, hr.exhausted]; rfl
    | park p =>
      refine ⟨?_, hr, rfl⟩
      show ({ th with pc := pc, park := p, held := s1.held, cursor := s1.cursor, exhausted := s1.exhausted } : Thread K V) = _
      rw [hr.held, hr.cursor, hr.exhausted]; rfl
    | done r =>
      unfold threadLoop
      cases hop : th.prog[pc + 1]? with
      | none =>
        simp only []
        refine ⟨?_, hr.note t _, rfl⟩
        show ({ th with pc := pc + 1, park := .finished, held := s1.held, cursor := s1.cursor, exhausted := s1.exhausted } : Thread K V) = _
        rw [hr.held, hr.cursor, hr.exhausted]; rfl
      | some op =>
        simp only []
        have h1 := (hr.note t (.ret pc r)).note t (.inv (pc + 1))
        obtain ⟨hs, hf⟩ := startOp_rf t op h1
        rw [hf]
        exact ih _ _ _ _ hs

/-- one step of the thread, given that resuming its continuation is related in the two runs -/
theorem runThread_rf (P : Params K) (t : Nat) (th : Thread K V) (hr : SRel S R b1 b2 s1 s2)
    (hres : ∀ k, (th.park = .yielded k ∨ ∃ l, th.park = .want l k) →
      BRel S R b1 b2 (resume P t s1 k) (resume P t s2 k)) :
    TRes S R b1 b2 (runThread P t th s1) (runThread P t th s2) := by
  unfold runThread
  cases hp : th.park with
  | start =>
    simp only []
    cases th.prog[0]? with
    | none => exact ⟨rfl, hr, rfl⟩
    | some op =>
      simp only []
      obtain ⟨hs, hf⟩ := startOp_rf t op (hr.note t (.inv 0))
      rw [hf]
      exact threadLoop_rf t th _ _ _ _ _ hs
  | want l k =>
    simp only []
    obtain ⟨hs, hf⟩ := hres k (Or.inr ⟨l, hp⟩)
    rw [hf]
    exact threadLoop_rf t th _ _ _ _ _ hs
  | yielded k =>
    simp only []
    obtain ⟨hs, hf⟩ := hres k (Or.inl hp)
    rw [hf]
    exact threadLoop_rf t th _ _ _ _ _ hs
  | finished => exact ⟨rfl, hr, rfl⟩

end

end Gobptree.Conc
