/-
  Splitting a node: what `maybeSplit` does to the flat view (`SplitOut`, `split_mid`),
  rewriting an inner node around one of its children (`inner_surgery`), and the root
  split (`rootSplit_step`).
-/
import Gobptree.Proofs.CSUpLeaf

namespace Gobptree.Conc
open Gobptree

variable {K V : Type}

/-- outcome of a split, over own fields -/
structure SplitOut (o fresh : Nat) {d : Nat} (n l r : Node K V d) : Prop where
  len : (shallow n).keys.length = o
  idl : Node.id l = Node.id n
  idr : Node.id r = fresh
  shl : shallow l = ⟨d, (shallow n).keys.take (o / 2), (shallow n).vals.take (o / 2),
                      if d = 0 then some fresh else none, (shallow n).kids.take (o / 2)⟩
  shr : shallow r = ⟨d, (shallow n).keys.drop (o / 2), (shallow n).vals.drop (o / 2),
                      (shallow n).next, (shallow n).kids.drop (o / 2)⟩
  tails : ∃ T1 T2, ftail n = T1 ++ T2 ∧ ftail l = T1 ∧ ftail r = T2 ∧ (d = 0 → T1 = [] ∧ T2 = [])

theorem maybeSplit_cases (o fresh : Nat) (heven : o % 2 = 0) {d : Nat} (n : Node K V d) {m : Nat}
    (hocc : NodeOcc o m (shallow n)) :
    ((shallow n).keys.length < o ∧ Node.maybeSplit o fresh n = .ok (n, none)) ∨
    ∃ l r : Node K V d, Node.maybeSplit o fresh n = .ok (l, some r) ∧ SplitOut o fresh n l r := by
  have hd := shallow_height n
  obtain ⟨c1, _, c3, c4⟩ := hocc
  rcases maybeSplit_spec o fresh heven n c1 (fun h => (c3 (by rw [hd]; exact h)).1)
      (fun h => (c4 (by rw [hd]; exact h)).1) with h | ⟨hlen, l, r, h1, h2, h3, h4, h5, h6⟩
  · exact Or.inl h
  · exact Or.inr ⟨l, r, h1, ⟨hlen, h2, h3, h4, h5, h6⟩⟩

/-- both halves of a split satisfy the occupancy demands of a non-root node and have room -/
theorem SplitOut.occ {o fresh d : Nat} {n l r : Node K V d} (h : SplitOut o fresh n l r) {m m' : Nat}
    (hocc : NodeOcc o m (shallow n)) (ho4 : 2 ≤ o) (hev : o % 2 = 0) (hm : m' ≤ o / 2) :
    NodeOcc o m' (shallow l) ∧ NodeOcc o m' (shallow r) ∧
      (shallow l).keys.length = o / 2 ∧ (shallow r).keys.length = o / 2 := by
  have hd := shallow_height n
  obtain ⟨c1, c2, c3, c4⟩ := hocc
  have hlen := h.len
  rw [h.shl, h.shr]
  generalize shallow n = sh at *
  have e1 : (sh.keys.take (o / 2)).length = o / 2 := by rw [List.length_take]; omega
  have e2 : (sh.keys.drop (o / 2)).length = o / 2 := by rw [List.length_drop]; omega
  refine ⟨⟨?_, ?_, ?_, ?_⟩, ⟨?_, ?_, ?_, ?_⟩, e1, e2⟩
  · show (sh.keys.take (o / 2)).length ≤ o
    omega
  · show m' ≤ (sh.keys.take (o / 2)).length
    omega
  · intro h0
    have h0' : d = 0 := h0
    obtain ⟨a, b⟩ := c3 (by rw [hd]; exact h0')
    show (sh.keys.take (o / 2)).length = (sh.vals.take (o / 2)).length ∧ sh.kids.take (o / 2) = []
    rw [b]
    simp only [List.length_take, List.take_nil, and_true]
    omega
  · intro h0
    have h0' : 0 < d := h0
    obtain ⟨a, b, c⟩ := c4 (by rw [hd]; exact h0')
    show (sh.keys.take (o / 2)).length = (sh.kids.take (o / 2)).length ∧ 1 ≤ (sh.keys.take (o / 2)).length ∧
      (if d = 0 then some fresh else none) = none
    rw [if_neg (by omega)]
    simp only [List.length_take, and_true]
    omega
  · show (sh.keys.drop (o / 2)).length ≤ o
    omega
  · show m' ≤ (sh.keys.drop (o / 2)).length
    omega
  · intro h0
    have h0' : d = 0 := h0
    obtain ⟨a, b⟩ := c3 (by rw [hd]; exact h0')
    show (sh.keys.drop (o / 2)).length = (sh.vals.drop (o / 2)).length ∧ sh.kids.drop (o / 2) = []
    rw [b]
    simp only [List.length_drop, List.drop_nil, and_true]
    omega
  · intro h0
    have h0' : 0 < d := h0
    obtain ⟨a, b, c⟩ := c4 (by rw [hd]; exact h0')
    show (sh.keys.drop (o / 2)).length = (sh.kids.drop (o / 2)).length ∧ 1 ≤ (sh.keys.drop (o / 2)).length ∧
      sh.next = none
    simp only [List.length_drop]
    exact ⟨by omega, by omega, c⟩

/-! ### a rewritten window `M ↦ M'` of the flat view -/

structure MidOk (H : List Lk) (hole : Option Nat) (t : Tree K V) (nid' rootId' : Nat)
    (M M' : List (Nat × Shallow K V)) : Prop where
  ids   : ∃ F, (M'.map Prod.fst).Perm (F ++ M.map Prod.fst) ∧ F.Nodup ∧ ∀ i ∈ F, t.nextId ≤ i ∧ i < nid'
  occ   : ∀ q ∈ M', NodeOcc t.order (minOf t.order rootId' hole q.1 q.2.height) q.2
  chain : ChainStep (chainView M) (chainView M')
  frame : FrameEq (keepOf H t.nextId) M M'

theorem MidOk.nil (H : List Lk) (hole : Option Nat) (t : Tree K V) (nid' rootId' : Nat) :
    MidOk H hole t nid' rootId' [] [] :=
  ⟨⟨[], List.Perm.refl _, List.nodup_nil, by simp⟩, by simp, Or.inl rfl, FrameEq.refl _ _⟩

/-- the window of a split child: `flat c ↦ flat l ++ flat r` -/
theorem split_mid {H : List Lk} {hole : Option Nat} {t : Tree K V} {d : Nat} {c l r : Node K V d}
    (h : SplitOut t.order t.nextId c l r) (rootId' : Nat) (hH : Lk.node (Node.id c) ∈ H)
    (hoccl : NodeOcc t.order (minOf t.order rootId' hole (Node.id c) d) (shallow l))
    (hoccr : NodeOcc t.order (minOf t.order rootId' hole t.nextId d) (shallow r))
    (hoccT : ∀ q ∈ ftail c, NodeOcc t.order (minOf t.order rootId' hole q.1 q.2.height) q.2) :
    MidOk H hole t (t.nextId + 1) rootId' (flat c) (flat l ++ flat r) := by
  obtain ⟨T1, T2, hT, hT1, hT2, hT0⟩ := h.tails
  have hdl := shallow_height l
  have hdr := shallow_height r
  have hdc := shallow_height c
  rw [flat_eq_cons c, flat_eq_cons l, flat_eq_cons r, hT, hT1, hT2, h.idl, h.idr]
  rw [hT] at hoccT
  refine ⟨⟨[t.nextId], ?_, by simp, by simp⟩, ?_, ?_, ?_⟩
  · simp only [List.map_cons, List.map_append, List.cons_append, List.nil_append]
    exact List.perm_middle (l₁ := Node.id c :: T1.map Prod.fst)
  · intro q hq
    simp only [List.cons_append, List.mem_cons, List.mem_append] at hq
    rcases hq with rfl | hq | rfl | hq
    · simp only; rw [hdl]; exact hoccl
    · exact hoccT q (by simp [hq])
    · simp only; rw [hdr]; exact hoccr
    · exact hoccT q (by simp [hq])
  · cases d with
    | zero =>
      obtain ⟨rfl, rfl⟩ := hT0 rfl
      simp only [List.append_nil, List.cons_append, List.nil_append]
      rw [chainView_cons_leaf _ _ _ hdc, chainView_cons_leaf _ _ _ hdl, chainView_cons_leaf _ _ _ hdr]
      refine Or.inr ⟨[], [], Node.id c, (shallow c).next, t.nextId, rfl, ?_⟩
      rw [h.shl, h.shr]
      rfl
    | succ d =>
      left
      simp only [List.cons_append]
      rw [chainView_cons_inner _ _ _ (by rw [hdc]; omega), chainView_cons_inner _ _ _ (by rw [hdl]; omega),
        chainView_append, chainView_append, chainView_cons_inner _ _ _ (by rw [hdr]; omega)]
  · simp only [List.cons_append]
    apply frameEq_drop_head (keepOf_held H _ _ hH) (keepOf_held H _ _ hH)
    exact frameEq_append (FrameEq.refl _ _) (frameEq_drop_left (keepOf_fresh H _ _ (Nat.le_refl _)) (FrameEq.refl _ _))

/-- rewriting an inner node (own fields `shp ↦ shp'`) and a window `M ↦ M'` below it -/
theorem inner_surgery {H : List Lk} {hole : Option Nat} {t t' : Tree K V} (hok : TreeOk hole t)
    {L R X Y M M' : List (Nat × Shallow K V)} {pid : Nat} {shp shp' : Shallow K V}
    (hf : t.flat = L ++ ((pid, shp) :: (X ++ M ++ Y)) ++ R)
    (hf' : t'.flat = L ++ ((pid, shp') :: (X ++ M' ++ Y)) ++ R)
    (hroot : t'.rootId = t.rootId) (hdepth : t'.depth = t.depth) (horder : t'.order = t.order)
    (hH : Lk.node pid ∈ H) (hh : 0 < shp.height) (hh' : shp'.height = shp.height)
    (hoccp : NodeOcc t.order (minOf t.order t.rootId hole pid shp'.height) shp')
    (hmid : MidOk H hole t t'.nextId t.rootId M M') (hnid : t.nextId ≤ t'.nextId) : Step H hole t t' := by
  obtain ⟨⟨F, hperm, hF, hFb⟩, hocc, hchain, hframe⟩ := hmid
  refine ⟨⟨?_, ?_, ?_, ?_, ?_, ?_⟩, ?_, hnid, Or.inr ⟨hroot, hdepth⟩, horder⟩
  · refine ids_surgery (F := F) hok.ids hf hf' ?_ hF hFb hnid
    simp only [List.map_cons, List.map_append]
    refine List.Perm.trans ?_ List.perm_middle.symm
    refine List.Perm.cons _ ?_
    refine (((hperm.append_left _).append_right _)).trans ?_
    simp only [List.append_assoc]
    exact List.perm_append_comm_assoc _ _ _
  · refine occ_surgery hok.occ hf hf' hroot horder ?_
    intro q hq
    simp only [List.mem_cons, List.mem_append] at hq
    rcases hq with rfl | (hq | hq) | hq
    · exact hoccp
    · exact hok.occ q (by rw [hf]; simp [hq])
    · exact hocc q hq
    · exact hok.occ q (by rw [hf]; simp [hq])
  · refine chain_surgery hok.chain hf hf' ?_
    rw [chainView_cons_inner _ _ _ hh, chainView_cons_inner _ _ _ (by rw [hh']; exact hh),
      chainView_append, chainView_append, chainView_append, chainView_append]
    exact hchain.context _ _
  · rw [horder]; exact hok.order2
  · rw [horder]; exact hok.big
  · rw [horder]; exact hok.even
  · rw [hf, hf']
    apply FrameEq.context
    apply frameEq_drop_head (keepOf_held H _ _ hH) (keepOf_held H _ _ hH)
    exact frameEq_append (frameEq_append (FrameEq.refl _ _) hframe) (FrameEq.refl _ _)

theorem minOf_congr_ne (o r r' : Nat) (hole : Option Nat) (id h : Nat) (h1 : id ≠ r) (h2 : id ≠ r') :
    minOf o r hole id h = minOf o r' hole id h := by
  unfold minOf
  rw [if_neg h1, if_neg h2]

/-- the root split -/
theorem rootSplit_step {H : List Lk} {hole : Option Nat} {t : Tree K V} (hok : TreeOk hole t)
    {l r : Node K V t.depth} (h : SplitOut t.order t.nextId t.root l r) (ls rs : K)
    (hHt : Lk.tree ∈ H) (hHr : Lk.node t.rootId ∈ H) (t' : Tree K V)
    (ht' : t' = { order := t.order, depth := t.depth + 1,
                  root := (Inner.mk (t.nextId + 1) [ls, rs] [l, r] : Inner K (Node K V t.depth)),
                  nextId := t.nextId + 2 }) :
    Step H hole t t' ∧
      t'.flat = (t.nextId + 1, ⟨t.depth + 1, [ls, rs], [], none, [t.rootId, t.nextId]⟩) :: (flat l ++ flat r) ∧
      t'.rootId = t.nextId + 1 := by
  have hrootmem : (t.rootId, shallow t.root) ∈ t.flat := self_mem_flat t.root
  have hrlt : t.rootId < t.nextId := hok.ids.2 _ (List.mem_map.2 ⟨_, hrootmem, rfl⟩)
  have hoccR := hok.occ _ hrootmem
  have hflat : t.flat = (t.rootId, shallow t.root) :: ftail t.root := flat_eq_cons t.root
  have hhalf := h.occ (m' := t.order / 2) hoccR hok.order2 hok.even (Nat.le_refl _)
  have hflat' : t'.flat =
      (t.nextId + 1, ⟨t.depth + 1, [ls, rs], [], none, [t.rootId, t.nextId]⟩) :: (flat l ++ flat r) := by
    subst ht'
    show flat (d := t.depth + 1) (Inner.mk (t.nextId + 1) [ls, rs] [l, r] : Inner K (Node K V t.depth)) = _
    rw [flat_mk]
    simp only [List.flatMap_cons, List.flatMap_nil, List.append_nil]
    congr 1
    show (_, Shallow.mk _ _ _ _ [Node.id l, Node.id r]) = _
    rw [h.idl, h.idr]
    rfl
  have hroot' : t'.rootId = t.nextId + 1 := by subst ht'; rfl
  have hord' : t'.order = t.order := by subst ht'; rfl
  have hnid' : t'.nextId = t.nextId + 2 := by subst ht'; rfl
  have hmid : MidOk H hole t (t.nextId + 1) (t.nextId + 1) (flat t.root) (flat l ++ flat r) := by
    refine split_mid h (t.nextId + 1) hHr ?_ ?_ ?_
    · exact hhalf.1.mono (minOf_le _ _ _ _ _ (by show t.rootId ≠ _; omega))
    · exact hhalf.2.1.mono (minOf_le _ _ _ _ _ (by omega))
    · intro q hq
      have hqm : q ∈ t.flat := by rw [hflat]; exact List.mem_cons_of_mem _ hq
      have hqlt : q.1 < t.nextId := hok.ids.2 _ (List.mem_map.2 ⟨_, hqm, rfl⟩)
      have hqne : q.1 ≠ t.rootId := by
        have hn := hok.ids.1
        unfold Tree.ids at hn
        rw [hflat, List.map_cons, List.nodup_cons] at hn
        intro e
        exact hn.1 (e ▸ List.mem_map.2 ⟨_, hq, rfl⟩)
      rw [minOf_congr_ne _ _ t.rootId _ _ _ (by omega) hqne]
      exact hok.occ q hqm
  obtain ⟨⟨F, hperm, hF, hFb⟩, hocc, hchain, hframe⟩ := hmid
  refine ⟨⟨⟨?_, ?_, ?_, ?_, ?_, ?_⟩, ?_, by omega, Or.inl hHt, hord'⟩, hflat', hroot'⟩
  · refine ids_surgery (L := []) (R := []) (A := t.flat) (A' := t'.flat) (F := (t.nextId + 1) :: F) hok.ids
      (by simp) (by simp) ?_ ?_ ?_ (by omega)
    · rw [hflat']
      simp only [List.map_cons, List.cons_append]
      exact List.Perm.cons _ hperm
    · rw [List.nodup_cons]
      refine ⟨?_, hF⟩
      intro hm
      have := (hFb _ hm).2
      omega
    · intro i hi
      rcases List.mem_cons.1 hi with rfl | hi
      · omega
      · have := hFb i hi; omega
  · intro q hq
    rw [hroot', hord']
    rw [hflat'] at hq
    rcases List.mem_cons.1 hq with rfl | hq
    · refine ⟨?_, ?_, ?_, ?_⟩
      · show 2 ≤ t.order
        exact hok.order2
      · show minOf t.order (t.nextId + 1) hole (t.nextId + 1) (t.depth + 1) ≤ 2
        unfold minOf
        simp
      · intro h0; cases h0
      · intro _; exact ⟨rfl, by show 1 ≤ 2; omega, rfl⟩
    · exact hocc q hq
  · rw [chainOk_iff, hflat', chainView_cons_inner _ _ _ (Nat.succ_pos _)]
    exact hchain.chain ((chainOk_iff t).1 hok.chain)
  · rw [hord']; exact hok.order2
  · rw [hord']; exact hok.big
  · rw [hord']; exact hok.even
  · rw [hflat']
    exact frameEq_drop_left (keepOf_fresh H _ _ (by show t.nextId ≤ t.nextId + 1; omega)) hframe

end Gobptree.Conc
