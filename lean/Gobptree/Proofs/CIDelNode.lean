/-
  Separator invariant for Delete, part 3: the three sibling operations on two adjacent INNER
  siblings pool the siblings' separators and kids and cut the pool at a new place (borrow) or
  not at all (merge); the new boundary is the right-hand node's first separator.
-/
import Gobptree.Proofs.CIDelRids

namespace Gobptree.Conc
open Gobptree

variable {K V : Type} {lt : K → K → Bool}

/-- a borrow between inner siblings: the pooled separators and kids are unchanged, the left
    node keeps its first separator, the new boundary is the right node's first separator -/
def BorrowShape : {d : Nat} → Node K V d → Node K V d → Node K V d → Node K V d → K → Prop
  | 0, _, _, _, _, _ => True
  | _ + 1, (c1 : Inner K _), (c2 : Inner K _), (c1' : Inner K _), (c2' : Inner K _), s =>
    c1'.runts ++ c2'.runts = c1.runts ++ c2.runts ∧ c1'.kids ++ c2'.kids = c1.kids ++ c2.kids ∧
    c1'.runts.length = c1'.kids.length ∧ c1'.runts.head? = c1.runts.head? ∧ c1'.runts ≠ [] ∧
    c2'.runts.head? = some s

/-- a merge of inner siblings concatenates -/
def MergeShape : {d : Nat} → Node K V d → Node K V d → Node K V d → Prop
  | 0, _, _, _ => True
  | _ + 1, (c1 : Inner K _), (c2 : Inner K _), (m : Inner K _) =>
    m.runts = c1.runts ++ c2.runts ∧ m.kids = c1.kids ++ c2.kids

theorem adoptFromRight_shape : ∀ {d : Nat} (c r c' r' : Node K V d) (s : K),
    Par (shallow c) → Par (shallow r) → 2 ≤ Node.count r →
    Node.adoptFromRight c r = .ok (c', r') → Node.smallest r' = .ok s → BorrowShape c r c' r' s := by
  intro d
  cases d with
  | zero => intro _ _ _ _ _ _ _ _ _ _; trivial
  | succ d =>
    intro c r c' r' s hc hr h2 he hs
    obtain ⟨cid, cr, ck⟩ := (c : Inner K (Node K V d))
    obtain ⟨rid, rr, rk⟩ := (r : Inner K (Node K V d))
    rw [par_inner] at hr hc
    simp only at hr hc
    have h2' : 2 ≤ rr.length := h2
    match rr, rk, hr, h2' with
    | r0 :: r1 :: rs, x0 :: x1 :: xs, hr, _ =>
      have hev : Node.adoptFromRight (d := d + 1) (Inner.mk cid cr ck : Inner K (Node K V d))
          (Inner.mk rid (r0 :: r1 :: rs) (x0 :: x1 :: xs) : Inner K (Node K V d)) =
          .ok ((Inner.mk cid (cr ++ [r0]) (ck ++ [x0]) : Inner K (Node K V d)),
               (Inner.mk rid (r1 :: rs) (x1 :: xs) : Inner K (Node K V d))) := by
        simp [Node.adoptFromRight, popFrontIdiom_eq]; rfl
      rw [hev] at he
      injection he with he
      injection he with e1 e2
      subst e1; subst e2
      have hs' : (Except.ok r1 : R K) = .ok s := hs
      injection hs' with hs'
      subst hs'
      have hcne : cr ≠ [] := by
        intro e; rw [e] at hc; simp at hc
      refine ⟨?_, ?_, ?_, ?_, ?_, rfl⟩
      · show (cr ++ [r0]) ++ (r1 :: rs) = cr ++ (r0 :: r1 :: rs)
        simp
      · show (ck ++ [x0]) ++ (x1 :: xs) = ck ++ (x0 :: x1 :: xs)
        simp
      · show (cr ++ [r0]).length = (ck ++ [x0]).length
        simp [hc.1]
      · show (cr ++ [r0]).head? = cr.head?
        cases cr with
        | nil => exact absurd rfl hcne
        | cons a cr' => rfl
      · show cr ++ [r0] ≠ []
        simp

theorem adoptFromLeft_shape (P : Params K) : ∀ {d : Nat} (l c l' c' : Node K V d) (s : K),
    Par (shallow l) → Par (shallow c) → 2 ≤ Node.count l → 1 ≤ Node.count c →
    Node.adoptFromLeft P l c = .ok (l', c') → Node.smallest c' = .ok s → BorrowShape l c l' c' s := by
  intro d
  cases d with
  | zero => intro _ _ _ _ _ _ _ _ _ _ _; trivial
  | succ d =>
    intro l c l' c' s hl hc h2 h1 he hs
    obtain ⟨lid, lrunts, lkids⟩ := (l : Inner K (Node K V d))
    obtain ⟨cid, crunts, ckids⟩ := (c : Inner K (Node K V d))
    rw [par_inner] at hl hc
    simp only at hl hc
    have h2' : 2 ≤ lrunts.length := h2
    obtain ⟨lr0, sk, rfl⟩ := snoc_of_pos lrunts (by omega)
    obtain ⟨lk0, y, rfl⟩ := snoc_of_pos lkids (by omega)
    have hlen : lr0.length = lk0.length := by simpa using hl.1
    have hpos : 1 ≤ lr0.length := by simp at h2'; omega
    match crunts, ckids, hc with
    | c0 :: crs, x0 :: xs, hc =>
      cases hpad : P.pad (some c0) with
      | none =>
        have : Node.adoptFromLeft (d := d + 1) P (Inner.mk lid (lr0 ++ [sk]) (lk0 ++ [y]) : Inner K (Node K V d))
            (Inner.mk cid (c0 :: crs) (x0 :: xs) : Inner K (Node K V d)) = .error .indexOutOfRange := by
          simp [Node.adoptFromLeft, hpad]; rfl
        rw [this] at he
        cases he
      | some pad =>
        have hev : Node.adoptFromLeft (d := d + 1) P (Inner.mk lid (lr0 ++ [sk]) (lk0 ++ [y]) : Inner K (Node K V d))
            (Inner.mk cid (c0 :: crs) (x0 :: xs) : Inner K (Node K V d)) =
            .ok ((Inner.mk lid lr0 lk0 : Inner K (Node K V d)),
                 (Inner.mk cid (sk :: c0 :: crs) (y :: x0 :: xs) : Inner K (Node K V d))) := by
          simp [Node.adoptFromLeft, hpad, pushFrontIdiom_eq, hlen]; rfl
        rw [hev] at he
        injection he with he
        injection he with e1 e2
        subst e1; subst e2
        have hs' : (Except.ok sk : R K) = .ok s := hs
        injection hs' with hs'
        subst hs'
        refine ⟨?_, ?_, hlen, ?_, ?_, rfl⟩
        · show lr0 ++ (sk :: c0 :: crs) = (lr0 ++ [sk]) ++ (c0 :: crs)
          simp
        · show lk0 ++ (y :: x0 :: xs) = (lk0 ++ [y]) ++ (x0 :: xs)
          simp
        · show lr0.head? = (lr0 ++ [sk]).head?
          cases lr0 with
          | nil => simp at hpos
          | cons a lr0' => rfl
        · show lr0 ≠ []
          intro e; rw [e] at hpos; simp at hpos

theorem absorbRight_shape : ∀ {d : Nat} (a b m : Node K V d),
    Node.absorbRight a b = .ok m → MergeShape a b m := by
  intro d
  cases d with
  | zero => intro _ _ _ _; trivial
  | succ d =>
    intro a b m he
    have hev : Node.absorbRight (d := d + 1) a b =
        .ok (({ (a : Inner K (Node K V d)) with
          runts := (a : Inner K (Node K V d)).runts ++ (b : Inner K (Node K V d)).runts,
          kids := (a : Inner K (Node K V d)).kids ++ (b : Inner K (Node K V d)).kids } : Inner K (Node K V d))) := rfl
    rw [hev] at he
    injection he with he
    subst he
    exact ⟨rfl, rfl⟩

end Gobptree.Conc
