/-
  Key-order zoom machinery, part 4: facts about a single route under `Ord` — the routing step
  at an inner node, upper bounds along the route, the leaf at its end, and leaf authority
  (`Spec.lookup` of the whole subtree is `Spec.lookup` of the node the route passes).
-/
import Gobptree.Proofs.CKZoomOrd

namespace Gobptree.Conc
open Gobptree

variable {K V : Type} {lt : K → K → Bool}

/-! ### the routing step -/

/-- an inner node decomposed at an index at which both arrays are defined -/
theorem decomp_at_index {d : Nat} (i : Inner K (Node K V d)) (hlen : i.runts.length = i.kids.length)
    (j : Nat) (s : K) (c : Node K V d) (hs : i.runts[j]? = some s) (hc : i.kids[j]? = some c) :
    ∃ (rA rB : List K) (A B : List (Node K V d)),
      i.runts = rA ++ s :: rB ∧ i.kids = A ++ c :: B ∧ rA.length = j ∧ A.length = j ∧ rB.length = B.length := by
  obtain ⟨hj, e1⟩ := List.getElem?_eq_some_iff.1 hs
  obtain ⟨hj', e2⟩ := List.getElem?_eq_some_iff.1 hc
  refine ⟨i.runts.take j, i.runts.drop (j + 1), i.kids.take j, i.kids.drop (j + 1), ?_, ?_,
    length_take_of_lt _ _ hj, length_take_of_lt _ _ hj', ?_⟩
  · rw [← e1]; exact self_form _ _ hj
  · rw [← e2]; exact self_form _ _ hj'
  · rw [List.length_drop, List.length_drop, hlen]

/-- the separators of an `Ord` inner node ascend -/
theorem Ord_sorted (h : SWO lt) {d : Nat} {lo hi : Option K} (i : Inner K (Node K V d))
    (hord : Ord lt (d + 1) lo hi i) (hpar : ParN (d + 1) i) : Sorted lt i.runts := by
  have := Kids_sorted h hi _ hord.2
  rwa [map_fst_zip_eq _ _ hpar.1] at this

/-- the kid at index `j` of an `Ord` inner node is `Ord` in `[runts[j], hiAt runts j hi)` -/
theorem Ord_kid_at {d : Nat} {lo hi : Option K} (i : Inner K (Node K V d))
    (hord : Ord lt (d + 1) lo hi i) (hpar : ParN (d + 1) i)
    (j : Nat) (s : K) (c : Node K V d) (hs : i.runts[j]? = some s) (hc : i.kids[j]? = some c) :
    Ord lt d (some s) (hiAt i.runts j hi) c ∧ ltO lt s (hiAt i.runts j hi) ∧ ParN d c := by
  obtain ⟨rA, rB, A, B, hr, hk, hlA, hlA', hlB⟩ := decomp_at_index i hpar.1 j s c hs hc
  have hl : rA.length = A.length := by omega
  have hk' := hord.2
  rw [hr, hk, Kids_decomp hi rA rB s A B c hl] at hk'
  rw [hr, ← hlA, hiAt_decomp rA rB s B hi hlB]
  exact ⟨hk'.2.1, hk'.2.2.1, hpar.2.2 c (List.mem_of_getElem? hc)⟩

/-- **routing step.** At an inner node with parallel arrays the search picks index
    `j = searchLE key runts`, which is a valid index of both arrays, and continues in kid `j`
    with the interval `[runts[j], hiAt runts j hi)`. -/
theorem routeB_inner (key : K) {d : Nat} (lo hi : Option K) (i : Inner K (Node K V d))
    (hpar : ParN (d + 1) i) :
    ∃ (s : K) (c : Node K V d),
      i.runts[searchLE lt key i.runts]? = some s ∧ i.kids[searchLE lt key i.runts]? = some c ∧ ParN d c ∧
      routeB lt key (d + 1) lo hi i =
        (i.id, lo, hi) :: routeB lt key d (some s) (hiAt i.runts (searchLE lt key i.runts) hi) c := by
  obtain ⟨hlen, hne, hkids⟩ := hpar
  have hnil : i.runts ≠ [] := by intro e; rw [e] at hne; simp at hne
  have hj : searchLE lt key i.runts < i.runts.length := searchLE_lt_length key i.runts hnil
  have hj' : searchLE lt key i.runts < i.kids.length := by omega
  refine ⟨i.runts[searchLE lt key i.runts], i.kids[searchLE lt key i.runts],
    List.getElem?_eq_getElem hj, List.getElem?_eq_getElem hj', hkids _ (List.getElem_mem hj'), ?_⟩
  rw [routeB_succ key lo hi i]
  unfold routeKid
  rw [List.getElem?_eq_getElem hj, List.getElem?_eq_getElem hj']

/-- what the routing index says about the key: unless the search was clamped to index 0 the
    separator there is not above the key, and the key is below the next separator -/
theorem searchLE_route (h : SWO lt) (key : K) (runts : List K) (hs : Sorted lt runts) (hne : runts ≠ []) :
    ∃ hj : searchLE lt key runts < runts.length,
      (0 < searchLE lt key runts → lt key runts[searchLE lt key runts] = false) ∧
      (∀ hi, ltO lt key hi → ltO lt key (hiAt runts (searchLE lt key runts) hi)) := by
  have hj := searchLE_lt_length (lt := lt) key runts hne
  refine ⟨hj, fun h0 => searchLE_at h key runts hs h0 hj, ?_⟩
  intro hi hk
  unfold hiAt
  cases hn : runts[searchLE lt key runts + 1]? with
  | none => exact hk
  | some s =>
    obtain ⟨hlt, e⟩ := List.getElem?_eq_some_iff.1 hn
    have := searchLE_after h key runts hs (searchLE lt key runts + 1) (by omega) hlt
    rw [e] at this
    exact this

/-- a key below the first separator is routed to kid 0 -/
theorem searchLE_zero_of_lt (h : SWO lt) (key : K) (runts : List K) (hs : Sorted lt runts)
    (k0 : K) (h0 : runts.head? = some k0) (hk : lt key k0 = true) : searchLE lt key runts = 0 := by
  have hne : runts ≠ [] := by intro e; rw [e] at h0; cases h0
  obtain ⟨hj, h1, _⟩ := searchLE_route h key runts hs hne
  apply Classical.byContradiction
  intro hne0
  have hpos : 0 < searchLE lt key runts := by omega
  have h2 := h1 hpos
  have h3 : lt (runts[0]'(by omega)) runts[searchLE lt key runts] = true := hs.getElem_lt hpos hj
  have e0 : runts[0]'(by omega) = k0 := by
    cases runts with
    | nil => exact absurd rfl hne
    | cons r rs => simpa using h0
  rw [e0] at h3
  have := h.trans _ _ _ hk h3
  rw [h2] at this
  cases this

/-! ### bounds along a route -/

/-- **the key is below the upper end of every interval on its route** (no assumption on `lo`) -/
theorem route_hi (h : SWO lt) (key : K) : ∀ (d : Nat) (lo hi : Option K) (n : Node K V d),
    Ord lt d lo hi n → ParN d n → ltO lt key hi →
    ∀ e ∈ routeB lt key d lo hi n, ltO lt key e.2.2 := by
  intro d
  induction d with
  | zero =>
    intro lo hi (n : Leaf K V) _ _ hk e he
    rw [routeB_zero key lo hi n] at he
    rw [List.mem_singleton.1 he]
    exact hk
  | succ d ih =>
    intro lo hi (n : Inner K (Node K V d)) hord hpar hk e he
    obtain ⟨s, c, hs, hc, hparc, hr⟩ := routeB_inner (lt := lt) key lo hi n hpar
    rw [hr] at he
    rcases List.mem_cons.1 he with rfl | he
    · exact hk
    · have hsorted := Ord_sorted h n hord hpar
      have hnil : n.runts ≠ [] := by
        intro e; have := hpar.2.1; rw [e] at this; simp at this
      obtain ⟨_, _, h2⟩ := searchLE_route h key n.runts hsorted hnil
      exact ih _ _ c (Ord_kid_at n hord hpar _ s c hs hc).1 hparc (h2 hi hk) e he

/-- the lower end of an interval on the route is not above the key provided that holds at the
    top and at every clamped step (`hclamp`: at index 0 the key is not below the first
    separator).  This is the invariant an Insert/Update maintains by lowering the first
    separator. -/
theorem route_lo_step (h : SWO lt) (key : K) {d : Nat} {lo hi : Option K} (i : Inner K (Node K V d))
    (hord : Ord lt (d + 1) lo hi i) (hpar : ParN (d + 1) i)
    (s : K) (hs : i.runts[searchLE lt key i.runts]? = some s)
    (hclamp : searchLE lt key i.runts = 0 → lt key s = false) : leO lt (some s) key := by
  have hsorted := Ord_sorted h i hord hpar
  have hnil : i.runts ≠ [] := by
    intro e; have := hpar.2.1; rw [e] at this; simp at this
  obtain ⟨hj, h1, _⟩ := searchLE_route h key i.runts hsorted hnil
  by_cases h0 : searchLE lt key i.runts = 0
  · exact hclamp h0
  · have := h1 (by omega)
    rw [List.getElem?_eq_getElem hj] at hs
    injection hs with hs
    rw [hs] at this
    exact this

/-! ### the leaf at the end of a route -/

/-- the leaf the search for `key` ends in -/
def routeLeaf (lt : K → K → Bool) (key : K) : (d : Nat) → Node K V d → Option (Leaf K V)
  | 0, (l : Leaf K V) => some l
  | d + 1, (i : Inner K (Node K V d)) =>
    match i.runts[searchLE lt key i.runts]?, i.kids[searchLE lt key i.runts]? with
    | some _, some c => routeLeaf lt key d c
    | _, _ => none

theorem routeLeaf_succ (key : K) {d : Nat} (i : Inner K (Node K V d)) (s : K) (c : Node K V d)
    (hs : i.runts[searchLE lt key i.runts]? = some s) (hc : i.kids[searchLE lt key i.runts]? = some c) :
    routeLeaf lt key (d + 1) i = routeLeaf lt key d c := by
  show (match i.runts[searchLE lt key i.runts]?, i.kids[searchLE lt key i.runts]? with
    | some _, some c => routeLeaf lt key d c
    | _, _ => none) = _
  rw [hs, hc]

/-- with parallel arrays every route ends in a leaf -/
theorem routeLeaf_some (key : K) : ∀ (d : Nat) (n : Node K V d), ParN d n →
    ∃ l, routeLeaf lt key d n = some l := by
  intro d
  induction d with
  | zero => intro n _; exact ⟨n, rfl⟩
  | succ d ih =>
    intro (n : Inner K (Node K V d)) hpar
    obtain ⟨s, c, hs, hc, hparc, _⟩ := routeB_inner (lt := lt) key none none n hpar
    rw [routeLeaf_succ key n s c hs hc]
    exact ih c hparc

/-- the route is non-empty, starts at the node itself and its last entry is the leaf
    `routeLeaf` returns -/
theorem routeLeaf_last (key : K) : ∀ (d : Nat) (lo hi : Option K) (n : Node K V d) (l : Leaf K V),
    ParN d n → routeLeaf lt key d n = some l →
    ∃ pre a b, routeB lt key d lo hi n = pre ++ [(l.id, a, b)] ∧
      (routeB lt key d lo hi n).head? = some (Node.id n, lo, hi) := by
  intro d
  induction d with
  | zero =>
    intro lo hi (n : Leaf K V) l _ hl
    have : n = l := by injection hl
    subst this
    exact ⟨[], lo, hi, rfl, rfl⟩
  | succ d ih =>
    intro lo hi (n : Inner K (Node K V d)) l hpar hl
    obtain ⟨s, c, hs, hc, hparc, hr⟩ := routeB_inner (lt := lt) key lo hi n hpar
    rw [routeLeaf_succ key n s c hs hc] at hl
    obtain ⟨pre, a, b, hpre, _⟩ := ih (some s) (hiAt n.runts (searchLE lt key n.runts) hi) c l hparc hl
    refine ⟨(n.id, lo, hi) :: pre, a, b, ?_, ?_⟩
    · rw [hr, hpre]; rfl
    · rw [hr]; rfl

theorem findNode_kid (id : Nat) {d : Nat} (i : Inner K (Node K V d)) (j : Nat) (c : Node K V d)
    (hc : i.kids[j]? = some c) (hnd : (idsOf (d := d + 1) i).Nodup) (hid : id ∈ idsOf c) :
    findNode id (d + 1) i = findNode id d c := by
  obtain ⟨hj, e⟩ := List.getElem?_eq_some_iff.1 hc
  have hk : i.kids = i.kids.take j ++ c :: i.kids.drop (j + 1) := by rw [← e]; exact self_form _ _ hj
  obtain ⟨_, hx⟩ := nodup_kid i _ _ c hk hnd
  obtain ⟨hne, hA, _⟩ := hx id hid
  rw [findNode_succ_ne id i (fun e => hne e.symm), hk, List.findSome?_append]
  have : (i.kids.take j).findSome? (findNode id d) = none := by
    rw [List.findSome?_eq_none_iff]
    intro a ha
    exact (findNode_none' id a).2 (hA a ha)
  rw [this]
  simp only [Option.none_or, List.findSome?_cons]
  cases hf : findNode id d c with
  | some x => rfl
  | none => exact absurd hid ((findNode_none' id c).1 hf)

/-- with distinct identities the leaf at the end of the route is the node found under its
    identity -/
theorem routeLeaf_find (key : K) : ∀ (d : Nat) (n : Node K V d) (l : Leaf K V),
    ParN d n → (idsOf n).Nodup → routeLeaf lt key d n = some l →
    findNode l.id d n = some ⟨0, l⟩ := by
  intro d
  induction d with
  | zero =>
    intro (n : Leaf K V) l _ _ hl
    have : n = l := by injection hl
    subst this
    show (if n.id = n.id then some (⟨0, n⟩ : AnyNode K V) else none) = _
    simp
  | succ d ih =>
    intro (n : Inner K (Node K V d)) l hpar hnd hl
    obtain ⟨s, c, hs, hc, hparc, _⟩ := routeB_inner (lt := lt) key none none n hpar
    rw [routeLeaf_succ key n s c hs hc] at hl
    obtain ⟨hj, e⟩ := List.getElem?_eq_some_iff.1 hc
    have hk : n.kids = n.kids.take (searchLE lt key n.runts) ++ c :: n.kids.drop (searchLE lt key n.runts + 1) := by
      rw [← e]; exact self_form _ _ hj
    have hfc := ih c l hparc (nodup_kid n _ _ c hk hnd).1 hl
    rw [findNode_kid l.id n _ c hc hnd (findNode_some_mem hfc)]
    exact hfc

/-! ### leaf authority -/

/-- **node authority.** The node a key's route passes decides the key: looking the key up in
    the whole subtree is looking it up below that node.  (No assumption relating `key` to
    `lo` or `hi`.) -/
theorem lookup_of_onRoute (h : SWO lt) (key : K) (id : Nat) {d d' : Nat} (n : Node K V d) (lo hi : Option K)
    (m : Node K V d') (hf : findNode id d n = some ⟨d', m⟩) (hnd : (idsOf n).Nodup) (hpar : ParN d n)
    (hord : Ord lt d lo hi n) (a b : Option K) (hon : (id, a, b) ∈ routeB lt key d lo hi n) :
    Spec.lookup lt (Node.pairs n) key = Spec.lookup lt (Node.pairs m) key := by
  obtain ⟨lo', hi', PL, PR, z⟩ := zoom h id d n lo hi d' m hf hnd hpar hord
  obtain ⟨hl, hr⟩ := z.onRoute key a b hon
  rw [z.pairs, List.append_assoc, Spec.lookup_append_left h _ _ _ hl, Spec.lookup_append_right h _ _ _ hr]

/-- **leaf authority** (`searchNode_ok` without occupancy, and without distinct identities):
    the leaf at the end of the route decides the key. -/
theorem lookup_routeLeaf (h : SWO lt) (key : K) : ∀ (d : Nat) (lo hi : Option K) (n : Node K V d) (l : Leaf K V),
    Ord lt d lo hi n → ParN d n → routeLeaf lt key d n = some l →
    Spec.lookup lt (Node.pairs n) key = Spec.lookup lt (l.keys.zip l.vals) key := by
  intro d
  induction d with
  | zero =>
    intro lo hi (n : Leaf K V) l _ _ hl
    have : n = l := by injection hl
    subst this
    rfl
  | succ d ih =>
    intro lo hi (n : Inner K (Node K V d)) l hord hpar hl
    obtain ⟨s, c, hs, hc, hparc, _⟩ := routeB_inner (lt := lt) key lo hi n hpar
    rw [routeLeaf_succ key n s c hs hc] at hl
    obtain ⟨rA, rB, A, B, hr, hk, hlA, hlA', hlB⟩ := decomp_at_index n hpar.1 _ s c hs hc
    have hlAA : rA.length = A.length := by omega
    have hsorted := Ord_sorted h n hord hpar
    have hkids := hord.2
    rw [hr, hk, Kids_decomp hi rA rB s A B c hlAA] at hkids
    obtain ⟨hKA, hOc, _, hKB⟩ := hkids
    have hparA : ∀ a ∈ A, ParN d a := fun a ha => hpar.2.2 a (by rw [hk]; simp [ha])
    have hparB : ∀ b ∈ B, ParN d b := fun b hb => hpar.2.2 b (by rw [hk]; simp [hb])
    have hbA := KidsOrd_pairs_bounds h (some s) rA A hparA hKA
    have hbB := KidsOrd_pairs_bounds h hi rB B hparB hKB
    rw [pairsE_zip' rA A hlAA] at hbA
    rw [pairsE_zip' rB B hlB] at hbB
    obtain ⟨hF1, hF2⟩ := searchLE_split_facts h key rA rB s (by rw [← hr]; exact hsorted)
      (by rw [← hr, hlA])
    have hL : AllLt lt (A.flatMap (Node.pairs (d := d))) key := by
      intro p hp
      have hne' : rA ≠ [] := by
        intro e
        subst e
        have : A = [] := List.eq_nil_of_length_eq_zero (by simpa using hlAA.symm)
        subst this
        simp at hp
      exact h.lt_of_lt_of_le (hbA p hp).1 (hF1 hne')
    have hR : AllGt lt (B.flatMap (Node.pairs (d := d))) key := by
      intro p hp
      obtain ⟨_, e, he, h2⟩ := hbB p hp
      exact h.lt_of_lt_of_le (hF2 e.1 (List.of_mem_zip he).1) h2
    rw [pairs_succ n, hk, List.flatMap_append, List.flatMap_cons,
      Spec.lookup_append_left h _ _ _ hL, Spec.lookup_append_right h _ _ _ hR]
    exact ih _ _ c l hOc hparc hl

end Gobptree.Conc
