/-
  Single-thread agreement, part 6: `Search` of a lone thread computes `Tree.search`.
-/
import Gobptree.Proofs.CSoloUp3

namespace Gobptree.Conc
open Gobptree

variable {K V : Type}

theorem roArrive_leaf (P : Params K) (t : Nat) (s : St K V) (key : K) (hold : Lk) (n : Nat) (l : Leaf K V) (v : Option V)
    (hfind : s.tree.find n = some ⟨0, l⟩) (hs : Leaf.search P l key = .ok v) :
    roArrive P t s false key hold n = (((s.rel t hold).rel t (.node n)), .done (.found v)) := by
  unfold roArrive
  simp only [show (s.rel t hold).tree = s.tree from rfl, hfind, leafOf?, hs]
  rfl

theorem roArrive_inner (P : Params K) (t : Nat) (s : St K V) (key : K) (hold : Lk) (n : Nat) {d : Nat}
    (p : Inner K (Node K V d)) (child : Node K V d)
    (hfind : s.tree.find n = some ⟨d + 1, p⟩) (hk : p.kids[searchLE P.lt key p.runts]? = some child) :
    roArrive P t s false key hold n =
      (s.rel t hold, .park (.want (.node (Node.id child)) (.roNode false key (.node n) (Node.id child)))) := by
  unfold roArrive
  simp only [show (s.rel t hold).tree = s.tree from rfl, hfind, leafOf?, innerRunts?, innerKidId?, hk, Option.map_some]

/-- the statement proved by induction on the height -/
def RoSim (P : Params K) (key : K) (d : Nat) : Prop :=
  ∀ {D : Nat} (c : Ctx K V D d) (x : Node K V d) (o nid : Nat) (v : Option V) (hold : Lk) (s : St K V),
    s.tree = treeOf o c x nid → s.held = [hold, .node (Node.id x)] → OwnOk s → IdInv c x nid →
    searchNode P key d x = .ok v →
    ∃ s', SoloFin P (roArrive P 0 s false key hold (Node.id x)) s' (.found v) ∧ SoloPost s s' (treeOf o c x nid) []

theorem searchNode_succ_inv (P : Params K) (key : K) {d : Nat} (p : Inner K (Node K V d)) (v : Option V)
    (h : searchNode P key (d + 1) p = .ok v) :
    ∃ child, p.kids[searchLE P.lt key p.runts]? = some child ∧ searchNode P key d child = .ok v := by
  simp only [searchNode] at h
  split at h
  · cases h
  · rename_i child hk
    exact ⟨child, hk, h⟩

theorem ro_inner (P : Params K) (key : K) (d : Nat) (ih : RoSim (V := V) P key d)
    {D : Nat} (c : Ctx K V D (d + 1)) (p : Inner K (Node K V d)) (o nid : Nat) (v : Option V) (hold : Lk) (s : St K V)
    (htree : s.tree = treeOf o c (p : Node K V (d + 1)) nid) (hheld : s.held = [hold, .node p.id]) (ho : OwnOk s)
    (hinv : IdInv c (p : Node K V (d + 1)) nid) (hs : searchNode P key (d + 1) p = .ok v) :
    ∃ s', SoloFin P (roArrive P 0 s false key hold p.id) s' (.found v) ∧
      SoloPost s s' (treeOf o c (p : Node K V (d + 1)) nid) [] := by
  obtain ⟨child, hk, hs'⟩ := searchNode_succ_inv P key p v hs
  obtain ⟨A, B, hkids, hA⟩ := kids_split _ _ _ hk
  have hnm : p.id ∉ c.ids := hinv.not_mem
  have hfind : s.tree.find p.id = some ⟨d + 1, p⟩ := by
    rw [htree]; exact find_treeOf o c (p : Node K V (d + 1)) nid hnm
  rw [roArrive_inner P 0 s key hold _ p child hfind hk]
  clear hk hA hs
  obtain ⟨pid, prunts, pkids⟩ := p
  simp only at hkids hheld hnm
  subst hkids
  have hcc := count_id_nids child
  have hinv2 : IdInv (Ctx.kid c pid prunts A B) child nid := by
    intro a
    have h1 := hinv a
    rw [count_nids_split] at h1
    rw [count_ids_kid]
    omega
  have hne : Node.id child ≠ pid := by
    intro e
    have h1 := (hinv (Node.id child)).1
    rw [count_nids_split, if_pos e.symm] at h1
    omega
  have hheld1 : (s.rel 0 hold).held = [.node pid] := by
    show s.held.erase hold = _
    rw [hheld]; simp
  obtain ⟨s', hf, hpost⟩ := ih (Ctx.kid c pid prunts A B) child o nid v
    (.node pid) ((s.rel 0 hold).tick.acq 0 (.node (Node.id child)))
    htree
    (by show (s.rel 0 hold).held ++ [_] = _; rw [hheld1]; rfl)
    ((ho.rel _).tick.acq _) hinv2 hs'
  refine ⟨s', SoloFin.park (ho.rel _) (by rw [hheld1]; simp [hne]) hf, hpost.tree, hpost.held, hpost.own,
    hpost.cursor, hpost.exhausted, ?_⟩
  exact (Grows.rel _ _).trans_nil ((Grows.tick _).trans_nil ((Grows.acq _ _).trans_nil hpost.evs))

theorem ro_all (P : Params K) (key : K) : ∀ d, RoSim (V := V) P key d := by
  intro d
  induction d with
  | zero =>
    intro D c l o nid v hold s htree hheld ho hinv hs
    have hnm : Node.id (d := 0) l ∉ c.ids := hinv.not_mem
    have hfind : s.tree.find (Node.id (d := 0) l) = some ⟨0, l⟩ := by
      rw [htree]; exact find_treeOf o c l nid hnm
    rw [roArrive_leaf P 0 s key hold _ l v hfind hs]
    refine ⟨_, SoloFin.done _ _, htree, ?_, (ho.rel _).rel _, rfl, rfl, (Grows.rel _ _).trans_nil (Grows.rel _ _)⟩
    show (s.held.erase hold).erase _ = []
    rw [hheld]; simp
  | succ d ih =>
    intro D c p o nid v hold s htree hheld ho hinv hs
    exact ro_inner P key d ih c p o nid v hold s htree hheld ho hinv hs

/-- **Search of a lone thread computes `Tree.search`** -/
theorem ro_tree (P : Params K) (key : K) (t : Tree K V) (v : Option V) (s : St K V)
    (htree : s.tree = t) (hheld : s.held = []) (ho : OwnOk s)
    (hinv : IdInv Ctx.top t.root t.nextId) (hs : t.search P key = .ok v) :
    ∃ s', SoloFin P (s, .park (.want .tree (.roTree false key))) s' (.found v) ∧ SoloPost s s' t [] := by
  subst htree
  obtain ⟨s', hf, hpost⟩ := ro_all P key s.tree.depth Ctx.top s.tree.root s.tree.order s.tree.nextId v .tree
    ((s.tick.acq 0 .tree).tick.acq 0 (.node (Node.id s.tree.root))) (treeOf_eta s.tree).symm
    (by show (s.held ++ [_]) ++ [_] = _; rw [hheld]; rfl) ((ho.tick.acq _).tick.acq _) hinv hs
  refine ⟨s', SoloFin.park ho (by rw [hheld]; simp) ?_, ?_, hpost.held, hpost.own, hpost.cursor, hpost.exhausted, ?_⟩
  · show SoloFin P (s.tick.acq 0 .tree, .park (.want (.node (Node.id s.tree.root))
      (.roNode false key .tree (Node.id s.tree.root)))) s' (.found v)
    refine SoloFin.park (ho.tick.acq _) ?_ hf
    show Lk.node _ ∉ s.held ++ [.tree]
    rw [hheld]; simp
  · rw [hpost.tree]; exact treeOf_eta _
  · exact (Grows.tick _).trans_nil ((Grows.acq _ _).trans_nil ((Grows.tick _).trans_nil ((Grows.acq _ _).trans_nil hpost.evs)))

end Gobptree.Conc
