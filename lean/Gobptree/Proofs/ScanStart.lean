/-
  The cursor's start index on the landing leaf selects exactly the entries ≥ start.
-/
import Gobptree.Proofs.RunOk

namespace Gobptree

variable {K V : Type} {lt : K → K → Bool} {P : Params K}

/-- **C02 (partial), the start position is exact.** On a sorted leaf, dropping the first
    `startIndex` entries leaves exactly the entries with key ≥ start — in particular nothing
    if every key of the leaf is smaller than the start key (the repaired defect D3: the
    clamped search alone would select the last key). -/
theorem start_exact (h : SWO lt) (hP : P.lt = lt) (l : Leaf K V) (key : K)
    (hs : Sorted lt l.keys) (hlen : l.keys.length = l.vals.length) :
    (l.keys.zip l.vals).drop (startIndex P {} key l) = Spec.from lt (l.keys.zip l.vals) key := by
  subst hP
  by_cases hnil : l.keys = []
  · have hv : l.vals = [] := List.eq_nil_of_length_eq_zero (by rw [← hlen, hnil]; rfl)
    simp [hnil, hv, Spec.from]
  · obtain ⟨hg, A, B, hAdef, hBdef, hsplit, hA, hcase⟩ := searchGE_cases h key l.keys l.vals hs hlen hnil
    have hAlen : A.length = searchGE P.lt key l.keys := by
      rw [hAdef, List.length_zip, List.length_take, List.length_take]; omega
    have hfromA : Spec.from P.lt A key = [] := Spec.from_of_allLt A key hA
    unfold startIndex
    simp only [Bool.false_eq_true, if_false]
    rw [List.getElem?_eq_getElem hg]
    simp only
    rcases hcase with ⟨he, hB⟩ | ⟨hk, hB⟩ | ⟨hk, hlast, hBnil⟩
    · have hnlt : P.lt l.keys[searchGE P.lt key l.keys] key = false := by
        simp only [eqv, Bool.and_eq_true, Bool.not_eq_true'] at he; exact he.2
      simp only [hnlt, Bool.false_eq_true, if_false]
      have hge : ∀ p ∈ (l.keys[searchGE P.lt key l.keys], l.vals[searchGE P.lt key l.keys]'(by omega)) :: B, P.lt p.1 key = false := by
        intro p hp
        cases List.mem_cons.mp hp with
        | inl e => rw [e]; exact hnlt
        | inr e => exact h.asymm (hB p e)
      rw [hsplit, Spec.from_append, hfromA, List.nil_append, Spec.from_of_allGe _ key hge]
      generalize ((l.keys[searchGE P.lt key l.keys], l.vals[searchGE P.lt key l.keys]'(by omega)) :: B) = X
      rw [← hAlen, List.drop_left]
    · have hnlt : P.lt l.keys[searchGE P.lt key l.keys] key = false := h.asymm hk
      simp only [hnlt, Bool.false_eq_true, if_false]
      have hge : ∀ p ∈ (l.keys[searchGE P.lt key l.keys], l.vals[searchGE P.lt key l.keys]'(by omega)) :: B, P.lt p.1 key = false := by
        intro p hp
        cases List.mem_cons.mp hp with
        | inl e => rw [e]; exact hnlt
        | inr e => exact h.asymm (hB p e)
      rw [hsplit, Spec.from_append, hfromA, List.nil_append, Spec.from_of_allGe _ key hge]
      generalize ((l.keys[searchGE P.lt key l.keys], l.vals[searchGE P.lt key l.keys]'(by omega)) :: B) = X
      rw [← hAlen, List.drop_left]
    · simp only [hk, if_true]
      have hall : AllLt P.lt (l.keys.zip l.vals) key := by
        rw [hsplit, hBnil]
        intro p hp
        cases List.mem_append.mp hp with
        | inl hm => exact hA p hm
        | inr hm => simp at hm; subst hm; exact hk
      rw [Spec.from_of_allLt _ key hall]
      apply List.drop_eq_nil_of_le
      rw [List.length_zip]; omega

end Gobptree
