/-
  Key-order block lemmas for the non-Delete continuations, part 4: how the routing index
  (`Picks`) moves when the separator list is lowered at the front, gets a separator inserted,
  or is cut in two halves.  Pure list reasoning.
-/
import Gobptree.Proofs.CKUpBase

namespace Gobptree.Conc
open Gobptree

variable {K : Type} {lt : K → K → Bool}

/-! ### `getElem?` on the normal forms -/

section forms
variable {α : Type}

theorem getElem?_form_lt (A B : List α) (x : α) (i : Nat) (h : i < A.length) : (A ++ x :: B)[i]? = A[i]? :=
  List.getElem?_append_left h

theorem getElem?_form_gt (A B : List α) (x : α) (i : Nat) (h : A.length < i) :
    (A ++ x :: B)[i]? = B[i - A.length - 1]? := by
  rw [List.getElem?_append_right (by omega)]
  obtain ⟨n, hn⟩ : ∃ n, i - A.length = n + 1 := ⟨i - A.length - 1, by omega⟩
  rw [hn]
  simp

/-- `L2` is `L` with `s` inserted at position `m` -/
structure InsAt (L L2 : List α) (m : Nat) (s : α) : Prop where
  lo : ∀ i, i < m → L2[i]? = L[i]?
  mid : L2[m]? = some s
  hi : ∀ i, m ≤ i → L2[i + 1]? = L[i]?

theorem insAt_form (a b : List α) (x y : α) : InsAt (a ++ x :: b) (a ++ x :: y :: b) (a.length + 1) y := by
  refine ⟨?_, form_getElem_next a b x y, ?_⟩
  · intro i hi
    by_cases h : i < a.length
    · rw [getElem?_form_lt _ _ _ _ h, getElem?_form_lt _ _ _ _ h]
    · have : i = a.length := by omega
      subst this
      simp
  · intro i hi
    rw [getElem?_form_gt _ _ _ _ (by omega), getElem?_form_gt _ _ _ _ (by omega)]
    obtain ⟨n, hn⟩ : ∃ n, i + 1 - a.length - 1 = n + 1 := ⟨i - a.length - 1, by omega⟩
    have hn' : i - a.length - 1 = n := by omega
    rw [hn, hn']
    simp

end forms

theorem sorted_getElem? {L : List K} (hs : Sorted lt L) {i j : Nat} {a b : K} (hij : i < j)
    (ha : L[i]? = some a) (hb : L[j]? = some b) : lt a b = true := by
  obtain ⟨hi, e1⟩ := List.getElem?_eq_some_iff.1 ha
  obtain ⟨hj, e2⟩ := List.getElem?_eq_some_iff.1 hb
  rw [← e1, ← e2]
  exact hs.getElem_lt hij hj

/-! ### lowering the first separator -/

theorem picks_low (key : K) (r0 r0' : K) (rest : List K) (j : Nat) (hp : Picks lt key (r0 :: rest) j) :
    Picks lt key (r0' :: rest) j := by
  obtain ⟨⟨a, ha, h1⟩, h2⟩ := hp
  cases j with
  | zero =>
    refine ⟨⟨r0', rfl, fun h => absurd h (Nat.lt_irrefl 0)⟩, ?_⟩
    intro j' a' hj' ha'
    obtain ⟨n, rfl⟩ : ∃ n, j' = n + 1 := ⟨j' - 1, by omega⟩
    exact h2 (n + 1) a' hj' ha'
  | succ j =>
    refine ⟨⟨a, ha, h1⟩, ?_⟩
    intro j' a' hj' ha'
    obtain ⟨n, rfl⟩ : ∃ n, j' = n + 1 := ⟨j' - 1, by omega⟩
    exact h2 (n + 1) a' hj' ha'

theorem searchLE_low (h : SWO lt) (key : K) (r0 r0' : K) (rest : List K)
    (hs : Sorted lt (r0 :: rest)) (hs' : Sorted lt (r0' :: rest)) :
    searchLE lt key (r0' :: rest) = searchLE lt key (r0 :: rest) :=
  picks_unique h key _ hs' _ (picks_low key r0 r0' rest _ (searchLE_picks h key _ hs (by simp)))

/-! ### inserting a separator -/

/-- where the search ends after `s` was inserted at position `m` -/
def insIdx (lt : K → K → Bool) (key : K) (m : Nat) (s : K) (j : Nat) : Nat :=
  if j + 1 < m then j else if j + 1 = m then (if lt key s then j else j + 1) else j + 1

theorem picks_ins (h : SWO lt) (key : K) (L L2 : List K) (m : Nat) (s : K) (hm : 1 ≤ m)
    (hins : InsAt L L2 m s) (hs2 : Sorted lt L2) (j : Nat) (hp : Picks lt key L j) :
    Picks lt key L2 (insIdx lt key m s j) := by
  obtain ⟨⟨a, ha, h1⟩, h2⟩ := hp
  unfold insIdx
  by_cases c1 : j + 1 < m
  · rw [if_pos c1]
    refine ⟨⟨a, by rw [hins.lo j (by omega)]; exact ha, h1⟩, ?_⟩
    intro j' a' hj' ha'
    by_cases c2 : j' < m
    · rw [hins.lo j' c2] at ha'
      exact h2 j' a' hj' ha'
    · by_cases c3 : j' = m
      · subst c3
        rw [hins.mid] at ha'
        cases ha'
        -- `key < L[m-1] < s`
        have hm1 : L2[j' - 1]? = L[j' - 1]? := hins.lo (j' - 1) (by omega)
        cases hb : L[j' - 1]? with
        | none =>
          -- then `L2` has no entry at `m - 1` although it has one at `m`
          rw [hb] at hm1
          have := hins.mid
          obtain ⟨hlen, _⟩ := List.getElem?_eq_some_iff.1 this
          have : j' - 1 < L2.length := by omega
          rw [List.getElem?_eq_getElem this] at hm1
          cases hm1
        | some b =>
          have hkb : lt key b = true := h2 (j' - 1) b (by omega) hb
          rw [hb] at hm1
          exact h.trans _ _ _ hkb (sorted_getElem? hs2 (by omega) hm1 hins.mid)
      · obtain ⟨i, rfl⟩ : ∃ i, j' = i + 1 := ⟨j' - 1, by omega⟩
        rw [hins.hi i (by omega)] at ha'
        exact h2 i a' (by omega) ha'
  · rw [if_neg c1]
    by_cases c2 : j + 1 = m
    · rw [if_pos c2]
      by_cases c3 : lt key s = true
      · rw [if_pos c3]
        refine ⟨⟨a, by rw [hins.lo j (by omega)]; exact ha, h1⟩, ?_⟩
        intro j' a' hj' ha'
        by_cases c4 : j' = m
        · subst c4
          rw [hins.mid] at ha'
          cases ha'
          exact c3
        · obtain ⟨i, rfl⟩ : ∃ i, j' = i + 1 := ⟨j' - 1, by omega⟩
          rw [hins.hi i (by omega)] at ha'
          exact h2 i a' (by omega) ha'
      · rw [if_neg c3]
        rw [c2]
        refine ⟨⟨s, hins.mid, fun _ => by simpa using c3⟩, ?_⟩
        intro j' a' hj' ha'
        obtain ⟨i, rfl⟩ : ∃ i, j' = i + 1 := ⟨j' - 1, by omega⟩
        rw [hins.hi i (by omega)] at ha'
        exact h2 i a' (by omega) ha'
    · rw [if_neg c2]
      refine ⟨⟨a, by rw [hins.hi j (by omega)]; exact ha, fun _ => h1 (by omega)⟩, ?_⟩
      intro j' a' hj' ha'
      obtain ⟨i, rfl⟩ : ∃ i, j' = i + 1 := ⟨j' - 1, by omega⟩
      rw [hins.hi i (by omega)] at ha'
      exact h2 i a' (by omega) ha'

/-! ### cutting the list in two -/

theorem picks_take (h : SWO lt) (key : K) (L : List K) (hh : Nat) (s : K) (hpos : 1 ≤ hh) (hs : Sorted lt L)
    (hsm : L[hh]? = some s) (hk : lt key s = true) (j : Nat) (hp : Picks lt key L j) :
    j < hh ∧ Picks lt key (L.take hh) j := by
  obtain ⟨⟨a, ha, h1⟩, h2⟩ := hp
  have hj : j < hh := by
    apply Classical.byContradiction
    intro hc
    have hge : hh ≤ j := by omega
    have hna : lt key a = false := h1 (by omega)
    by_cases e : j = hh
    · subst e
      rw [hsm] at ha
      cases ha
      rw [hk] at hna
      cases hna
    · have := sorted_getElem? hs (show hh < j by omega) hsm ha
      have := h.trans _ _ _ hk this
      rw [hna] at this
      cases this
  refine ⟨hj, ⟨a, ?_, h1⟩, ?_⟩
  · rw [List.getElem?_take, if_pos hj]
    exact ha
  · intro j' a' hj' ha'
    rw [List.getElem?_take] at ha'
    by_cases c : j' < hh
    · rw [if_pos c] at ha'
      exact h2 j' a' hj' ha'
    · rw [if_neg c] at ha'
      cases ha'

theorem picks_drop (key : K) (L : List K) (hh : Nat) (s : K)
    (hsm : L[hh]? = some s) (hk : lt key s = false) (j : Nat) (hp : Picks lt key L j) :
    hh ≤ j ∧ Picks lt key (L.drop hh) (j - hh) := by
  obtain ⟨⟨a, ha, h1⟩, h2⟩ := hp
  have hj : hh ≤ j := by
    apply Classical.byContradiction
    intro hc
    have := h2 hh s (by omega) hsm
    rw [hk] at this
    cases this
  refine ⟨hj, ⟨a, ?_, fun h0 => h1 (by omega)⟩, ?_⟩
  · rw [List.getElem?_drop]
    have : hh + (j - hh) = j := by omega
    rw [this]
    exact ha
  · intro j' a' hj' ha'
    rw [List.getElem?_drop] at ha'
    exact h2 (hh + j') a' (by omega) ha'

/-! ### a two-element list -/

theorem searchLE_two (h : SWO lt) (key a b : K) (hab : lt a b = true) :
    searchLE lt key [a, b] = if lt key b then 0 else 1 := by
  have hs : Sorted lt [a, b] := by
    unfold Sorted
    simp [hab]
  apply picks_unique h key _ hs
  by_cases c : lt key b = true
  · rw [if_pos c]
    refine ⟨⟨a, rfl, fun h0 => absurd h0 (Nat.lt_irrefl 0)⟩, ?_⟩
    intro j' a' hj' ha'
    obtain ⟨n, rfl⟩ : ∃ n, j' = n + 1 := ⟨j' - 1, by omega⟩
    cases n with
    | zero =>
      have : some b = some a' := ha'
      cases this
      exact c
    | succ n => simp at ha'
  · rw [if_neg c]
    refine ⟨⟨b, rfl, fun _ => by simpa using c⟩, ?_⟩
    intro j' a' hj' ha'
    obtain ⟨n, rfl⟩ : ∃ n, j' = n + 2 := ⟨j' - 2, by omega⟩
    simp at ha'

/-! ### `hiAt` -/

theorem hiAt_take (L : List K) (hh : Nat) (s : K) (hi : Option K) (hsm : L[hh]? = some s) (j : Nat) (hj : j < hh) :
    hiAt (L.take hh) j (some s) = hiAt L j hi := by
  unfold hiAt
  rw [List.getElem?_take]
  by_cases c : j + 1 < hh
  · rw [if_pos c]
    obtain ⟨hlen, _⟩ := List.getElem?_eq_some_iff.1 hsm
    rw [List.getElem?_eq_getElem (by omega)]
  · rw [if_neg c]
    have : j + 1 = hh := by omega
    rw [this, hsm]

theorem hiAt_drop (L : List K) (hh : Nat) (hi : Option K) (j : Nat) :
    hiAt (L.drop hh) j hi = hiAt L (hh + j) hi := by
  unfold hiAt
  rw [List.getElem?_drop]
  rfl

end Gobptree.Conc
