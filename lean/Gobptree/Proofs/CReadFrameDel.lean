/-
  READ FRAME, part 6b: Delete's unwinding (`delUnwind`, `delRightArrive`), descent (`delGo`)
  and continuations in the two runs.
-/
import Gobptree.Proofs.CReadFrameDelEnds
import Gobptree.Proofs.CReadFrameStep

namespace Gobptree.Conc
open Gobptree

variable {K V : Type}
variable {S : Nat → Prop} {R : Prop} {b1 b2 : List (Ev K V)}

/-- one level of the unwinding in the two runs: the same rebalancing outcome, related trees,
    and the loop invariant one level up in both -/
theorem reb_level_rf (P : Params K) (hp : PadOk P) {root : Nat} {H : List Lk}
    (hHS : ∀ x, Lk.node x ∈ H → S x) (hroot : Lk.node root ∈ H) {s1 s2 : St K V} {fr : Frame} {rest : List Frame}
    (hH : ∀ l ∈ framesHeld (fr :: rest), l ∈ H) (hT : TRel S R s1.tree s2.tree)
    (hinv1 : UInv P root s1 (fr :: rest) true fr.child) (hinv2 : UInv P root s2 (fr :: rest) true fr.child)
    (hright1 : ∀ x, s1.tree.kidAt fr.node (fr.index + 1) = some x → Lk.node x ∈ H)
    (hright2 : ∀ x, s2.tree.kidAt fr.node (fr.index + 1) = some x → Lk.node x ∈ H)
    {d : Nat} {i1 i2 : Inner K (Node K V d)}
    (hf1 : s1.tree.find fr.node = some ⟨d + 1, i1⟩) (hf2 : s2.tree.find fr.node = some ⟨d + 1, i2⟩) :
    ∃ child1 child2 i1' i2' small', i1.kids[fr.index]? = some child1 ∧ i2.kids[fr.index]? = some child2 ∧
      rebalance P {} (P.order >>> 1) i1 fr.index child1 = .ok (i1', small') ∧
      rebalance P {} (P.order >>> 1) i2 fr.index child2 = .ok (i2', small') ∧
      TRel S R (putInner s1.tree i1') (putInner s2.tree i2') ∧
      (∀ s1' : St K V, s1'.tree = putInner s1.tree i1' → UInv P root s1' rest small' fr.node) ∧
      (∀ s2' : St K V, s2'.tree = putInner s2.tree i2' → UInv P root s2' rest small' fr.node) := by
  obtain ⟨_, hfr1, hrest1⟩ := hinv1.frames
  obtain ⟨_, hfr2, hrest2⟩ := hinv2.frames
  have hok1 : TreeOk' (some fr.child) s1.tree := by simpa using hinv1.ok
  have hok2 : TreeOk' (some fr.child) s2.tree := by simpa using hinv2.ok
  obtain ⟨hHrest, hHchild, hHleft⟩ := framesHeld_cons_sub hH
  have hSnode : S fr.node := hHS _ (frames_top_held hroot rest fr.node hrest1 hHrest)
  have hsh := find_shallow_eq hT hSnode hf1 hf2
  have hk := krel_of_find hT hok1.ids.1 hok2.ids.1 hf1 hf2 hsh
  obtain ⟨c1, hc1, hcid1, hin1, _⟩ := rebIn_of_tree hok1 hf1 hfr1.1 (hinv1.small rfl)
  obtain ⟨c2, hc2, hcid2, hin2, _⟩ := rebIn_of_tree hok2 hf2 hfr2.1 (hinv2.small rfl)
  obtain ⟨child1, i1', small1, hc1', heval1, hnext1⟩ := reb_inv P hp (keep := fun _ => false)
    (fun _ _ => rfl) hroot hH hinv1 hright1 hf1
  obtain ⟨child2, i2', small2, hc2', heval2, hnext2⟩ := reb_inv P hp (keep := fun _ => false)
    (fun _ _ => rfl) hroot hH hinv2 hright2 hf2
  rw [hc1] at hc1'
  rw [hc2] at hc2'
  cases hc1'
  cases hc2'
  have hwin : ∀ jj c, i1.kids[jj]? = some c → fr.index ≤ jj + 1 → jj ≤ fr.index + 1 → S (Node.id c) := by
    intro jj c hjj h1 h2
    apply hHS
    have hkid : s1.tree.kidAt fr.node jj = some (Node.id c) := by rw [kidAt_of_find hf1, hjj]; rfl
    have hcases : jj = fr.index ∨ jj + 1 = fr.index ∨ jj = fr.index + 1 := by omega
    rcases hcases with rfl | hj | rfl
    · rw [hfr1.1] at hkid
      rw [← Option.some.inj hkid]
      exact hHchild
    · have hl := hfr1.2
      cases hfl : fr.left with
      | none => rw [hfl] at hl; simp only at hl; omega
      | some l =>
        rw [hfl] at hl
        simp only at hl
        have : fr.index - 1 = jj := by omega
        rw [this, hkid] at hl
        rw [Option.some.inj hl.2]
        exact hHleft _ hfl
    · exact hright1 _ hkid
  have hord1 : s1.tree.order = P.order := hinv1.order
  have hord2 : s2.tree.order = P.order := hinv2.order
  rw [hord1] at hin1
  rw [hord2] at hin2
  obtain ⟨j1, j2, sm, hev1, hev2, hid1, hid2, hsh', hk', ht1, ht2⟩ := rebalance_rf (S := S) P hp P.order hin1 hin2 hsh hk hwin
  rw [shiftRight_one_eq] at heval1 heval2
  rw [heval1] at hev1
  rw [heval2] at hev2
  cases hev1
  cases hev2
  have hidn1 : i1.id = fr.node := (find_facts hf1).1
  have hidn2 : i2.id = fr.node := (find_facts hf2).1
  obtain ⟨hu1, _, _, _⟩ := hnext1 { s1 with tree := putInner s1.tree i1' } rfl
  obtain ⟨hu2, _, _, _⟩ := hnext2 { s2 with tree := putInner s2.tree i2' } rfl
  refine ⟨c1, c2, i1', i2', small1, hc1, hc2, by rw [shiftRight_one_eq]; exact heval1, by rw [shiftRight_one_eq]; exact heval2, ?_, ?_, ?_⟩
  · exact putInner_rf hT hf1 hf2 (hid1.trans hidn1) (hid2.trans hidn2) hok1.ids.1 hok2.ids.1
      hu1.ok.ids.1 hu2.ok.ids.1 ht1 ht2 hsh hsh' hk'
  · intro s1' h
    exact (hnext1 s1' h).1
  · intro s2' h
    exact (hnext2 s2' h).1

theorem delUnwind_rf (P : Params K) (hp : PadOk P) (t : Nat) (key : K) (root : Nat) (H : List Lk)
    (hHS : ∀ x, Lk.node x ∈ H → S x) (hroot : Lk.node root ∈ H) (hR : R) :
    ∀ (frames : List Frame) (s1 s2 : St K V) (small : Bool) (top : Nat),
      SRel S R b1 b2 s1 s2 → UInv P root s1 frames small top → UInv P root s2 frames small top →
      (∀ l ∈ framesHeld frames, l ∈ H) →
      BRel S R b1 b2 (delUnwind P t s1 key frames small root) (delUnwind P t s2 key frames small root) := by
  intro frames
  induction frames with
  | nil =>
    intro s1 s2 small top hr hinv1 hinv2 _
    unfold delUnwind
    rw [delFinish_eq, delFinish_eq]
    have htop1 : top = s1.tree.rootId := by
      have : top = root := hinv1.frames
      rw [this]; exact hinv1.rootEq
    have htop2 : top = s2.tree.rootId := by
      have : top = root := hinv2.frames
      rw [this]; exact hinv2.rootEq
    have hok1 := hinv1.ok
    have hok2 := hinv2.ok
    rw [htop1] at hok1
    rw [htop2] at hok2
    have hT := finishTree_rf small hr.tree hR (by rw [← hinv1.rootEq]; exact hHS _ hroot) hok1 hok2
    exact ⟨((hr.withTree hT).rel t _).rel t _, rfl⟩
  | cons fr rest ih =>
    intro s1 s2 small top hr hinv1 hinv2 hH
    obtain ⟨hHrest, hHchild, hHleft⟩ := framesHeld_cons_sub hH
    obtain ⟨htop1, hfr1, hrest1⟩ := hinv1.frames
    obtain ⟨htop2, hfr2, hrest2⟩ := hinv2.frames
    unfold delUnwind
    cases small with
    | false =>
      simp only [Bool.not_false, if_true]
      have hinv1' : UInv P root (frameUnlock t s1 fr none) rest false fr.node :=
        ⟨by simpa using hinv1.ok, by simpa using hinv1.order, by simpa using hinv1.rootEq,
          by simpa using hrest1, by intro h; cases h⟩
      have hinv2' : UInv P root (frameUnlock t s2 fr none) rest false fr.node :=
        ⟨by simpa using hinv2.ok, by simpa using hinv2.order, by simpa using hinv2.rootEq,
          by simpa using hrest2, by intro h; cases h⟩
      exact ih _ _ false fr.node (hr.frameUnlock t fr none) hinv1' hinv2' hHrest
    | true =>
      simp only [Bool.not_true, Bool.false_eq_true, if_false]
      subst htop1
      have hok1 : TreeOk' (some fr.child) s1.tree := by simpa using hinv1.ok
      have hok2 : TreeOk' (some fr.child) s2.tree := by simpa using hinv2.ok
      obtain ⟨d1, i1, hf1, hlook1, k1, hk1, hkid1⟩ := inner_of_kidAt hfr1.1
      obtain ⟨d2, i2, hf2, hlook2, k2, hk2, hkid2⟩ := inner_of_kidAt hfr2.1
      have hSnode : S fr.node := hHS _ (frames_top_held hroot rest fr.node hrest1 hHrest)
      have hd : d1 = d2 := by have := find_depth_eq hr.tree hSnode hf1 hf2; omega
      subst hd
      have hsh := find_shallow_eq hr.tree hSnode hf1 hf2
      obtain ⟨hru, hkids⟩ := inner_of_shallow hsh
      obtain ⟨_, _, _, hin1, _⟩ := rebIn_of_tree hok1 hf1 hfr1.1 (hinv1.small rfl)
      obtain ⟨_, _, _, hin2, _⟩ := rebIn_of_tree hok2 hf2 hfr2.1 (hinv2.small rfl)
      have hlen1 : i1.runts.length = i1.kids.length := hin1.lens.1
      have hlen2 : i2.runts.length = i2.kids.length := hin2.lens.1
      rw [hf1, hf2]
      simp only []
      by_cases hRr : fr.index + 1 < i1.runts.length
      · have hRr2 : fr.index + 1 < i2.runts.length := by rw [← hru]; exact hRr
        simp only [hRr, hRr2, if_true]
        rw [getElem?_map_id hkids (fr.index + 1)]
        cases (i2.kids[fr.index + 1]?).map Node.id with
        | none => exact ⟨hr, rfl⟩
        | some r => exact ⟨hr, rfl⟩
      · have hRr2 : ¬ fr.index + 1 < i2.runts.length := by rw [← hru]; exact hRr
        simp only [hRr, hRr2, if_false]
        obtain ⟨c1, c2, i1', i2', small', hc1, hc2, hev1, hev2, hT', hu1, hu2⟩ :=
          reb_level_rf P hp hHS hroot hH hr.tree hinv1 hinv2
            (by
              intro x hx
              rw [kidAt_of_find hf1] at hx
              have : i1.kids[fr.index + 1]? = none := by
                apply List.getElem?_eq_none; omega
              rw [this] at hx
              cases hx)
            (by
              intro x hx
              rw [kidAt_of_find hf2] at hx
              have : i2.kids[fr.index + 1]? = none := by
                apply List.getElem?_eq_none; omega
              rw [this] at hx
              cases hx) hf1 hf2
        simp only [hc1, hc2, hev1, hev2]
        exact ih _ _ small' fr.node ((hr.withTree hT').frameUnlock t fr none)
          (hu1 _ (by simp)) (hu2 _ (by simp)) hHrest

theorem delRightArrive_rf (P : Params K) (hp : PadOk P) (t : Nat) (key : K) (root : Nat) (H : List Lk)
    (hHS : ∀ x, Lk.node x ∈ H → S x) (hroot : Lk.node root ∈ H) (hR : R)
    (s1 s2 : St K V) (rest : List Frame) (fr : Frame) (right : Nat)
    (hr : SRel S R b1 b2 s1 s2)
    (hinv1 : UInv P root s1 (fr :: rest) true fr.child) (hinv2 : UInv P root s2 (fr :: rest) true fr.child)
    (hH : ∀ l ∈ framesHeld (fr :: rest), l ∈ H)
    (hr1 : s1.tree.kidAt fr.node (fr.index + 1) = some right) (hr2 : s2.tree.kidAt fr.node (fr.index + 1) = some right)
    (hrH : Lk.node right ∈ H) :
    BRel S R b1 b2 (delRightArrive P t s1 key rest fr right root) (delRightArrive P t s2 key rest fr right root) := by
  obtain ⟨hHrest, _, _⟩ := framesHeld_cons_sub hH
  obtain ⟨_, hfr1, hrest1⟩ := hinv1.frames
  obtain ⟨_, hfr2, _⟩ := hinv2.frames
  obtain ⟨d1, i1, hf1, _, _⟩ := inner_of_kidAt hfr1.1
  obtain ⟨d2, i2, hf2, _, _⟩ := inner_of_kidAt hfr2.1
  have hSnode : S fr.node := hHS _ (frames_top_held hroot rest fr.node hrest1 hHrest)
  have hd : d1 = d2 := by have := find_depth_eq hr.tree hSnode hf1 hf2; omega
  subst hd
  obtain ⟨c1, c2, i1', i2', small', hc1, hc2, hev1, hev2, hT', hu1, hu2⟩ :=
    reb_level_rf P hp hHS hroot hH hr.tree hinv1 hinv2
      (by intro x hx; rw [hr1] at hx; cases hx; exact hrH)
      (by intro x hx; rw [hr2] at hx; cases hx; exact hrH) hf1 hf2
  unfold delRightArrive
  rw [hf1, hf2]
  simp only [hc1, hc2, hev1, hev2]
  exact delUnwind_rf P hp t key root H hHS hroot hR rest _ _ small' fr.node
    ((hr.withTree hT').frameUnlock t fr (some right)) (hu1 _ (by simp)) (hu2 _ (by simp)) hHrest

theorem delGo_rf (P : Params K) (hp : PadOk P) (t : Nat) (key : K) (root : Nat) (H : List Lk)
    (hHS : ∀ x, Lk.node x ∈ H → S x) (hroot : Lk.node root ∈ H) (hR : R)
    (s1 s2 : St K V) (frames : List Frame) (n : Nat) (hr : SRel S R b1 b2 s1 s2)
    (hok1 : TreeOk none s1.tree) (h41 : 4 ≤ s1.tree.order) (hord1 : s1.tree.order = P.order)
    (hrootEq1 : root = s1.tree.rootId) (hfr1 : FramesOk s1.tree root frames n)
    (hok2 : TreeOk none s2.tree) (h42 : 4 ≤ s2.tree.order) (hord2 : s2.tree.order = P.order)
    (hrootEq2 : root = s2.tree.rootId) (hfr2 : FramesOk s2.tree root frames n)
    (hH : ∀ l ∈ framesHeld frames, l ∈ H) :
    BRel S R b1 b2 (delGo P t s1 key frames n root) (delGo P t s2 key frames n root) := by
  have hok1' : TreeOk' none s1.tree := hok1.prime h41
  have hok2' : TreeOk' none s2.tree := hok2.prime h42
  have hnH : Lk.node n ∈ H := frames_top_held hroot frames n hfr1 hH
  have hSn : S n := hHS _ hnH
  unfold delGo delEnter
  rcases find_arel hr.tree hSn with ⟨h1, h2⟩ | ⟨a1, a2, h1, h2, hl, hru, hk⟩
  · rw [h1, h2]
    exact ⟨hr, rfl⟩
  · rw [h1, h2]
    simp only []
    cases hleaf : leafOf? a2 with
    | some l =>
      have e2 := leafOf?_some hleaf
      have e1 := leafOf?_some (hl.trans hleaf)
      subst e1 e2
      obtain ⟨l1', small1, heval1, out1⟩ := leaf_step P hok1' hord1 h1 key
      obtain ⟨l2', small2, heval2, out2⟩ := leaf_step P hok2' hord2 h2 key
      rw [heval1] at heval2
      cases heval2
      simp only [leafOf?, heval1]
      have hlook1 : s1.tree.look n = some (shallow (d := 0) l) := (find_facts h1).2.1
      have hlook2 : s2.tree.look n = some (shallow (d := 0) l) := (find_facts h2).2.1
      have hinv1 : UInv P root ({ s1 with tree := putLeaf s1.tree l1' } : St K V) frames small1 n := by
        refine ⟨out1.ok, out1.order.trans hord1, hrootEq1.trans out1.root.symm, ?_, out1.small⟩
        refine framesOk_transfer hok1.ids root frames n _ hfr1 hlook1 ?_
        intro x sh hx hlt
        rw [← hx]
        exact out1.look x (ne_of_height hlook1 hx hlt).symm
      have hinv2 : UInv P root ({ s2 with tree := putLeaf s2.tree l1' } : St K V) frames small1 n := by
        refine ⟨out2.ok, out2.order.trans hord2, hrootEq2.trans out2.root.symm, ?_, out2.small⟩
        refine framesOk_transfer hok2.ids root frames n _ hfr2 hlook2 ?_
        intro x sh hx hlt
        rw [← hx]
        exact out2.look x (ne_of_height hlook2 hx hlt).symm
      have hid : l1'.id = n := (deleteKey_id P l _ key l1' small1 heval1).trans (find_facts h1).1
      have hT : TRel S R (putLeaf s1.tree l1') (putLeaf s2.tree l1') :=
        putLeaf_rf hr.tree l1' (by rw [hid]; exact h1) (by rw [hid]; exact h2) hok1.ids.1 hok2.ids.1
      exact delUnwind_rf P hp t key root H hHS hroot hR frames _ _ small1 n (hr.withTree hT) hinv1 hinv2 hH
    | none =>
      rw [hl, hleaf, hru]
      simp only []
      cases innerRunts? a2 with
      | none => exact ⟨hr, rfl⟩
      | some runts =>
        simp only []
        by_cases hpos : searchLE P.lt key runts > 0
        · simp only [hpos, if_true]
          rw [hk]
          cases innerKidId? a2 (searchLE P.lt key runts - 1) with
          | none => exact ⟨hr, rfl⟩
          | some c => exact ⟨hr, rfl⟩
        · simp only [hpos, if_false]
          rw [hk]
          cases innerKidId? a2 (searchLE P.lt key runts) with
          | none => exact ⟨hr, rfl⟩
          | some c => exact ⟨hr, rfl⟩

/-- **Delete's continuations in the two runs** -/
theorem resume_rf_D : ResumeRfD K V := by
  intro S R b1 b2 s1 s2 P t k hd hr h41 h42 hpre1 hpre2 hk1 hk2 hkp hheld hlock hRt
  have hHS : ∀ x, Lk.node x ∈ kontHeld k ++ (kontLock k).toList → S x := by
    intro x hx
    rcases List.mem_append.1 hx with h | h
    · exact hheld x h
    · exact hlock x (by simpa using h)
  have hp := hpre1.pad
  cases k with
  | roTree _ _ => simp [isDelK] at hd
  | roNode _ _ _ _ => simp [isDelK] at hd
  | upTree _ _ _ => simp [isDelK] at hd
  | upRoot _ _ _ _ => simp [isDelK] at hd
  | upRootSib _ _ _ _ _ => simp [isDelK] at hd
  | upChild _ _ _ _ _ _ => simp [isDelK] at hd
  | upSib _ _ _ _ _ _ => simp [isDelK] at hd
  | upCallback _ _ _ _ => simp [isDelK] at hd
  | hop _ _ => simp [isDelK] at hd
  | paused => simp [isDelK] at hd
  | delTree key =>
    simp only [resume]
    refine ⟨hr.acq t _, ?_⟩
    have := (hr.tree.root (hRt (Or.inr rfl))).1
    show Flow.park (Park.want (Lk.node s1.tree.rootId) (Kont.delRoot key s1.tree.rootId)) =
      Flow.park (Park.want (Lk.node s2.tree.rootId) (Kont.delRoot key s2.tree.rootId))
    rw [this]
  | delRoot key r =>
    simp only [resume]
    have hR : R := hRt (Or.inl (by simp [kontHeld]))
    exact delGo_rf P hp t key r _ hHS (by simp [kontLock]) hR _ _ [] r (hr.acq t _)
      hpre1.tree h41 hpre1.order hk1 rfl hpre2.tree h42 hpre2.order hk2 rfl (by intro l hl; cases hl)
  | delLeft key frames node index left root =>
    have hR : R := hRt (Or.inl (by simp [kontHeld]))
    obtain ⟨hroot1, hfr1, hpos1, hl1, c1, hc1⟩ := hk1
    have hnode : Lk.node node ∈ kontHeld (Kont.delLeft (K := K) (V := V) key frames node index left root) :=
      frames_top_held (by simp [kontHeld]) frames node hfr1 (by intro l hl; simp [kontHeld, hl])
    have hSn : S node := hheld _ hnode
    simp only [resume, acq_tree]
    rcases find_arel hr.tree hSn with ⟨h1, h2⟩ | ⟨a1, a2, h1, h2, hl, hru, hk⟩
    · rw [h1, h2]
      exact ⟨hr.acq t _, rfl⟩
    · rw [h1, h2]
      simp only []
      rw [hk]
      cases innerKidId? a2 index with
      | none => exact ⟨hr.acq t _, rfl⟩
      | some c => exact ⟨hr.acq t _, rfl⟩
  | delChild key frames node index left child root =>
    have hR : R := hRt (Or.inl (by simp [kontHeld]))
    obtain ⟨hroot1, hfr1, hfrm1⟩ := hk1
    obtain ⟨hroot2, hfr2, hfrm2⟩ := hk2
    simp only [resume]
    refine delGo_rf P hp t key root _ hHS (by simp [kontHeld]) hR _ _
      (⟨node, index, left, child⟩ :: frames) child (hr.acq t _)
      hpre1.tree h41 hpre1.order hroot1 ⟨rfl, hfrm1, hfr1⟩ hpre2.tree h42 hpre2.order hroot2 ⟨rfl, hfrm2, hfr2⟩ ?_
    intro l hl
    simp only [framesHeld, List.mem_append, List.mem_singleton] at hl
    rcases hl with hl | hl | hl
    · simp [kontHeld, hl]
    · simp [kontHeld, hl]
    · rw [hl]; simp [kontLock]
  | delRight key rest fr right root =>
    have hR : R := hRt (Or.inl (by simp [kontHeld]))
    obtain ⟨hroot1, hfr1, hr1, hsm1⟩ := hk1
    obtain ⟨hroot2, hfr2, hr2, hsm2⟩ := hk2
    simp only [resume]
    have hok1 : TreeOk (some fr.child) s1.tree := hpre1.tree
    have hok2 : TreeOk (some fr.child) s2.tree := hpre2.tree
    refine delRightArrive_rf P hp t key root _ hHS (by simp [kontHeld]) hR _ _ rest fr right (hr.acq t _)
      ⟨by simpa using hok1.prime h41, hpre1.order, hroot1, hfr1, fun _ => hsm1⟩
      ⟨by simpa using hok2.prime h42, hpre2.order, hroot2, hfr2, fun _ => hsm2⟩ ?_ hr1 hr2 (by simp [kontLock])
    intro l hl
    apply List.mem_append_left
    simp only [kontHeld, List.mem_cons]
    right; right; exact hl

end Gobptree.Conc
