/-
  `FinishedClean` discharged from a static condition on the programs — definitions and the
  per-thread step.

  `endSt st p` is the abstract cursor state (`CSt`, the automaton of `CSDisc`) a program `p`
  ends in when started in `st` (`none`: the automaton rejects `p`).  `Closing progs` asks every
  program to end in `N` (no cursor open): every `NewScanner` is eventually followed by a
  `Close`.  The per-thread invariant `CloseOk` strengthens `DiscOk`: the rest of the program
  leads from the state the current operation ends in to `N`, and a FINISHED thread has no
  cursor leaf (`cursorLocks cursor = []`).
-/
import Gobptree.Proofs.CSFinal

namespace Gobptree.Conc
open Gobptree

variable {K V : Type}

/-- the abstract state a program ends in (fold of `discStep`; `none` if it is rejected) -/
def endSt : CSt → List (COp K V) → Option CSt
  | st, [] => some st
  | st, op :: rest =>
    match discStep st op with
    | none => none
    | some st' => endSt st' rest

/-- every program leaves no cursor open: it is disciplined and ends in abstract state `N` -/
def Closing (progs : List (List (COp K V))) : Prop := ∀ p ∈ progs, endSt .N p = some .N

theorem disciplined_of_endSt : ∀ (p : List (COp K V)) (st st' : CSt), endSt st p = some st' → disciplined st p = true := by
  intro p
  induction p with
  | nil => intro st st' _; rfl
  | cons op rest ih =>
    intro st st' h
    unfold endSt at h
    unfold disciplined
    cases hs : discStep st op with
    | none => rw [hs] at h; cases h
    | some st1 => rw [hs] at h; exact ih st1 st' h

/-- closing programs respect the cursor discipline -/
theorem Closing.disciplined {progs : List (List (COp K V))} (h : Closing progs) : Disciplined progs :=
  fun p hp => disciplined_of_endSt p .N .N (h p hp)

theorem endSt_cons {st st2 : CSt} {op : COp K V} {rest : List (COp K V)}
    (h : endSt st (op :: rest) = some st2) : ∃ st', discStep st op = some st' ∧ endSt st' rest = some st2 := by
  unfold endSt at h
  cases hs : discStep st op with
  | none => rw [hs] at h; cases h
  | some st' => rw [hs] at h; exact ⟨st', rfl, h⟩

/-- the closing invariant of a thread -/
def CloseOk (th : Thread K V) : Prop :=
  match th.park with
  | .start => endSt .N th.prog = some .N ∧ th.cursor = none
  | .finished => cursorLocks th.cursor = []
  | .want _ k => ∃ st', endSt st' (th.prog.drop (th.pc + 1)) = some .N ∧ kontAbs st' k th.cursor th.exhausted
  | .yielded k => ∃ st', endSt st' (th.prog.drop (th.pc + 1)) = some .N ∧ kontAbs st' k th.cursor th.exhausted

/-- the index of an open cursor is at least `-1` -/
def CurGe (c : Option (Option Nat × Int)) : Prop := ∀ leaf i, c = some (some leaf, i) → -1 ≤ i

theorem startOp_curGe (t : Nat) (s : St K V) (op : COp K V) (h : CurGe s.cursor) :
    CurGe (startOp t s op).1.cursor := by
  cases op with
  | ins k v => simp only [startOp]; split <;> exact h
  | upd k f y => simp only [startOp]; split <;> exact h
  | del k => simp only [startOp]; split <;> exact h
  | get k => simp only [startOp]; split <;> exact h
  | ns k => simp only [startOp]; split <;> exact h
  | pause => exact h
  | scan =>
    simp only [startOp]
    split
    · rename_i leaf i hcur hex
      have hi := h leaf i hcur
      split
      · exact h
      · split
        · split
          · intro l' i' e; simp at e
          · intro l' i' e
            simp only [Option.some.injEq, Prod.mk.injEq] at e
            omega
        · intro l' i' e
          simp only [Option.some.injEq, Prod.mk.injEq] at e
          omega
    · exact h
  | pair =>
    simp only [startOp]
    split
    · split
      · exact h
      · split
        · exact h
        · split <;> exact h
    · exact h
  | close =>
    simp only [startOp]
    split
    · exact h
    · intro l' i' e; simp at e

theorem roArrive_curGe (P : Params K) (t : Nat) (s : St K V) (sc : Bool) (key : K) (hold : Lk) (n : Nat)
    (h : CurGe s.cursor) : CurGe (roArrive P t s sc key hold n).1.cursor := by
  unfold roArrive
  simp only
  split
  · exact h
  · split
    · split
      · intro l' i' e
        simp only [Option.some.injEq, Prod.mk.injEq] at e
        omega
      · split <;> exact h
    · split
      · exact h
      · split <;> exact h

theorem resume_curGe (P : Params K) (t : Nat) (s : St K V) (k : Kont K V) (h : CurGe s.cursor) :
    CurGe (resume P t s k).1.cursor := by
  cases hsc : setsCursor k with
  | false => rw [(resume_cursor_same P t s k hsc).1]; exact h
  | true =>
    cases k with
    | roNode sc key hold want => simp only [resume]; exact roArrive_curGe P t _ sc key hold want h
    | hop cur next =>
      intro l' i' e
      simp only [resume, Option.some.injEq, Prod.mk.injEq] at e
      omega
    | _ => simp [setsCursor] at hsc

/-- from the first stretch of a step to the thread's next park (or its end) -/
theorem loop_close (t : Nat) (th : Thread K V) :
    ∀ (fuel : Nat) (s : St K V) (fl : Flow K V) (pc : Nat), th.prog.length ≤ pc + 1 + fuel →
      (∃ st', endSt st' (th.prog.drop (pc + 1)) = some .N ∧ flowAbs st' fl s.cursor s.exhausted) →
      CurGe s.cursor → (∀ p, fl = .park p → p.live) →
      (threadLoop t th fuel s fl pc).2.2 = false →
      CloseOk (threadLoop t th fuel s fl pc).1 := by
  intro fuel
  have hpark : ∀ (fuel : Nat) (s : St K V) (p : Park K V) (pc : Nat),
      (∃ st', endSt st' (th.prog.drop (pc + 1)) = some .N ∧ flowAbs st' (.park p) s.cursor s.exhausted) →
      p.live → CloseOk (threadLoop t th fuel s (.park p) pc).1 := by
    intro fuel s p pc ⟨st', h1, h2⟩ hl
    have : threadLoop t th fuel s (.park p) pc =
        ({ th with pc := pc, park := p, held := s.held, cursor := s.cursor, exhausted := s.exhausted }, s, false) := by
      cases fuel <;> rfl
    rw [this]
    cases p with
    | start => exact absurd hl id
    | finished => exact absurd hl id
    | want l k => exact ⟨st', h1, h2⟩
    | yielded k => exact ⟨st', h1, h2⟩
  have hend : ∀ (s : St K V) (pc : Nat), th.prog.length ≤ pc + 1 →
      (∃ st', endSt st' (th.prog.drop (pc + 1)) = some .N ∧ AbsC st' s.cursor s.exhausted) →
      cursorLocks s.cursor = [] := by
    intro s pc hlen ⟨st', h1, h2⟩
    rw [List.drop_eq_nil_of_le hlen] at h1
    have : st' = .N := Option.some.inj h1
    subst this
    exact h2
  induction fuel with
  | zero =>
    intro s fl pc hlen hd hc hl hdead
    cases fl with
    | panic => simp [threadLoop] at hdead
    | park p => exact hpark 0 s p pc hd (hl p rfl)
    | done r => exact hend s pc hlen hd
  | succ fuel ih =>
    intro s fl pc hlen hd hc hl hdead
    cases fl with
    | panic => simp [threadLoop] at hdead
    | park p => exact hpark _ s p pc hd (hl p rfl)
    | done r =>
      unfold threadLoop at hdead ⊢
      cases hop : th.prog[pc + 1]? with
      | none =>
        have hlen' : th.prog.length ≤ pc + 1 := by
          rcases Nat.lt_or_ge (pc + 1) th.prog.length with h | h
          · rw [List.getElem?_eq_getElem h] at hop; cases hop
          · exact h
        exact hend s pc hlen' hd
      | some op =>
        simp only [hop] at hdead ⊢
        obtain ⟨st', hd1, hd2⟩ := hd
        have hdrop : th.prog.drop (pc + 1) = op :: th.prog.drop (pc + 1 + 1) := by
          have hlt : pc + 1 < th.prog.length := by
            rcases Nat.lt_or_ge (pc + 1) th.prog.length with h | h
            · exact h
            · rw [List.getElem?_eq_none h] at hop; cases hop
          rw [List.drop_eq_getElem_cons hlt]
          congr 1
          rw [List.getElem?_eq_getElem hlt] at hop
          exact Option.some.inj hop
        rw [hdrop] at hd1
        obtain ⟨st'', hstep, hrest⟩ := endSt_cons hd1
        have habs := startOp_abs t ((s.note t (.ret pc r)).note t (.inv (pc + 1))) op st' st'' hd2 hstep hc
        exact ih _ _ (pc + 1) (by omega) ⟨st'', hrest, habs.2⟩
          (startOp_curGe t _ op hc) (fun p hp => startOp_park_live t _ op p hp) hdead

/-- **one scheduler step of one thread keeps the closing invariant** (unless the thread panics) -/
theorem runThread_close (P : Params K) (t : Nat) (th : Thread K V) (s0 : St K V)
    (hc0 : s0.cursor = th.cursor) (he0 : s0.exhausted = th.exhausted)
    (hok : ThreadOk th) (hge : CurGe th.cursor) (hcl : CloseOk th)
    (hd : (runThread P t th s0).2.2 = false) : CloseOk (runThread P t th s0).1 := by
  unfold runThread at hd ⊢
  unfold CloseOk at hcl
  cases hp : th.park with
  | finished =>
    rw [hp] at hcl
    simp only
    unfold CloseOk
    rw [hp]; exact hcl
  | start =>
    rw [hp] at hcl
    simp only [hp] at hd ⊢
    obtain ⟨hend, hcur⟩ := hcl
    cases hop : th.prog[0]? with
    | none =>
      simp only
      show cursorLocks th.cursor = []
      rw [hcur]; rfl
    | some op =>
      simp only [hop] at hd ⊢
      have hlt : 0 < th.prog.length := by
        rcases Nat.lt_or_ge 0 th.prog.length with h | h
        · exact h
        · rw [List.getElem?_eq_none h] at hop; cases hop
      have hprog : th.prog = op :: th.prog.drop 1 := by
        have := List.drop_eq_getElem_cons (l := th.prog) (i := 0) hlt
        rw [List.drop_zero] at this
        rw [this]
        congr 1
        rw [List.getElem?_eq_getElem hlt] at hop
        exact Option.some.inj hop
      rw [hprog] at hend
      obtain ⟨st'', hstep, hrest⟩ := endSt_cons hend
      have hs1c : (s0.note t (.inv 0)).cursor = none := by show s0.cursor = none; rw [hc0, hcur]
      have hge1 : CurGe (s0.note t (.inv 0)).cursor := by
        intro leaf i e; rw [hs1c] at e; cases e
      have habs := startOp_abs t (s0.note t (.inv 0)) op .N st''
        (by show cursorLocks (s0.note t (.inv 0)).cursor = []; rw [hs1c]; rfl) hstep hge1
      exact loop_close t th _ _ _ 0 (by omega) ⟨st'', hrest, habs.2⟩
        (startOp_curGe t _ op hge1) (fun p hp' => startOp_park_live t _ op p hp') hd
  | want l k =>
    rw [hp] at hcl
    simp only [hp] at hd ⊢
    obtain ⟨st', h1, h2⟩ := hcl
    have hkp : KontPre s0.cursor k := by
      have := hok.2.1; rw [hp] at this; rw [hc0]; exact this
    have habs := resume_abs P t s0 k st' (by rw [hc0, he0]; exact h2) hkp
    exact loop_close t th _ _ _ th.pc (by omega) ⟨st', h1, habs⟩
      (resume_curGe P t s0 k (by rw [hc0]; exact hge)) (fun p hp' => resume_park_live P t s0 k p hp') hd
  | yielded k =>
    rw [hp] at hcl
    simp only [hp] at hd ⊢
    obtain ⟨st', h1, h2⟩ := hcl
    have hkp : KontPre s0.cursor k := by
      have := hok.2.1; rw [hp] at this; rw [hc0]; exact this
    have habs := resume_abs P t s0 k st' (by rw [hc0, he0]; exact h2) hkp
    exact loop_close t th _ _ _ th.pc (by omega) ⟨st', h1, habs⟩
      (resume_curGe P t s0 k (by rw [hc0]; exact hge)) (fun p hp' => resume_park_live P t s0 k p hp') hd

end Gobptree.Conc
