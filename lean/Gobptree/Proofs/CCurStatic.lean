/-
  C04, static part 2: the cursor position invariant `CurPosW` (the form of `CurPos` that also
  covers a cursor waiting for the next leaf) and what it buys: ahead of the cursor lie exactly
  the admitted pairs of the map, and they are a suffix of the (strictly ascending) map.

  `CurPos` itself cannot hold while a cursor waits in `hop leaf next`: its index is then
  `len`, and the clause `keys[i]? = some c` of the bound `.gt c` is unsatisfiable.  `CurPosW`
  only demands `c ∈ keys`; for `i < len` the two coincide (`CurPosW.strengthen`).
-/
import Gobptree.Proofs.CCurSorted

namespace Gobptree.Conc
open Gobptree

variable {K V : Type} {lt : K → K → Bool}

/-- `CurPos`, with the clause for `.gt c` weakened to "`c` is a key of the leaf" -/
def CurPosW (lt : K → K → Bool) (t : Tree K V) (b : Bound K) (leaf : Nat) (i : Int) : Prop :=
  ∃ sh, t.look leaf = some sh ∧ sh.height = 0 ∧
    (∀ (j : Nat) (k : K), sh.keys[j]? = some k → (b.admits lt k = true ↔ i < (j : Int))) ∧
    match b with
    | .ge s => OnRoute lt t s leaf
    | .gt c => c ∈ sh.keys

def CursorPosW (lt : K → K → Bool) (t : Tree K V) (th : Thread K V) : Prop :=
  match th.cursor with
  | some (some leaf, i) => ∃ b, CurPosW lt t b leaf i
  | _ => True

theorem CurPos.weaken {t : Tree K V} {b : Bound K} {leaf : Nat} {i : Int} (h : CurPos lt t b leaf i) :
    CurPosW lt t b leaf i := by
  obtain ⟨sh, h1, h2, h3, h4⟩ := h
  refine ⟨sh, h1, h2, h3, ?_⟩
  cases b with
  | ge s => exact h4
  | gt c =>
    obtain ⟨j, _, hj⟩ := h4
    exact List.mem_of_getElem? hj

theorem CursorPos.weaken {t : Tree K V} {th : Thread K V} (h : CursorPos lt t th) : CursorPosW lt t th := by
  unfold CursorPos at h
  unfold CursorPosW
  split
  · rename_i leaf i hc
    rw [hc] at h
    obtain ⟨b, hb⟩ := h
    exact ⟨b, hb.weaken⟩
  · trivial

/-! ### the leaf under a cursor -/

/-- a leaf of the flat view is the leaf `find` returns -/
theorem look_leaf {t : Tree K V} {leaf : Nat} {sh : Shallow K V} (hl : t.look leaf = some sh) (h0 : sh.height = 0) :
    ∃ l : Leaf K V, t.find leaf = some ⟨0, l⟩ ∧ sh = shallow (d := 0) l ∧ l.id = leaf := by
  obtain ⟨a, hf, hsh, hid⟩ := find_some_of_look hl
  obtain ⟨d', m⟩ := a
  have hd : d' = 0 := by
    have := shallow_height m
    simp only at hsh
    rw [hsh] at this
    omega
  subst hd
  exact ⟨m, hf, hsh.symm, hid⟩

theorem leaf_sorted (h : SWO lt) {hole : Option Nat} {t : Tree K V} (hok : TreeOk hole t) (hord : OrdTree lt t)
    {leaf : Nat} {sh : Shallow K V} (hl : t.look leaf = some sh) (h0 : sh.height = 0) : Sorted lt sh.keys := by
  obtain ⟨l, hf, hsh, _⟩ := look_leaf hl h0
  obtain ⟨lo', hi', PL, PR, z⟩ := Tree.zoom h hf hok.ids.1 (parTree_of_treeOk hok) hord
  rw [hsh]
  exact z.ord.1

theorem leaf_lens {hole : Option Nat} {t : Tree K V} (hok : TreeOk hole t)
    {leaf : Nat} {sh : Shallow K V} (hl : t.look leaf = some sh) (h0 : sh.height = 0) :
    sh.keys.length = sh.vals.length :=
  ((hok.occ (leaf, sh) (look_mem hl)).2.2.1 h0).1

/-- every leaf other than a root leaf is non-empty -/
theorem leaf_nonempty {hole : Option Nat} {t : Tree K V} (hok : TreeOk hole t)
    {leaf : Nat} {sh : Shallow K V} (hl : t.look leaf = some sh) (hne : leaf ≠ t.rootId) :
    0 < sh.keys.length := by
  have hm := (hok.occ (leaf, sh) (look_mem hl)).2.1
  have h1 := hok.min_pos (hole := hole) hne sh.height
  exact Nat.lt_of_lt_of_le h1 hm

theorem shPairs_getElem? {sh : Shallow K V} {j : Nat} {p : K × V} (h : (shPairs sh)[j]? = some p) :
    sh.keys[j]? = some p.1 ∧ sh.vals[j]? = some p.2 := by
  unfold shPairs at h
  exact List.getElem?_zip_eq_some.1 h

theorem shPairs_length {sh : Shallow K V} (h : sh.keys.length = sh.vals.length) :
    (shPairs sh).length = sh.keys.length := by
  unfold shPairs
  rw [List.length_zip]; omega

theorem mem_shPairs_of_key {sh : Shallow K V} (h : sh.keys.length = sh.vals.length) {c : K} (hc : c ∈ sh.keys) :
    ∃ v, (c, v) ∈ shPairs sh := by
  obtain ⟨j, hj, e⟩ := List.getElem_of_mem hc
  have hjv : j < sh.vals.length := by omega
  refine ⟨sh.vals[j], ?_⟩
  unfold shPairs
  apply List.mem_iff_getElem.2
  refine ⟨j, by rw [List.length_zip]; omega, ?_⟩
  rw [List.getElem_zip, e]

/-- a root leaf is the whole flat view -/
theorem root_leaf_flat {t : Tree K V} (hi : IdsOk t) {sh : Shallow K V}
    (hl : t.look t.rootId = some sh) (h0 : sh.height = 0) :
    flatLeaves t.flat = [(t.rootId, sh)] := by
  rw [look_root hi] at hl
  have e := Option.some.inj hl
  have hd : t.depth = 0 := by
    have := shallow_height t.root
    rw [e] at this; omega
  obtain ⟨o, d, root, nid⟩ := t
  simp only at hd
  subst hd
  subst e
  show flatLeaves (flat (d := 0) root) = _
  rw [flat_zero, flatLeaves_cons_leaf _ _ rfl]
  rfl

/-! ### the admitted pairs are exactly what lies ahead, and a suffix of the map -/

/-- **the suffix property.**  Under the position invariant the map splits into a part none of
    whose pairs is admitted and the part ahead of the cursor, all of whose pairs are. -/
theorem CurPosW.suffix (h : SWO lt) {hole : Option Nat} {t : Tree K V} (hok : TreeOk hole t) (hord : OrdTree lt t)
    {b : Bound K} {leaf : Nat} {i : Int} (hp : CurPosW lt t b leaf i) :
    ∃ pre, t.abs = pre ++ t.ahead leaf i ∧
      (∀ p ∈ pre, b.admits lt p.1 = false) ∧ (∀ p ∈ t.ahead leaf i, b.admits lt p.1 = true) := by
  obtain ⟨sh, hl, h0, hidx, hb⟩ := hp
  have hids := hok.ids
  have hpar := parTree_of_treeOk hok
  have hlen := leaf_lens hok hl h0
  have hsorted := Tree.abs_sorted h hpar hord
  obtain ⟨A, B, hAB, hA, hB⟩ := Tree.leaf_split hids hl h0
  have habs : t.abs = A.flatMap (fun q => shPairs q.2) ++ shPairs sh ++ B.flatMap (fun q => shPairs q.2) := by
    rw [Tree.abs_flat, hAB]
    simp [List.flatMap_append, List.flatMap_cons]
  have hahead : t.ahead leaf i = (shPairs sh).drop (i + 1).toNat ++ B.flatMap (fun q => shPairs q.2) := by
    unfold Tree.ahead
    rw [hAB]
    exact aheadIn_split leaf i sh A B hA
  generalize hPA : A.flatMap (fun q => shPairs q.2) = PA at habs
  generalize hPB : B.flatMap (fun q => shPairs q.2) = PB at habs hahead
  -- the earlier leaves are not admitted, the later ones are
  have hsides : (∀ p ∈ PA, b.admits lt p.1 = false) ∧ (∀ p ∈ PB, b.admits lt p.1 = true) := by
    cases b with
    | gt c =>
      have hc : c ∈ sh.keys := hb
      obtain ⟨v, hv⟩ := mem_shPairs_of_key hlen hc
      rw [habs] at hsorted
      have h1 := List.pairwise_append.1 hsorted
      have h2 := List.pairwise_append.1 h1.1
      constructor
      · intro p hp
        have : lt p.1 c = true := h2.2.2 p hp (c, v) hv
        exact h.asymm this
      · intro p hp
        exact h1.2.2 (c, v) (List.mem_append_right _ hv) p hp
    | ge s =>
      obtain ⟨ra, rb, hab⟩ : OnRoute lt t s leaf := hb
      obtain ⟨l, hf, hsh, _⟩ := look_leaf hl h0
      obtain ⟨lo', hi', PL, PR, z⟩ := Tree.zoom h hf hids.1 hpar hord
      obtain ⟨zl, zr⟩ := z.onRoute s ra rb hab
      have hzabs : t.abs = PL ++ shPairs sh ++ PR := by
        rw [z.abs, hsh]; rfl
      -- identify the two decompositions
      have hident : PA = PL ∧ PB = PR := by
        cases hM : shPairs sh with
        | nil =>
          -- an empty leaf is a root leaf: there are no other leaves
          have hroot : leaf = t.rootId := by
            apply Classical.byContradiction
            intro hne
            have := leaf_nonempty hok hl hne
            have hz : (shPairs sh).length = 0 := by rw [hM]; rfl
            rw [shPairs_length hlen] at hz
            omega
          subst hroot
          have hfl := root_leaf_flat hids hl h0
          rw [hAB] at hfl
          have hAn : A = [] := by
            cases A with
            | nil => rfl
            | cons a A' =>
              simp only [List.cons_append, List.cons.injEq] at hfl
              have := congrArg List.length hfl.2
              simp at this
          subst hAn
          have hBn : B = [] := by
            simp only [List.nil_append, List.cons.injEq] at hfl
            exact hfl.2
          subst hBn
          simp only [List.flatMap_nil] at hPA hPB
          subst hPA; subst hPB
          rw [hM] at hzabs habs
          simp only [List.append_nil] at habs
          rw [habs] at hzabs
          have h1 : PL = [] := by
            cases PL with
            | nil => rfl
            | cons x xs => simp at hzabs
          subst h1
          have h2 : PR = [] := by
            cases PR with
            | nil => rfl
            | cons x xs => simp at hzabs
          exact ⟨rfl, h2.symm⟩
        | cons m0 M' =>
          rw [hM] at habs hzabs
          have e1 : t.abs = PA ++ (m0 :: (M' ++ PB)) := by rw [habs]; simp
          have e2 : t.abs = PL ++ (m0 :: (M' ++ PR)) := by rw [hzabs]; simp
          have hl1 : PA.length < t.abs.length := by rw [e1]; simp
          have hl2 : PL.length < t.abs.length := by rw [e2]; simp
          have g1 : t.abs[PA.length] = m0 := by
            simp only [e1, List.getElem_append_right (Nat.le_refl _), Nat.sub_self, List.getElem_cons_zero]
          have g2 : t.abs[PL.length] = m0 := by
            simp only [e2, List.getElem_append_right (Nat.le_refl _), Nat.sub_self, List.getElem_cons_zero]
          have hlenEq : PA.length = PL.length :=
            KSorted.unique h t.abs hsorted _ _ hl1 hl2 (by rw [g1, g2]; exact h.eqv_refl _)
          have e3 : PA ++ (m0 :: (M' ++ PB)) = PL ++ (m0 :: (M' ++ PR)) := by rw [← e1, ← e2]
          obtain ⟨h1, h2⟩ := List.append_inj e3 hlenEq
          refine ⟨h1, ?_⟩
          have h3 : M' ++ PB = M' ++ PR := (List.cons.inj h2).2
          exact List.append_cancel_left h3
      obtain ⟨e1, e2⟩ := hident
      subst e1; subst e2
      constructor
      · intro p hp
        show (!lt p.1 s) = false
        rw [zl p hp]; rfl
      · intro p hp
        show (!lt p.1 s) = true
        rw [h.asymm (zr p hp)]; rfl
  refine ⟨PA ++ (shPairs sh).take (i + 1).toNat, ?_, ?_, ?_⟩
  · rw [habs, hahead]
    conv => lhs; rw [← List.take_append_drop (i + 1).toNat (shPairs sh)]
    simp only [List.append_assoc]
  · intro p hp
    rcases List.mem_append.1 hp with hp | hp
    · exact hsides.1 p hp
    · obtain ⟨j, hj⟩ := List.getElem?_of_mem hp
      rw [List.getElem?_take] at hj
      split at hj
      · rename_i hjn
        have hk := (shPairs_getElem? hj).1
        have := hidx j p.1 hk
        cases ha : b.admits lt p.1 with
        | false => rfl
        | true =>
          have := this.1 ha
          omega
      · cases hj
  · intro p hp
    rw [hahead] at hp
    rcases List.mem_append.1 hp with hp | hp
    · obtain ⟨j, hj⟩ := List.getElem?_of_mem hp
      rw [List.getElem?_drop] at hj
      have hk := (shPairs_getElem? hj).1
      exact (hidx _ p.1 hk).2 (by omega)
    · exact hsides.2 p hp

/-- **C04, static**: ahead of the cursor lie exactly the admitted pairs of the map -/
theorem CurPosW.aheadSpec (h : SWO lt) {hole : Option Nat} {t : Tree K V} (hok : TreeOk hole t) (hord : OrdTree lt t)
    {b : Bound K} {leaf : Nat} {i : Int} (hp : CurPosW lt t b leaf i) : AheadSpec lt t b leaf i := by
  obtain ⟨pre, h1, h2, h3⟩ := hp.suffix h hok hord
  unfold AheadSpec
  conv => rhs; rw [h1]
  rw [List.filter_append]
  have e1 : pre.filter (fun p => b.admits lt p.1) = [] :=
    List.filter_eq_nil_iff.2 (fun p hp => by simp [h2 p hp])
  have e2 : (t.ahead leaf i).filter (fun p => b.admits lt p.1) = t.ahead leaf i :=
    List.filter_eq_self.2 (fun p hp => h3 p hp)
  rw [e1, e2, List.nil_append]

theorem CurPos.aheadSpec (h : SWO lt) {hole : Option Nat} {t : Tree K V} (hok : TreeOk hole t) (hord : OrdTree lt t)
    {b : Bound K} {leaf : Nat} {i : Int} (hp : CurPos lt t b leaf i) : AheadSpec lt t b leaf i :=
  hp.weaken.aheadSpec h hok hord

/-- for an index inside the leaf the weak form is the strong one -/
theorem CurPosW.strengthen (h : SWO lt) {hole : Option Nat} {t : Tree K V} (hok : TreeOk hole t) (hord : OrdTree lt t)
    {b : Bound K} {leaf : Nat} {i : Int} (hp : CurPosW lt t b leaf i)
    (hi : ∀ sh, t.look leaf = some sh → i < (sh.keys.length : Int)) : CurPos lt t b leaf i := by
  obtain ⟨sh, hl, h0, hidx, hb⟩ := hp
  refine ⟨sh, hl, h0, hidx, ?_⟩
  cases b with
  | ge s => exact hb
  | gt c =>
    have hc : c ∈ sh.keys := hb
    have hs := leaf_sorted h hok hord hl h0
    have hilt := hi sh hl
    obtain ⟨j0, hj0, e0⟩ := List.getElem_of_mem hc
    have hj0' : sh.keys[j0]? = some c := by rw [List.getElem?_eq_getElem hj0, e0]
    -- `c` itself is not admitted, so it sits at or before `i`
    have hle : (j0 : Int) ≤ i := by
      have := hidx j0 c hj0'
      have hirr : (Bound.gt c).admits lt c = false := h.irrefl c
      rw [hirr] at this
      have hn : ¬ (i < (j0 : Int)) := fun hlt => by have := this.2 hlt; cases this
      omega
    have hi0 : 0 ≤ i := by omega
    have hjl : i.toNat < sh.keys.length := by omega
    refine ⟨i.toNat, by omega, ?_⟩
    by_cases hj : j0 = i.toNat
    · rw [← hj]; exact hj0'
    · exfalso
      have hlt : j0 < i.toNat := by omega
      have h1 : lt (sh.keys[j0]'hj0) (sh.keys[i.toNat]'hjl) = true := hs.getElem_lt hlt hjl
      have h2 := hidx i.toNat (sh.keys[i.toNat]'hjl) (by rw [List.getElem?_eq_getElem hjl])
      have h3 : (Bound.gt c).admits lt (sh.keys[i.toNat]'hjl) = true := by
        show lt c _ = true
        rw [← e0]; exact h1
      have := h2.1 h3
      omega

/-! ### successor properties -/

/-- in a strictly ascending map a stored pair is what `lookup` finds -/
theorem lookup_of_mem_sorted (h : SWO lt) : ∀ (m : List (K × V)), KSorted lt m → ∀ k v, (k, v) ∈ m →
    Spec.lookup lt m k = some v := by
  intro m
  induction m with
  | nil => intro _ k v hm; cases hm
  | cons q m ih =>
    intro hs k v hm
    have hq := List.pairwise_cons.mp hs
    unfold Spec.lookup
    rw [List.find?_cons]
    rcases List.mem_cons.1 hm with e | hm'
    · subst e
      simp [h.eqv_refl k]
    · have hlt : lt q.1 k = true := hq.1 (k, v) hm'
      have : eqv lt k q.1 = false := by simp [eqv, hlt]
      simp only [this]
      exact ih hq.2 k v hm'

/-- **successor property**: the first pair ahead of the cursor is a pair of the map (key and
    CURRENT value), it is admitted, and every other admitted pair of the map has a larger key -/
theorem CurPosW.head_least (h : SWO lt) {hole : Option Nat} {t : Tree K V} (hok : TreeOk hole t) (hord : OrdTree lt t)
    {b : Bound K} {leaf : Nat} {i : Int} (hp : CurPosW lt t b leaf i)
    {k : K} {v : V} {rest : List (K × V)} (hhead : t.ahead leaf i = (k, v) :: rest) :
    b.admits lt k = true ∧ (k, v) ∈ t.abs ∧ Spec.lookup lt t.abs k = some v ∧
      ∀ p ∈ t.abs, b.admits lt p.1 = true → p = (k, v) ∨ lt k p.1 = true := by
  obtain ⟨pre, h1, h2, h3⟩ := hp.suffix h hok hord
  have hsorted := Tree.abs_sorted h (parTree_of_treeOk hok) hord
  have hmem : (k, v) ∈ t.abs := by rw [h1, hhead]; simp
  refine ⟨h3 (k, v) (by rw [hhead]; simp), hmem, lookup_of_mem_sorted h _ hsorted k v hmem, ?_⟩
  intro p hp hadm
  rw [h1, hhead] at hp hsorted
  rcases List.mem_append.1 hp with hp | hp
  · rw [h2 p hp] at hadm; cases hadm
  · rcases List.mem_cons.1 hp with e | hp
    · exact Or.inl e
    · right
      have := (List.pairwise_append.1 hsorted).2.1
      exact (List.pairwise_cons.1 this).1 p hp

/-- nothing lies ahead iff no pair of the map is admitted -/
theorem CurPosW.ahead_nil_iff (h : SWO lt) {hole : Option Nat} {t : Tree K V} (hok : TreeOk hole t)
    (hord : OrdTree lt t) {b : Bound K} {leaf : Nat} {i : Int} (hp : CurPosW lt t b leaf i) :
    t.ahead leaf i = [] ↔ ∀ p ∈ t.abs, b.admits lt p.1 = false := by
  have hs : AheadSpec lt t b leaf i := hp.aheadSpec h hok hord
  unfold AheadSpec at hs
  rw [hs, List.filter_eq_nil_iff]
  constructor
  · intro hh p hp
    cases ha : b.admits lt p.1 with
    | false => rfl
    | true => exact absurd ha (hh p hp)
  · intro hh p hp
    rw [hh p hp]; simp

/-- with the inclusive bound of `NewScanner`, what lies ahead is `Spec.from` -/
theorem CurPosW.ahead_from (h : SWO lt) {hole : Option Nat} {t : Tree K V} (hok : TreeOk hole t)
    (hord : OrdTree lt t) {s : K} {leaf : Nat} {i : Int} (hp : CurPosW lt t (.ge s) leaf i) :
    t.ahead leaf i = Spec.from lt t.abs s :=
  hp.aheadSpec h hok hord

/-- two bounds that both describe the same cursor position agree on every pair of the map -/
theorem CurPosW.admits_congr (h : SWO lt) {hole : Option Nat} {t : Tree K V} (hok : TreeOk hole t) (hord : OrdTree lt t)
    {b1 b2 : Bound K} {leaf : Nat} {i : Int} (h1 : CurPosW lt t b1 leaf i) (h2 : CurPosW lt t b2 leaf i) :
    ∀ p ∈ t.abs, b1.admits lt p.1 = b2.admits lt p.1 := by
  obtain ⟨pre1, e1, n1, a1⟩ := h1.suffix h hok hord
  obtain ⟨pre2, e2, n2, a2⟩ := h2.suffix h hok hord
  have : pre1 = pre2 := by
    have e : pre1 ++ t.ahead leaf i = pre2 ++ t.ahead leaf i := by rw [← e1, ← e2]
    exact List.append_cancel_right e
  subst this
  intro p hp
  rw [e1] at hp
  rcases List.mem_append.1 hp with hp | hp
  · rw [n1 p hp, n2 p hp]
  · rw [a1 p hp, a2 p hp]

end Gobptree.Conc
