/-
  `NewScanner` + `Scan`/`Pair` until false = `Spec.from` (given distinct leaf identities).
-/
import Gobptree.Proofs.Scan
import Gobptree.Proofs.ScanStart

namespace Gobptree

variable {K V : Type} {lt : K → K → Bool}

theorem flatMap_leaves_pairs {d : Nat} (cs : List (Node K V d)) :
    (cs.flatMap (Node.leaves (d := d))).flatMap leafPairs = cs.flatMap (Node.pairs (d := d)) := by
  rw [List.flatMap_assoc]
  congr 1
  funext c
  exact (pairs_eq_leaves c).symm

/-- the landing leaf of `NewScanner`: everything in the leaves before it is below the
    start key, everything in the leaves after it is above -/
theorem scanLeaf_ok (h : SWO lt) (P : Params K) (hP : P.lt = lt) (key : K) :
    ∀ (d : Nat) (n : Node K V d) (m : Nat) (lo hi : Option K), WF lt P.order d m lo hi n →
      ∃ (lsA lsB : List (Leaf K V)) (L : Leaf K V),
        scanLeaf P key d n = .ok L ∧ Node.leaves n = lsA ++ L :: lsB ∧
        AllLt lt (lsA.flatMap leafPairs) key ∧ AllGt lt (lsB.flatMap leafPairs) key := by
  intro d
  induction d with
  | zero =>
    intro n m lo hi _
    exact ⟨[], [], n, rfl, rfl, fun p hp => by simp at hp, fun p hp => by simp at hp⟩
  | succ d ih =>
    intro n m lo hi hw
    obtain ⟨rA, rB, k, cA, cB, c, hr, hc, hidx, hcl, hlB, hA, hcW, hkhi, hB, hF1, hF2, hpA, hpB, hpairs⟩ :=
      route_facts h key (n : Inner K (Node K V d)) hw
    obtain ⟨lsA, lsB, L, heq, hls, hlA, hlBB⟩ := ih c _ _ _ hcW
    subst hP
    have hchild : (n : Inner K (Node K V d)).kids[searchLE P.lt key (n : Inner K (Node K V d)).runts]? = some c := by
      rw [hidx, hc, ← hcl]; exact form_getElem_pivot cA cB c
    refine ⟨cA.flatMap (Node.leaves (d := d)) ++ lsA, lsB ++ cB.flatMap (Node.leaves (d := d)), L, ?_, ?_, ?_, ?_⟩
    · show (match (n : Inner K (Node K V d)).kids[searchLE P.lt key (n : Inner K (Node K V d)).runts]? with
        | none => throw Panic.indexOutOfRange
        | some child => scanLeaf P key d child) = _
      rw [hchild]; exact heq
    · show (n : Inner K (Node K V d)).kids.flatMap (Node.leaves (d := d)) = _
      rw [hc, List.flatMap_append, List.flatMap_cons, hls]
      simp
    · rw [List.flatMap_append, flatMap_leaves_pairs]
      intro p hp
      cases List.mem_append.mp hp with
      | inl e => exact hpA p e
      | inr e => exact hlA p e
    · rw [List.flatMap_append, flatMap_leaves_pairs]
      intro p hp
      cases List.mem_append.mp hp with
      | inl e => exact hlBB p e
      | inr e => exact hpB p e

theorem startIndex_le (P : Params K) (key : K) (l : Leaf K V) (h : SWO P.lt) (hs : Sorted P.lt l.keys) :
    startIndex P {} key l ≤ l.keys.length := by
  unfold startIndex
  simp only [Bool.false_eq_true, if_false]
  by_cases hnil : l.keys = []
  · simp [hnil, searchGE_nil]
  · have hg := searchGE_lt_length (lt := P.lt) key l.keys hnil
    rw [List.getElem?_eq_getElem hg]
    simp only
    split <;> omega

theorem scanFrom_go_eq (t : Tree K V) (P : Params K) (key : K) :
    ∀ (fuel : Nat) (c : Cursor) (acc : List (K × V)),
      Tree.scanFrom.go t none fuel c acc = scanLoop t fuel c acc := by
  intro fuel
  induction fuel with
  | zero => intro c acc; rfl
  | succ fuel ih =>
    intro c acc
    unfold Tree.scanFrom.go scanLoop
    simp only [reduceCtorEq, if_false]
    congr 1
    funext r
    obtain ⟨c', more⟩ := r
    simp only
    cases more
    · rfl
    · simp only [Bool.not_true, Bool.false_eq_true, if_false]
      congr 1
      funext kv
      exact ih c' (kv :: acc)

/-- **scan = Spec.from**, for every tree satisfying the invariant whose leaves have
    pairwise distinct identities -/
theorem scanFrom_ok (h : SWO lt) (P : Params K) (hP : P.lt = lt) (ho : 2 ≤ P.order)
    (t : Tree K V) (hto : t.order = P.order) (hinv : TreeInv lt t)
    (hnodup : ((Node.leaves t.root).map (·.id)).Nodup) (key : K) :
    ∃ fuel, t.scanFrom P {} key none fuel = .ok (Spec.from lt t.abs key, true) := by
  obtain ⟨hw, hL⟩ := hinv
  unfold TreeWF at hw
  rw [hto] at hw
  obtain ⟨lsA, lsB, L, hland, hls, hlA, hlB⟩ := scanLeaf_ok h P hP key t.depth t.root _ none none hw
  obtain ⟨hchain, _⟩ := Linked_chainList h hw hL
  have hleaves := WF_leaves h hw
  subst hP
  -- the landing leaf is number `lsA.length`
  have hj : lsA.length < (Node.leaves t.root).length := by rw [hls]; simp
  have hLj : (Node.leaves t.root)[lsA.length] = L := by
    simp [hls]
  have hLmem : L ∈ Node.leaves t.root := by rw [hls]; simp
  obtain ⟨hLs, hLlen, _⟩ := hleaves L hLmem
  have hsi := startIndex_le P key L h hLs
  -- what the loop yields
  have hne : ∀ (j : Nat) (hj : j < (Node.leaves t.root).length), 0 < j → 0 < (Node.leaves t.root)[j].keys.length := by
    intro j hj hpos
    by_cases hd : t.depth = 0
    · -- a single leaf
      exfalso
      have : (Node.leaves t.root).length = 1 := by
        obtain ⟨order, depth, root, nextId⟩ := t
        simp only at hd; subst hd; rfl
      omega
    · have := (hleaves _ (List.getElem_mem hj)).2.2 hd
      omega
  have hloop := scanLoop_ok t (Node.leaves t.root) rfl hchain hnodup
    (fun l hl => (hleaves l hl).2.1) hne
  let rem := (leafPairs L).drop (startIndex P {} key L) ++ lsB.flatMap leafPairs
  refine ⟨rem.length + 1, ?_⟩
  have hrun := hloop (rem.length + 1) lsA.length hj ((startIndex P {} key L : Int) - 1) [] (by omega)
    (by rw [hLj]; omega)
    (by
      rw [hLj]
      have : ((startIndex P {} key L : Int) - 1 + 1).toNat = startIndex P {} key L := by omega
      rw [this]
      have : (Node.leaves t.root).drop (lsA.length + 1) = lsB := by
        rw [hls]; simp
      rw [this]
      exact Nat.lt_succ_self _)
  -- unfold scanFrom
  have hns : t.newScanner P {} key = .ok { leaf := some L.id, i := (startIndex P {} key L : Int) - 1 } := by
    simp only [Tree.newScanner, hland, bind, Except.bind, pure, Except.pure]
  simp only [Tree.scanFrom, hns, bind, Except.bind]
  rw [scanFrom_go_eq t P key]
  rw [hLj] at hrun
  rw [hrun]
  -- the yielded pairs are `Spec.from`
  have h1 : ((startIndex P {} key L : Int) - 1 + 1).toNat = startIndex P {} key L := by omega
  have h2 : (Node.leaves t.root).drop (lsA.length + 1) = lsB := by rw [hls]; simp
  rw [h1, h2, List.reverse_nil, List.nil_append]
  rw [Tree.abs_eq_pairs, pairs_eq_leaves, hls, List.flatMap_append, List.flatMap_cons,
    Spec.from_append, Spec.from_append, Spec.from_of_allLt _ key hlA, List.nil_append,
    Spec.from_of_allGe _ key (fun p hp => h.asymm (hlB p hp))]
  have := start_exact (P := P) h rfl L key hLs hLlen
  unfold leafPairs
  rw [this]

end Gobptree
