/-
  The counter lemma on the SPECIFICATION: running any list of map operations in which
  every operation on a key equivalent to `k` is `update _ incr` (or a `search`) leaves, for
  `k`, the value `base + (number of those updates)`; the operations on other keys
  (inserts, deletes, updates with any function) and their order are irrelevant.
-/
import Gobptree.Run
import Gobptree.Proofs.Order

namespace Gobptree.Conc
open Gobptree

variable {K V : Type} {lt : K → K → Bool}

/-- the increment callback: absent counts as 0 -/
def incr : Option Nat → Nat := fun o => o.getD 0 + 1

/-! ### the equivalence `eqv lt` under a strict weak order -/

theorem eqv_comm (a b : K) : eqv lt a b = eqv lt b a := by
  simp only [eqv]; exact Bool.and_comm _ _

theorem eqv_congr_right (h : SWO lt) {a b b' : K} (e : eqv lt b b' = true) : eqv lt a b = eqv lt a b' := by
  simp only [eqv]
  rw [h.lt_congr_right e, h.lt_congr_left e]

theorem eqv_congr_left (h : SWO lt) {a a' b : K} (e : eqv lt a a' = true) : eqv lt a b = eqv lt a' b := by
  rw [eqv_comm a b, eqv_comm a' b]; exact eqv_congr_right h e

/-! ### `lookup` after one operation -/

/-- `lookup` sees a key only up to equivalence -/
theorem lookup_congr (h : SWO lt) (m : List (K × V)) {k k' : K} (e : eqv lt k k' = true) :
    Spec.lookup lt m k = Spec.lookup lt m k' := by
  unfold Spec.lookup
  have : (fun p : K × V => eqv lt k p.1) = (fun p : K × V => eqv lt k' p.1) := by
    funext p; exact eqv_congr_left h e
  rw [this]

theorem lookup_cons (m : List (K × V)) (a : K) (w : V) (k : K) :
    Spec.lookup lt ((a, w) :: m) k = if eqv lt k a then some w else Spec.lookup lt m k := by
  unfold Spec.lookup
  rw [List.find?_cons]
  cases eqv lt k a <;> rfl

theorem lookup_insert (h : SWO lt) (m : List (K × V)) (k' : K) (v : V) (k : K) :
    Spec.lookup lt (Spec.insert lt m k' v) k = if eqv lt k k' then some v else Spec.lookup lt m k := by
  induction m with
  | nil => simp only [Spec.insert]; rw [lookup_cons]
  | cons p rest ih =>
    obtain ⟨a, w⟩ := p
    simp only [Spec.insert]
    by_cases h1 : lt k' a = true
    · rw [if_pos h1, lookup_cons]
    · rw [if_neg h1]
      have h1' : lt k' a = false := by simpa using h1
      by_cases h2 : lt a k' = true
      · rw [if_pos h2, lookup_cons, ih, lookup_cons]
        cases hka : eqv lt k a with
        | false => rfl
        | true =>
          have hlt : lt k k' = true := by rw [h.lt_congr_left hka]; exact h2
          have : eqv lt k k' = false := by simp [eqv, hlt]
          rw [this]; rfl
      · rw [if_neg h2]
        have h2' : lt a k' = false := by simpa using h2
        have e : eqv lt a k' = true := by simp [eqv, h1', h2']
        rw [lookup_cons, lookup_cons, eqv_congr_right h e]
        cases eqv lt k k' <;> rfl

theorem lookup_erase_of_ne (h : SWO lt) (m : List (K × V)) (k' k : K) (hne : eqv lt k k' = false) :
    Spec.lookup lt (Spec.erase lt m k') k = Spec.lookup lt m k := by
  induction m with
  | nil => rfl
  | cons p rest ih =>
    obtain ⟨a, w⟩ := p
    have ih' : Spec.lookup lt (List.filter (fun p => !eqv lt k' p.1) rest) k = Spec.lookup lt rest k := ih
    unfold Spec.erase
    rw [List.filter_cons]
    cases hk'a : eqv lt k' a with
    | true =>
      simp only [Bool.not_true, Bool.false_eq_true, if_false]
      rw [ih', lookup_cons]
      have e : eqv lt a k' = true := by rw [eqv_comm]; exact hk'a
      rw [eqv_congr_right h e, hne]; rfl
    | false =>
      simp only [Bool.not_false, if_true]
      rw [lookup_cons, lookup_cons, ih']

/-! ### operations that respect the counter at `k` -/

/-- the operation is an `update` on a key equivalent to `k` -/
def isIncOp (lt : K → K → Bool) (k : K) : Op K Nat → Bool
  | .update k' _ => eqv lt k' k
  | _ => false

/-- the operation respects the counter at `k`: it is on another key, or a search, or
    `update _ incr` -/
def OpOk (lt : K → K → Bool) (k : K) : Op K Nat → Prop
  | .insert k' _ => eqv lt k' k = false
  | .delete k' => eqv lt k' k = false
  | .update k' f => eqv lt k' k = true → f = incr
  | .search _ => True

/-- `n` increments applied to a counter that may be absent -/
def bump (n : Nat) (o : Option Nat) : Option Nat := if n = 0 then o else some (o.getD 0 + n)

@[simp] theorem bump_zero (o : Option Nat) : bump 0 o = o := rfl

theorem bump_pos {n : Nat} (hn : 0 < n) (o : Option Nat) : bump n o = some (o.getD 0 + n) := by
  unfold bump; rw [if_neg (by omega)]

theorem bump_succ (n : Nat) (o : Option Nat) : bump n (some (o.getD 0 + 1)) = bump (n + 1) o := by
  unfold bump
  by_cases hn : n = 0
  · subst hn; simp
  · rw [if_neg hn, if_neg (by omega)]
    simp only [Option.getD_some, Option.some.injEq]; omega

theorem step_lookup (h : SWO lt) (m : List (K × Nat)) (k : K) (op : Op K Nat) (hok : OpOk lt k op) :
    Spec.lookup lt (Spec.step lt m op).1 k =
      if isIncOp lt k op then some ((Spec.lookup lt m k).getD 0 + 1) else Spec.lookup lt m k := by
  cases op with
  | insert k' v =>
    have hne : eqv lt k k' = false := by rw [eqv_comm]; exact hok
    simp only [Spec.step, isIncOp, lookup_insert h, hne]; rfl
  | delete k' =>
    have hne : eqv lt k k' = false := by rw [eqv_comm]; exact hok
    simp only [Spec.step, isIncOp, lookup_erase_of_ne h m k' k hne]; rfl
  | search k' => rfl
  | update k' f =>
    simp only [Spec.step, isIncOp, Spec.update, lookup_insert h]
    rw [eqv_comm k k']
    by_cases he : eqv lt k' k = true
    · have hf : f = incr := hok he
      subst hf
      simp only [he, ↓reduceIte]
      rw [lookup_congr h m he]
      rfl
    · have he' : eqv lt k' k = false := by simpa using he
      simp only [he', Bool.false_eq_true, ↓reduceIte]

/-- **the counter lemma on the specification**: after any run whose operations respect the
    counter at `k`, the value at `k` is the initial one bumped by the number of
    `update (≈k) incr` in the run -/
theorem run_lookup_counter (h : SWO lt) (k : K) :
    ∀ (ops : List (Op K Nat)) (m : List (K × Nat)), (∀ op ∈ ops, OpOk lt k op) →
      Spec.lookup lt (Spec.run lt m ops).1 k = bump (ops.countP (isIncOp lt k)) (Spec.lookup lt m k) := by
  intro ops
  induction ops with
  | nil => intro m _; rfl
  | cons op ops ih =>
    intro m hok
    have h1 : (Spec.run lt m (op :: ops)).1 = (Spec.run lt (Spec.step lt m op).1 ops).1 := rfl
    rw [h1, ih _ (fun o ho => hok o (List.mem_cons_of_mem _ ho)), step_lookup h m k op (hok op List.mem_cons_self),
      List.countP_cons]
    cases isIncOp lt k op with
    | false => rfl
    | true => exact bump_succ _ _

end Gobptree.Conc
