/-
  `Search` returns exactly `Spec.lookup` of the abstract contents.
-/
import Gobptree.Proofs.Upsert

namespace Gobptree

variable {K V : Type} {lt : K → K → Bool}

/-- routing facts shared by Search, Delete and NewScanner: the decomposition of a
    well-formed inner node at `searchLE key runts` -/
theorem route_facts (h : SWO lt) {o d m : Nat} {lo hi : Option K} (key : K)
    (p : Inner K (Node K V d)) (hw : WF lt o (d + 1) m lo hi p) :
    ∃ (rA rB : List K) (k : K) (cA cB : List (Node K V d)) (c : Node K V d),
      p.runts = rA ++ k :: rB ∧ p.kids = cA ++ c :: cB ∧
      searchLE lt key p.runts = rA.length ∧ cA.length = rA.length ∧ rB.length = cB.length ∧
      Kids lt (fun a b c => WF lt o d (o / 2) a b c) (some k) (rA.zip cA) ∧
      WF lt o d (o / 2) (some k) (nextLo hi (rB.zip cB)) c ∧
      ltO lt k (nextLo hi (rB.zip cB)) ∧
      Kids lt (fun a b c => WF lt o d (o / 2) a b c) hi (rB.zip cB) ∧
      (rA ≠ [] → lt key k = false) ∧ (∀ x ∈ rB, lt key x = true) ∧
      AllLt lt (cA.flatMap (Node.pairs (d := d))) key ∧
      AllGt lt (cB.flatMap (Node.pairs (d := d))) key ∧
      Node.pairs (d := d + 1) p = cA.flatMap (Node.pairs (d := d)) ++ (Node.pairs c ++ cB.flatMap (Node.pairs (d := d))) := by
  obtain ⟨pid, runts, kids⟩ := p
  obtain ⟨hlen, hle, hm, hne, hlo, hkids⟩ := hw
  simp only at hlen hle hm hne hlo hkids
  have hnil : runts ≠ [] := by intro e; rw [e] at hne; simp at hne
  have hsorted : Sorted lt runts := by
    have := Kids_sorted h hi _ hkids
    rwa [map_fst_zip_eq _ _ hlen] at this
  have hidxlt : searchLE lt key runts < runts.length := searchLE_lt_length key runts hnil
  obtain ⟨rA, k, rB, hr, hrA⟩ := split_at runts _ hidxlt
  obtain ⟨cA, c, cB, hc, hcA⟩ := split_at kids (searchLE lt key runts) (by omega)
  subst hr; subst hc
  have hidx : searchLE lt key (rA ++ k :: rB) = rA.length := hrA.symm
  have hcl : cA.length = rA.length := by omega
  have hlB : rB.length = cB.length := by simp at hlen; omega
  obtain ⟨hF1, hF2⟩ := searchLE_split_facts h key rA rB k hsorted hidx
  rw [zip_surgery _ _ _ _ hcl.symm, List.zip_cons_cons, Kids_append, Kids_cons] at hkids
  obtain ⟨hA, hcW, hkhi, hB⟩ := hkids
  have hnl : nextLo hi ((k, c) :: rB.zip cB) = some k := rfl
  rw [hnl] at hA
  have hpA : AllLt lt (cA.flatMap (Node.pairs (d := d))) key := by
    by_cases hAnil : rA = []
    · subst hAnil
      have : cA = [] := List.eq_nil_of_length_eq_zero (by simpa using hcl)
      subst this; intro p hp; simp at hp
    · rw [← pairsE_zip rA cA hcl.symm]
      exact allLt_pairsE h k key _ hA (hF1 hAnil)
  have hpB : AllGt lt (cB.flatMap (Node.pairs (d := d))) key := by
    rw [← pairsE_zip rB cB hlB]
    apply allGt_pairsE h hi key _ hB
    intro e he
    exact hF2 e.1 (List.of_mem_zip he).1
  refine ⟨rA, rB, k, cA, cB, c, rfl, rfl, hidx, hcl, hlB, hA, hcW, hkhi, hB, hF1, hF2, hpA, hpB, ?_⟩
  rw [pairs_mk]; simp

theorem searchNode_ok (h : SWO lt) (P : Params K) (hP : P.lt = lt) (key : K) :
    ∀ (d : Nat) (n : Node K V d) (m : Nat) (lo hi : Option K), WF lt P.order d m lo hi n →
      searchNode P key d n = .ok (Spec.lookup lt (Node.pairs n) key) := by
  intro d
  induction d with
  | zero =>
    intro n m lo hi hw
    obtain ⟨a, b, _, _, _⟩ := hw
    exact Leaf.search_ok h P hP (n : Leaf K V) key a b
  | succ d ih =>
    intro n m lo hi hw
    obtain ⟨rA, rB, k, cA, cB, c, hr, hc, hidx, hcl, hlB, hA, hcW, hkhi, hB, hF1, hF2, hpA, hpB, hpairs⟩ :=
      route_facts h key (n : Inner K (Node K V d)) hw
    subst hP
    have hchild : (n : Inner K (Node K V d)).kids[searchLE P.lt key (n : Inner K (Node K V d)).runts]? = some c := by
      rw [hidx, hc, ← hcl]; exact form_getElem_pivot cA cB c
    show (match (n : Inner K (Node K V d)).kids[searchLE P.lt key (n : Inner K (Node K V d)).runts]? with
      | none => throw Panic.indexOutOfRange
      | some child => searchNode P key d child) = _
    rw [hchild]
    simp only
    rw [ih c _ _ _ hcW, hpairs, Spec.lookup_append_left h _ _ _ hpA, Spec.lookup_append_right h _ _ _ hpB]

theorem Tree.search_ok (h : SWO lt) (P : Params K) (hP : P.lt = lt) (t : Tree K V) (hto : t.order = P.order)
    (hw : TreeWF lt t) (key : K) :
    t.search P key = .ok (Spec.lookup lt (Node.pairs t.root) key) := by
  unfold Tree.search
  unfold TreeWF at hw
  rw [hto] at hw
  exact searchNode_ok h P hP key t.depth t.root _ none none hw

end Gobptree
