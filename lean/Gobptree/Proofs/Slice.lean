/-
  The Go slice idioms of Slice.lean equal the obvious list surgery.
-/
import Gobptree.Slice

namespace Gobptree

variable {α : Type}

theorem insertIdiom_eq (pad : α) (l : List α) (i : Nat) (v : α) (h : i ≤ l.length) :
    insertIdiom pad l i v = l.take i ++ v :: l.drop i := by
  unfold insertIdiom goCopy
  have hn : min ((l ++ [pad]).length - (i + 1)) ((l ++ [pad]).length - i) = l.length - i := by
    simp; omega
  simp only [hn]
  have e1 : i + 1 + (l.length - i) = l.length + 1 := by omega
  have e2 : List.drop (l.length + 1) (l ++ [pad]) = [] := by simp
  have e3 : List.drop i (l ++ [pad]) = l.drop i ++ [pad] := List.drop_append_of_le_length h
  have e4 : List.take (l.length - i) (l.drop i ++ [pad]) = l.drop i := by
    rw [List.take_append_of_le_length (by simp)]; exact List.take_of_length_le (by simp)
  rw [e1, e2, e3, e4, List.append_nil, List.take_add_one]
  have e5 : (l ++ [pad])[i]? = some ((l ++ [pad])[i]'(by simp; omega)) := List.getElem?_eq_getElem _
  rw [e5, List.take_append_of_le_length h]
  simp only [Option.toList_some]
  rw [List.set_append_left _ _ (by simp; omega), List.set_append_right _ _ (by simp; omega)]
  simp [Nat.min_eq_left h]

theorem deleteIdiom_eq (l : List α) (i : Nat) (h : i < l.length) :
    deleteIdiom l i = l.take i ++ l.drop (i + 1) := by
  unfold deleteIdiom goCopy
  have hn : min (l.length - i) (l.length - (i + 1)) = l.length - (i + 1) := by omega
  simp only [hn]
  have e1 : i + (l.length - (i + 1)) = l.length - 1 := by omega
  rw [e1]
  have e2 : List.take (l.length - (i + 1)) (List.drop (i + 1) l) = List.drop (i + 1) l := by
    apply List.take_of_length_le; simp
  rw [e2, List.take_append_of_le_length (by simp; omega)]
  apply List.take_of_length_le; simp; omega

theorem pushFrontIdiom_eq (pad : α) (l : List α) (v : α) : pushFrontIdiom pad l v = v :: l := by
  rw [pushFrontIdiom, insertIdiom_eq _ _ _ _ (Nat.zero_le _)]; simp

theorem popFrontIdiom_eq (l : List α) : popFrontIdiom l = l.drop 1 := by
  unfold popFrontIdiom
  cases l with
  | nil => simp [deleteIdiom, goCopy]
  | cons a t => rw [deleteIdiom_eq _ _ (by simp)]; simp

end Gobptree
