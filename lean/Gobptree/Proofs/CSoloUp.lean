/-
  Single-thread agreement, part 3: Insert / Update.
-/
import Gobptree.Proofs.CSoloRun

namespace Gobptree.Conc
open Gobptree

variable {K V : Type}

/-! ### inversion of the sequential descent -/

theorem upsertNode_zero_inv (P : Params K) (key : K) (f : Option V → V) (l : Leaf K V) (nid : Nat)
    (l' : Leaf K V) (nid' : Nat) (cb : Option V)
    (h : upsertNode P key f 0 l nid = .ok (l', nid', cb)) :
    Leaf.upsert P l key f = .ok (l', cb) ∧ nid' = nid := by
  simp only [upsertNode, bind, Except.bind, pure, Except.pure] at h
  split at h
  · cases h
  · rename_i v hv
    injection h with h; injection h with h1 h2; injection h2 with h2 h3
    subst h1; subst h2; subst h3
    exact ⟨hv, rfl⟩

/-- the three ways one iteration of the descent loop continues -/
inductive UpCase (P : Params K) (key : K) (f : Option V → V) {d : Nat} (p : Inner K (Node K V d)) (idx : Nat) (nid : Nat)
    (p' : Inner K (Node K V d)) (nid' : Nat) (cb : Option V) (child : Node K V d) (runts : List K) : Prop where
  | nosplit (c' : Node K V d) :
      Node.maybeSplit P.order nid child = .ok (child, none) →
      upsertNode P key f d child nid = .ok (c', nid', cb) →
      p' = { p with runts := runts, kids := p.kids.set idx c' } →
      UpCase P key f p idx nid p' nid' cb child runts
  | right (left right : Node K V d) (pad rs : K) (c' : Node K V d) :
      Node.maybeSplit P.order nid child = .ok (left, some right) →
      P.pad (some key) = some pad → Node.smallest right = .ok rs → P.lt key rs = false →
      upsertNode P key f d right (nid + 1) = .ok (c', nid', cb) →
      p' = { p with runts := insertIdiom pad runts (idx + 1) rs,
                    kids := (((insertIdiom right p.kids (idx + 1) right).set
                      idx left).set (idx + 1) c') } →
      UpCase P key f p idx nid p' nid' cb child runts
  | left (left right : Node K V d) (pad rs : K) (c' : Node K V d) :
      Node.maybeSplit P.order nid child = .ok (left, some right) →
      P.pad (some key) = some pad → Node.smallest right = .ok rs → P.lt key rs = true →
      upsertNode P key f d left (nid + 1) = .ok (c', nid', cb) →
      p' = { p with runts := insertIdiom pad runts (idx + 1) rs,
                    kids := (((insertIdiom right p.kids (idx + 1) right).set
                      idx left).set idx c') } →
      UpCase P key f p idx nid p' nid' cb child runts

theorem upsertNode_succ_inv (P : Params K) (key : K) (f : Option V → V) {d : Nat}
    (p : Inner K (Node K V d)) (nid : Nat) (p' : Inner K (Node K V d)) (nid' : Nat) (cb : Option V)
    (h : upsertNode P key f (d + 1) p nid = .ok (p', nid', cb)) :
    ∃ child runts, p.kids[searchLE P.lt key p.runts]? = some child ∧
      lowerFirst P key (searchLE P.lt key p.runts) p.runts child = .ok runts ∧
      UpCase P key f p (searchLE P.lt key p.runts) nid p' nid' cb child runts := by
  simp only [upsertNode, bind, Except.bind, pure, Except.pure] at h
  split at h
  · rename_i child hchild
    refine ⟨child, ?_⟩
    split at h
    · cases h
    · rename_i runts hlf
      refine ⟨runts, hchild, hlf, ?_⟩
      split at h
      · cases h
      · rename_i v1 hms
        obtain ⟨left, right?⟩ := v1
        split at h
        · rename_i hr
          simp only at hr; subst hr
          have := maybeSplit_none _ _ _ _ hms; subst this
          split at h
          · cases h
          · rename_i v2 hrec
            obtain ⟨c', nid2, cb2⟩ := v2
            injection h with h; injection h with h1 h2; injection h2 with h2 h3
            subst h1; subst h2; subst h3
            exact UpCase.nosplit c' hms hrec rfl
        · rename_i right hr
          simp only at hr; subst hr
          split at h
          · rename_i pad hpad
            split at h
            · cases h
            · rename_i rs hrs
              split at h
              · rename_i hlt
                split at h
                · cases h
                · rename_i v3 hrec
                  obtain ⟨c', nid2, cb2⟩ := v3
                  injection h with h; injection h with h1 h2; injection h2 with h2 h3
                  subst h1; subst h2; subst h3
                  exact UpCase.right left right pad rs c' hms hpad hrs (by simpa using hlt) hrec rfl
              · rename_i hlt
                split at h
                · cases h
                · rename_i v3 hrec
                  obtain ⟨c', nid2, cb2⟩ := v3
                  injection h with h; injection h with h1 h2; injection h2 with h2 h3
                  subst h1; subst h2; subst h3
                  exact UpCase.left left right pad rs c' hms hpad hrs (by simpa using hlt) hrec rfl
          · cases h
  · cases h

/-! ### identities of a split -/

theorem count_flatMap_sublist {d : Nat} {l₁ l₂ : List (Node K V d)} (h : l₁.Sublist l₂) (a : Nat) :
    (l₁.flatMap nids).count a ≤ (l₂.flatMap nids).count a :=
  (sublist_flatMap nids h).count_le a

theorem maybeSplit_some_facts_leaf (o fresh : Nat) (n l r : Leaf K V)
    (h : Node.maybeSplit (d := 0) o fresh n = .ok (l, some r)) :
    Node.id (d := 0) l = Node.id (d := 0) n ∧ Node.id (d := 0) r = fresh ∧
      ∀ a, (nids (d := 0) l).count a + (nids (d := 0) r).count a ≤ (nids (d := 0) n).count a + (if fresh = a then 1 else 0) := by
  simp only [Node.maybeSplit, pure, Except.pure, throw, throwThe, MonadExceptOf.throw] at h
  split at h
  · cases h
  · split at h
    · cases h
    · injection h with h; injection h with h1 h2; injection h2 with h2
      subst h1; subst h2
      refine ⟨rfl, rfl, ?_⟩
      intro a
      simp only [nids_leaf, List.count_cons, List.count_nil, beq_iff_eq]
      omega

theorem maybeSplit_some_facts_inner (o fresh : Nat) {d : Nat} (n l r : Inner K (Node K V d))
    (h : Node.maybeSplit (d := d + 1) o fresh n = .ok (l, some r)) :
    Node.id (d := d + 1) l = Node.id (d := d + 1) n ∧ Node.id (d := d + 1) r = fresh ∧
      ∀ a, (nids (d := d + 1) l).count a + (nids (d := d + 1) r).count a ≤
        (nids (d := d + 1) n).count a + (if fresh = a then 1 else 0) := by
  simp only [Node.maybeSplit, pure, Except.pure, throw, throwThe, MonadExceptOf.throw] at h
  split at h
  · cases h
  · split at h
    · cases h
    · injection h with h; injection h with h1 h2; injection h2 with h2
      subst h1; subst h2
      refine ⟨rfl, rfl, ?_⟩
      intro a
      have hsub : (n.kids.take (o >>> 1) ++ (n.kids.drop (o >>> 1)).take (o >>> 1)).Sublist n.kids := by
        have : (n.kids.take (o >>> 1) ++ (n.kids.drop (o >>> 1)).take (o >>> 1)).Sublist
            (n.kids.take (o >>> 1) ++ n.kids.drop (o >>> 1)) :=
          List.Sublist.append (List.Sublist.refl _) (List.take_sublist _ _)
        rwa [List.take_append_drop] at this
      have hc := count_flatMap_sublist hsub a
      rw [List.flatMap_append, List.count_append] at hc
      rw [nids_mk, nids_mk, nids_inner]
      simp only [List.count_cons, beq_iff_eq]
      omega

theorem maybeSplit_some_facts (o fresh : Nat) : ∀ {d : Nat} (n l r : Node K V d),
    Node.maybeSplit o fresh n = .ok (l, some r) →
    Node.id l = Node.id n ∧ Node.id r = fresh ∧
      ∀ a, (nids l).count a + (nids r).count a ≤ (nids n).count a + (if fresh = a then 1 else 0)
  | 0, n, l, r, h => maybeSplit_some_facts_leaf o fresh n l r h
  | _ + 1, n, l, r, h => maybeSplit_some_facts_inner o fresh n l r h

/-- counting the identities of a node whose child list is `A ++ x :: B` -/
theorem count_nids_split {d : Nat} (id : Nat) (rs : List K) (A B : List (Node K V d)) (x : Node K V d) (a : Nat) :
    (nids (d := d + 1) (Inner.mk id rs (A ++ x :: B) : Inner K (Node K V d))).count a =
      (if id = a then 1 else 0) + (A.flatMap nids).count a + (nids x).count a + (B.flatMap nids).count a := by
  rw [nids_mk]
  simp only [List.count_cons, List.flatMap_append, List.flatMap_cons, List.count_append, beq_iff_eq]
  omega

theorem count_ids_kid {D d : Nat} (c : Ctx K V D (d + 1)) (id : Nat) (r : List K) (pre post : List (Node K V d)) (a : Nat) :
    (Ctx.kid c id r pre post).ids.count a =
      c.ids.count a + (if id = a then 1 else 0) + (pre.flatMap nids).count a + (post.flatMap nids).count a := by
  rw [Ctx.ids_kid]
  simp only [List.count_cons, List.count_append, beq_iff_eq]
  omega

/-! ### the blocks, given what `find` returns -/

theorem upContinue_inner (P : Params K) (t : Nat) (s : St K V) (key : K) (f : Option V → V) (y : Option Bool) (n : Nat)
    {d : Nat} (p : Inner K (Node K V d)) (child : Node K V d)
    (hfind : s.tree.find n = some ⟨d + 1, p⟩) (hk : p.kids[searchLE P.lt key p.runts]? = some child) :
    upContinue P t s key f y n =
      (s, .park (.want (.node (Node.id child)) (.upChild key f y n (searchLE P.lt key p.runts) (Node.id child)))) := by
  unfold upContinue
  rw [hfind]
  simp only [leafOf?, innerRunts?, innerKidId?, hk, Option.map_some]

theorem upContinue_leaf (P : Params K) (t : Nat) (s : St K V) (key : K) (f : Option V → V) (y : Option Bool) (n : Nat)
    (l : Leaf K V) (hfind : s.tree.find n = some ⟨0, l⟩) :
    upContinue P t s key f y n = upLeaf P t s key f y n l := by
  unfold upContinue
  rw [hfind]
  simp only [leafOf?]

/-- `{ s with tree := tr }` -/
@[reducible] def St.setTree (s : St K V) (tr : Tree K V) : St K V := { s with tree := tr }

/-- one identity was allocated -/
@[reducible] def bump (tr : Tree K V) : Tree K V := { tr with nextId := tr.nextId + 1 }

theorem solo_upChildArrive_nosplit (P : Params K) (t : Nat) (s : St K V) (key : K) (f : Option V → V) (y : Option Bool)
    (parent index child : Nat) {d : Nat} (p : Inner K (Node K V d)) (c : Node K V d) (runts : List K)
    (hfind : s.tree.find parent = some ⟨d + 1, p⟩) (hk : p.kids[index]? = some c)
    (hlf : lowerFirst P key index p.runts c = .ok runts)
    (hms : Node.maybeSplit P.order s.tree.nextId c = .ok (c, none)) :
    upChildArrive P t s key f y parent index child =
      upContinue P t ((s.setTree (putInner s.tree (⟨p.id, runts, p.kids.set index c⟩ : Inner K (Node K V d)))).rel t
        (.node parent)) key f y child := by
  unfold upChildArrive
  rw [hfind]
  simp only [hk, hlf, hms]

theorem upChildArrive_right (P : Params K) (t : Nat) (s : St K V) (key : K) (f : Option V → V) (y : Option Bool)
    (parent index child : Nat) {d : Nat} (p : Inner K (Node K V d)) (c left right : Node K V d) (runts : List K)
    (pad rs : K)
    (hfind : s.tree.find parent = some ⟨d + 1, p⟩) (hk : p.kids[index]? = some c)
    (hlf : lowerFirst P key index p.runts c = .ok runts)
    (hms : Node.maybeSplit P.order s.tree.nextId c = .ok (left, some right))
    (hpad : P.pad (some key) = some pad) (hrs : Node.smallest right = .ok rs) (hlt : P.lt key rs = false) :
    upChildArrive P t s key f y parent index child =
      (s.setTree (bump (putInner s.tree (⟨p.id, insertIdiom pad runts (index + 1) rs,
            (insertIdiom right p.kids (index + 1) right).set index left⟩ : Inner K (Node K V d)))),
        .park (.want (.node (Node.id right)) (.upSib key f y parent child (Node.id right)))) := by
  unfold upChildArrive
  rw [hfind]
  simp only [hk, hlf, hms, hpad, hrs, hlt, Bool.not_false, if_true]

theorem upChildArrive_left (P : Params K) (t : Nat) (s : St K V) (key : K) (f : Option V → V) (y : Option Bool)
    (parent index child : Nat) {d : Nat} (p : Inner K (Node K V d)) (c left right : Node K V d) (runts : List K)
    (pad rs : K)
    (hfind : s.tree.find parent = some ⟨d + 1, p⟩) (hk : p.kids[index]? = some c)
    (hlf : lowerFirst P key index p.runts c = .ok runts)
    (hms : Node.maybeSplit P.order s.tree.nextId c = .ok (left, some right))
    (hpad : P.pad (some key) = some pad) (hrs : Node.smallest right = .ok rs) (hlt : P.lt key rs = true) :
    upChildArrive P t s key f y parent index child =
      upContinue P t ((s.setTree (bump (putInner s.tree (⟨p.id, insertIdiom pad runts (index + 1) rs,
            (insertIdiom right p.kids (index + 1) right).set index left⟩ : Inner K (Node K V d))))).rel t
          (.node parent)) key f y child := by
  unfold upChildArrive
  rw [hfind]
  simp only [hk, hlf, hms, hpad, hrs, hlt, Bool.not_true, Bool.false_eq_true, if_false]

end Gobptree.Conc
