/-
  Delete's continuations keep the separator invariant (with the same witness set: a Delete
  lowers nothing and provides no witness) and keep EVERY thread on its route, readers
  included: `resume_isep_D`.
-/
import Gobptree.Proofs.CIDelUnwind

namespace Gobptree.Conc
open Gobptree

variable {K V : Type} {lt : K → K → Bool}

theorem id_finish {Wit : Nat → K → Prop} {H : List Lk} {t t' : Tree K V}
    (hidsF : t'.ids.Nodup) (hsep : SepTreeN lt Wit t') (hr : RStab lt (fun x => Lk.node x ∈ H) t t')
    (hb : StableBounds lt H t t') :
    ISepW lt Wit t' ∧ StableRoutes lt H t t' :=
  ⟨isep_of_sepTreeN hidsF hsep, fun key id hlt hH => ⟨hr key id hH, hb key id hlt hH⟩⟩

/-- **Delete's continuations, separator level.** -/
theorem resume_isep_D : ResumeID K V := by
  intro lt P t s k H Wit hd h4 hkp hpre hk hkpre hcov hO hpos hWit hisep
  have hkd := resume_kpost_D lt P t s k H hd h4 hkp hpre hk hkpre hcov hO hpos
  have hpost := resume_post_D P t s k H hd h4 hpre hk hkpre hcov
  have h := hkp.swo
  have hidsF := hpost.tree.ids.1
  have hids : s.tree.ids.Nodup := hpre.tree.ids.1
  have hpar : ParTree s.tree := parTree_of_treeOk hpre.tree
  have hsep : SepTreeN lt Wit s.tree := sepTreeN_of_isep hids hisep
  have hb := hkd.2
  obtain ⟨hheld, hlock, _⟩ := hcov
  cases k with
  | roTree _ _ => simp [isDelK] at hd
  | roNode _ _ _ _ => simp [isDelK] at hd
  | upTree _ _ _ => simp [isDelK] at hd
  | upRoot _ _ _ _ => simp [isDelK] at hd
  | upRootSib _ _ _ _ _ => simp [isDelK] at hd
  | upChild _ _ _ _ _ _ => simp [isDelK] at hd
  | upSib _ _ _ _ _ _ => simp [isDelK] at hd
  | upCallback _ _ _ _ => simp [isDelK] at hd
  | hop _ _ => simp [isDelK] at hd
  | paused => simp [isDelK] at hd
  | delTree key =>
    exact id_finish hidsF hsep (RStab.refl _ _) hb
  | delRoot key r =>
    have hr : Lk.node r ∈ H := hlock _ rfl
    have hk' : r = s.tree.rootId := hk
    have hon : OnRoute lt s.tree key r := by rw [hk']; exact onRoute_root hids hpar key
    have go := delGo_i h P hkp.lt hpre.pad t key r H hr Wit hWit (s.acq t (.node r)) [] r hpre.tree h4 hpre.order hk' rfl
      (by intro l hl; cases hl) hO hon hsep
    exact id_finish hidsF go.sep go.routes hb
  | delLeft key frames node index left root =>
    obtain ⟨hroot, hfr, hposi, hl, c, hc⟩ := hk
    obtain ⟨d, i, hf, _, kc, hkc, hkcid⟩ := inner_of_kidAt hc
    have hres : resume P t s (.delLeft key frames node index left root) =
        (s.acq t (.node left), .park (.want (.node (Node.id kc))
          (.delChild key frames node index (some left) (Node.id kc) root))) := by
      simp only [resume, acq_tree, hf, innerKidId?, hkc, Option.map_some]
    rw [hres] at hidsF hb ⊢
    exact id_finish hidsF hsep (RStab.refl _ _) hb
  | delChild key frames node index left child root =>
    have hrootH : Lk.node root ∈ H := hheld _ (by simp [kontHeld])
    obtain ⟨hroot, hfr, hfrm⟩ := hk
    have hon : OnRoute lt s.tree key child := onRoute_kid hids hpar key hpos.1 hpos.2 hfrm.1
    have go := delGo_i h P hkp.lt hpre.pad t key root H hrootH Wit hWit (s.acq t (.node child))
      (⟨node, index, left, child⟩ :: frames) child hpre.tree h4 hpre.order hroot ⟨rfl, hfrm, hfr⟩ (by
        intro l hl
        simp only [framesHeld, List.mem_append, List.mem_singleton] at hl
        rcases hl with hl | hl | hl
        · exact hheld _ (by simp [kontHeld, hl])
        · exact hheld _ (by simp [kontHeld, hl])
        · rw [hl]; exact hlock _ rfl) hO hon hsep
    exact id_finish hidsF go.sep go.routes hb
  | delRight key rest fr right root =>
    have hrootH : Lk.node root ∈ H := hheld _ (by simp [kontHeld])
    obtain ⟨hroot, hfr, hr, hsm⟩ := hk
    have hok : TreeOk (some fr.child) s.tree := hpre.tree
    have out := delRightArrive_i h P hpre.pad t key root H hrootH Wit hWit (s.acq t (.node right)) rest fr right
      ⟨by simpa using hok.prime h4, hpre.order, hroot, hfr, fun _ => hsm⟩ (by
        intro l hl
        exact hheld _ (by simp only [kontHeld, List.mem_cons]; right; right; exact hl)) hr (hlock _ rfl) hO hsep
    exact id_finish hidsF out.sep out.routes hb

end Gobptree.Conc

open Gobptree.Conc in
#print axioms resume_isep_D
