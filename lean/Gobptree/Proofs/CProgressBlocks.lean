/-
  Per-block lemmas of the variant argument: whenever a stretch of code (the code between
  two parks) ends in a park, the measure of that park — in the tree the stretch leaves
  behind — is strictly below the measure of the continuation the stretch was resumed with.
  Read off every block of Conc.lean, in the style of CSParkKind/CSDiscLemmas.
-/
import Gobptree.Proofs.CProgressDefs

namespace Gobptree.Conc
open Gobptree

variable {K V : Type}

/-- closes `OutLt B r` for an explicit non-park outcome -/
macro "nopark" : tactic => `(tactic| exact True.intro)

theorem m3_lt4 {a d : Nat} (h : a ≤ d) : 3 * a + 4 < 3 * d + 5 := by omega
theorem m3_le1 {a d : Nat} (h : a ≤ d) : 3 * a + 1 ≤ 3 * d + 5 := by omega
theorem m3_le1' {a d : Nat} (h : a ≤ d) : 3 * a + 1 ≤ 3 * (d + 1) := by omega
theorem m3_lt2' {a d : Nat} (h : a ≤ d) : 3 * a + 2 < 3 * (d + 1) := by omega

/-! ### Search / NewScanner -/

theorem roArrive_meas (P : Params K) (t : Nat) (s : St K V) (sc : Bool) (key : K) (hold : Lk) (n : Nat) :
    OutLt (3 * hgt s.tree n + 1) (roArrive P t s sc key hold n) := by
  unfold roArrive
  simp only
  split
  · nopark
  · split
    · split
      · nopark
      · split
        · nopark
        · nopark
    · split
      · nopark
      · split
        · nopark
        · show 3 * hgt s.tree n < 3 * hgt s.tree n + 1
          omega

/-! ### Insert / Update -/

theorem upLeaf_meas (P : Params K) (t : Nat) (s : St K V) (key : K) (f : Option V → V) (y : Option Bool) (n : Nat)
    (l : Leaf K V) : OutLt 1 (upLeaf P t s key f y n l) := by
  unfold upLeaf
  split
  · nopark
  · split
    · show (0 : Nat) < 1
      omega
    · nopark
    · nopark

theorem upContinue_meas (P : Params K) (t : Nat) (s : St K V) (key : K) (f : Option V → V) (y : Option Bool) (n : Nat) :
    OutLt (3 * hgt s.tree n + 1) (upContinue P t s key f y n) := by
  unfold upContinue
  split
  · nopark
  · split
    · exact (upLeaf_meas P t s key f y n _).mono (by omega)
    · split
      · nopark
      · simp only
        split
        · nopark
        · show 3 * hgt s.tree n < 3 * hgt s.tree n + 1
          omega

theorem upChildArrive_meas (P : Params K) (t : Nat) (s : St K V) (key : K) (f : Option V → V) (y : Option Bool)
    (parent index child : Nat) (hn : s.tree.ids.Nodup) (hkid : s.tree.kidAt parent index = some child) :
    OutLt (3 * hgt s.tree parent) (upChildArrive P t s key f y parent index child) := by
  obtain ⟨shp, hlp, hkidx⟩ := kidAt_look hkid
  obtain ⟨a, hfind, hsh, _⟩ := find_some_of_look hlp
  obtain ⟨d, p, c, rfl, hpk, hcid⟩ := any_kid a index child (by rw [hsh]; exact hkidx)
  have hmid' : p.id = parent := (Tree.find_modify hfind).1
  have hh : hgt s.tree parent = d + 1 := hgt_find hfind
  have hfind' : ∀ (ru : List K) (ks : List (Node K V d)),
      s.tree.find (Inner.mk p.id ru ks : Inner K (Node K V d)).id = some ⟨d + 1, p⟩ := by
    intro ru ks
    show s.tree.find p.id = _
    rw [hmid']; exact hfind
  have hx : child ∈ (ftail (d := d + 1) p).map Prod.fst := by
    rw [ftail_inner]
    apply List.mem_map.2
    refine ⟨(Node.id c, shallow c), ?_, hcid⟩
    exact List.mem_flatMap.2 ⟨c, List.mem_of_getElem? hpk, self_mem_flat c⟩
  have hle : ∀ (ru : List K) (ks : List (Node K V d)),
      hgt (putInner s.tree (Inner.mk p.id ru ks : Inner K (Node K V d))) child ≤ d :=
    fun ru ks => hgt_putInner_le _ (hfind' ru ks) hn hx
  rw [hh]
  unfold upChildArrive
  rw [hfind]
  simp only
  rw [hpk]
  simp only
  split
  · nopark
  · split
    · nopark
    · exact (upContinue_meas P t _ key f y child).mono (m3_le1' (hle _ _))
    · split
      · split
        · exact m3_lt2' (hle _ _)
        · exact (upContinue_meas P t _ key f y child).mono (m3_le1' (hle _ _))
      · nopark

theorem upRootArrive_meas (P : Params K) (t : Nat) (s : St K V) (key : K) (f : Option V → V) (y : Option Bool)
    (root : Nat) (hi : IdsOk s.tree) (hr : root = s.tree.rootId) :
    OutLt (3 * s.tree.depth + 5) (upRootArrive P t s key f y root) := by
  subst hr
  have hroot := hgt_root hi
  have hlt : s.tree.rootId < s.tree.nextId :=
    hi.2 _ (List.mem_map.2 ⟨_, self_mem_flat s.tree.root, rfl⟩)
  unfold upRootArrive
  simp only
  split
  · nopark
  · refine (upContinue_meas P t _ key f y s.tree.rootId).mono ?_
    show 3 * hgt s.tree s.tree.rootId + 1 ≤ _
    omega
  · rename_i left right _
    split
    · rename_i ls rs _ _
      have := hgt_newRoot_le (V := V) s.tree.order
        (Inner.mk (s.tree.nextId + 1) [if P.lt key ls = true then key else ls, rs] [left, right] :
          Inner K (Node K V s.tree.depth)) (s.tree.nextId + 2) (x := s.tree.rootId)
        (by show s.tree.rootId ≠ s.tree.nextId + 1; omega)
      split
      · exact m3_lt4 this
      · exact (upContinue_meas P t _ key f y s.tree.rootId).mono (m3_le1 this)
    · nopark

/-! ### Delete -/

theorem delFinish_meas (t : Nat) (s : St K V) (small : Bool) (root : Nat) (B : Nat) :
    OutLt B (delFinish t s small root) := by
  unfold delFinish
  nopark

theorem delUnwind_meas (P : Params K) (t : Nat) (key : K) (root : Nat) :
    ∀ (frames : List Frame) (s : St K V) (small : Bool),
      OutLt (frames.length + 1) (delUnwind P t s key frames small root) := by
  intro frames
  induction frames with
  | nil => intro s small; unfold delUnwind; exact delFinish_meas t s small root _
  | cons fr rest ih =>
    intro s small
    unfold delUnwind
    split
    · exact (ih _ false).mono (by simp)
    · split
      · split
        · split
          · nopark
          · show rest.length + 1 < (fr :: rest).length + 1
            simp
        · split
          · nopark
          · split
            · nopark
            · rename_i i' small' _
              exact (ih _ small').mono (by simp)
      · nopark

theorem delRightArrive_meas (P : Params K) (t : Nat) (s : St K V) (key : K) (rest : List Frame) (fr : Frame)
    (right root : Nat) : OutLt (rest.length + 1) (delRightArrive P t s key rest fr right root) := by
  unfold delRightArrive
  split
  · split
    · nopark
    · split
      · nopark
      · rename_i i' small' _
        exact delUnwind_meas P t key root rest _ small'
  · nopark

/-- outcome of `delEnter`: either a park of the descent, measured in the (unchanged) tree, or
    the unchanged list of activation records -/
def EnterOut (B : Nat) (frames : List Frame) :
    St K V × Flow K V × Option (List Frame × Bool) → Prop
  | (s1, fl, none) => flowLt s1.tree B fl
  | (_, _, some (fr', _)) => fr' = frames

theorem delGo_meas (P : Params K) (t : Nat) (s : St K V) (key : K) (frames : List Frame) (n root : Nat)
    (hlen : frames.length ≤ s.tree.depth) :
    OutLt (s.tree.depth + 2 + 2 * (s.tree.depth - frames.length) + 2) (delGo P t s key frames n root) := by
  unfold delGo
  have henter : EnterOut (s.tree.depth + 2 + 2 * (s.tree.depth - frames.length) + 2) frames
      (delEnter P t s key frames n root) := by
    unfold delEnter
    split
    · nopark
    · split
      · split
        · nopark
        · rfl
      · split
        · nopark
        · simp only
          split
          · split
            · nopark
            · show s.tree.depth + 2 + 2 * (s.tree.depth - frames.length) + 1 < _
              omega
          · split
            · nopark
            · show s.tree.depth + 2 + 2 * (s.tree.depth - frames.length) < _
              omega
  split
  · rename_i s1 fl heq
    rw [heq] at henter
    exact henter
  · rename_i s1 fl frames' small heq
    rw [heq] at henter
    have e : frames' = frames := henter
    subst e
    exact (delUnwind_meas P t key root frames' s1 small).mono (by omega)

/-! ### resume -/

/-- **every block moves strictly down the measure**: if the code resumed with continuation `k`
    parks again, the new park's measure (in the new tree) is below that of `k` (in the old) -/
theorem resume_meas (P : Params K) (t : Nat) (s : St K V) (k : Kont K V) (hi : IdsOk s.tree)
    (hk : KontOk s.tree k) : OutLt (kMeasure s.tree k) (resume P t s k) := by
  cases k with
  | roTree sc key =>
    simp only [resume]
    show 3 * s.tree.depth + 5 < 3 * s.tree.depth + 6
    omega
  | roNode sc key hold want =>
    simp only [resume]
    refine (roArrive_meas P t _ sc key hold want).mono ?_
    show 3 * hgt s.tree want + 1 ≤ _
    cases hold with
    | tree =>
      have hk' : want = s.tree.rootId := hk
      rw [hk', hgt_root hi]
      show _ ≤ 3 * s.tree.depth + 5
      omega
    | node p =>
      obtain ⟨i, hk'⟩ : ∃ i, s.tree.kidAt p i = some want := hk
      have := hgt_kid hi hk'
      show _ ≤ 3 * hgt s.tree p
      omega
  | upTree key f y =>
    simp only [resume]
    show 3 * s.tree.depth + 5 < 3 * s.tree.depth + 6
    omega
  | upRoot key f y r =>
    simp only [resume]
    exact upRootArrive_meas P t (s.acq t (.node r)) key f y r hi hk
  | upRootSib key f y root sib =>
    simp only [resume]
    refine (upContinue_meas P t _ key f y sib).mono ?_
    obtain ⟨⟨sh, hsh, hkids⟩, _, _⟩ := hk
    have h0 : s.tree.kidAt s.tree.rootId 0 = some root := by simp [Tree.kidAt, hsh, hkids]
    have h1 : s.tree.kidAt s.tree.rootId 1 = some sib := by simp [Tree.kidAt, hsh, hkids]
    have e0 := hgt_kid hi h0
    have e1 := hgt_kid hi h1
    show 3 * hgt s.tree sib + 1 ≤ 3 * hgt s.tree root + 4
    omega
  | upChild key f y parent index child =>
    simp only [resume]
    exact upChildArrive_meas P t (s.acq t (.node child)) key f y parent index child hi.1 hk.1
  | upSib key f y parent child sib =>
    simp only [resume]
    refine (upContinue_meas P t _ key f y sib).mono ?_
    obtain ⟨⟨i, hci, hsi⟩, _, _⟩ := hk
    have e0 := hgt_kid hi hci
    have e1 := hgt_kid hi hsi
    show 3 * hgt s.tree sib + 1 ≤ 3 * hgt s.tree child + 2
    omega
  | upCallback key f leaf arg =>
    simp only [resume]
    split
    · split
      · split <;> nopark
      · nopark
    · nopark
  | delTree key =>
    simp only [resume]
    show 3 * s.tree.depth + 5 < 3 * s.tree.depth + 6
    omega
  | delRoot key r =>
    simp only [resume]
    refine (delGo_meas P t (s.acq t (.node r)) key [] r r (Nat.zero_le _)).mono ?_
    show s.tree.depth + 2 + 2 * (s.tree.depth - 0) + 2 ≤ 3 * s.tree.depth + 5
    omega
  | delLeft key frames node index left root =>
    simp only [resume]
    split
    · split
      · show s.tree.depth + 2 + 2 * (s.tree.depth - frames.length) <
          s.tree.depth + 2 + 2 * (s.tree.depth - frames.length) + 1
        omega
      · nopark
    · nopark
  | delChild key frames node index left child root =>
    simp only [resume]
    obtain ⟨hr, hfr, hfk⟩ := hk
    subst hr
    have h1 := frames_len hi frames node hfr
    obtain ⟨hkid, _⟩ := hfk
    simp only at hkid
    have h2 := hgt_kid hi hkid
    have hlen : frames.length + 1 ≤ s.tree.depth := by omega
    refine (delGo_meas P t (s.acq t (.node child)) key
      ({ node := node, index := index, left := left, child := child } :: frames) child s.tree.rootId hlen).mono ?_
    show s.tree.depth + 2 + 2 * (s.tree.depth - (frames.length + 1)) + 2 ≤
      s.tree.depth + 2 + 2 * (s.tree.depth - frames.length)
    omega
  | delRight key rest fr right root =>
    simp only [resume]
    exact delRightArrive_meas P t _ key rest fr right root
  | hop cur next =>
    simp only [resume]
    nopark
  | paused =>
    simp only [resume]
    nopark

end Gobptree.Conc
