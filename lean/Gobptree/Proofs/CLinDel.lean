/-
  Linearizability WITH Delete: every reachable configuration's history of map operations
  (Insert / Update / Delete / Search, cursor sessions alongside) has a linearization, given
  the per-block key-order results `KBlocks`.

  Linearization points: Insert / Update / Search take effect in the scheduler step in which
  they return; a Delete takes effect in the stretch that removes the key from its leaf, which
  may precede the step in which it returns (it may still wait for right siblings while it
  unwinds and rebalances: parked at `delRight …`, status `linearized`).
-/
import Gobptree.Proofs.CLin
import Gobptree.Proofs.CKFull

namespace Gobptree.Conc
open Gobptree Gobptree.Lin

variable {K V : Type}

/-- the abstract effect of a step, from the per-block results -/
theorem stepEff_full (B : KBlocks K V) (lt : K → K → Bool) (c : Config K V) (t : Nat) (hk : KFInv lt c) :
    StepEff lt c t := by
  intro th k ht hen hpk
  have hinv := hk.cinv
  have htm : th ∈ c.threads := List.mem_of_getElem? ht
  have hS := hinv.s
  have hok := hS.cfg th htm
  have hsok := hS.threads th htm
  have hkpos : KPos lt c.tree k := by
    have := hk.kinv.pos th htm
    rcases hpk with hp | ⟨l, hp⟩ <;> rw [hp] at this <;> exact this
  have hko : KontOk c.tree k := by
    have := hsok.1
    rcases hpk with hp | ⟨l, hp⟩ <;> rw [hp] at this <;> exact this
  have hkpre : KontPre th.cursor k := by
    have := hok.2.1
    rcases hpk with hp | ⟨l, hp⟩ <;> rw [hp] at this <;> exact this
  have hcov := covers_of_ok (s0 := stepSt c t th) rfl hok k hpk
  have nodel : isDelK k = false → CursorOk c.tree (isHopK k) th.cursor →
      AbsEffect lt t k { stepSt c t th with evs := [] }
        (resume c.P t { stepSt c t th with evs := [] } k).1 (resume c.P t { stepSt c t th with evs := [] } k).2 :=
    fun hdel hcur =>
      (B.ku lt c.P t { stepSt c t th with evs := [] } k (stepHeld th) (holeOf c.threads) hdel hk.kp
        ⟨hS.tree, hS.order, hS.pad⟩ hko hcur hkpre hcov hk.kinv.ord hkpos).1.eff
  rcases hpk with hp | ⟨l, hp⟩
  · have hlock : kontLock k = none := by have := hok.2.2; rw [hp] at this; exact this
    have hhop : isHopK k = false := by
      cases k <;> first | rfl | (simp [kontLock] at hlock)
    have hdel : isDelK k = false := by
      cases k <;> first | rfl | (simp [kontLock] at hlock)
    have hcur : CursorOk c.tree (isHopK k) th.cursor := by
      have := hsok.2; rw [hp, isHop_yielded] at this; rw [hhop]; exact this
    exact nodel hdel hcur
  · cases hdel : isDelK k with
    | false =>
      have hcur : CursorOk c.tree (isHopK k) th.cursor := by
        have := hsok.2; rw [hp, isHop_want] at this; exact this
      exact nodel hdel hcur
    | true =>
      have hhole : holeOf c.threads = kontHole k := by
        rw [hole_of_stepper hS ht hen (by rw [hp]; exact hdel), hp, parkHole_want]
      have hpre : Pre c.P (kontHole k) ({ stepSt c t th with evs := [] } : St K V) :=
        ⟨by rw [← hhole]; exact hS.tree, hS.order, hS.pad⟩
      have h4 : 4 ≤ c.tree.order := hinv.four htm (by rw [hp]; exact hdel)
      exact (B.kd lt c.P t { stepSt c t th with evs := [] } k (stepHeld th) hdel h4 hk.kp hpre hko hkpre hcov
        hk.kinv.ord hkpos).1.eff

/-- **a scheduler step keeps the linearizability invariant** (with Delete) -/
theorem step_lininv_full (B : KBlocks K V) (lt : K → K → Bool) (init : List (K × V)) (c c' : Config K V) (t : Nat)
    (hstep : c.step t = some c') (hk : KFInv lt c) (h : List (HEv K V)) (hl : LinInv lt init c h) :
    ∃ h', LinInv lt init c' h' :=
  step_lininv_gen lt init c c' t hstep hk.cinv (stepEff_full B lt c t hk) h hl

/-- **concurrent Insert / Update / Delete / Search (and cursor sessions alongside) are
    linearizable** -/
theorem linearizable_full (B : KBlocks K V) (lt : K → K → Bool) (P : Params K) (tree : Tree K V)
    (progs : List (List (COp K V)))
    (hkp : KParams lt P) (ht : TreeOk none tree) (hord : OrdTree lt tree) (hsep : SepTree lt tree)
    (ho : tree.order = P.order) (hp : PadOk P) (hd : Disciplined progs)
    (hdel : 4 ≤ tree.order ∨ NoDelete progs)
    (c : Config K V) (hr : Reachable (Config.init P tree progs) c) :
    Lin.Linearizable lt tree.abs (history c) := by
  have key : ∃ h, LinInv lt tree.abs c h := by
    induction hr with
    | refl => exact ⟨[], init_lininv lt P tree progs⟩
    | @step c1 c2 t hr1 hs ih =>
      obtain ⟨h, hl⟩ := ih
      exact step_lininv_full B lt tree.abs c1 c2 t hs
        (reachable_kfinv B lt P tree progs hkp ht hord hsep ho hp hd hdel c1 hr1) h hl
  obtain ⟨h, hl⟩ := key
  rw [← hl.vis]
  exact hl.pts.linearizable

#print axioms linearizable_full

end Gobptree.Conc
