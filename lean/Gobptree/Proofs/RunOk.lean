/-
  Every history refines the specification and preserves the invariant.
-/
import Gobptree.Run
import Gobptree.Proofs.Delete

namespace Gobptree

variable {K V : Type} {lt : K → K → Bool}

/-- hypotheses on the static parameters of a tree type -/
structure ParamsOk (lt : K → K → Bool) (P : Params K) : Prop where
  lt_eq : P.lt = lt
  swo : SWO lt
  pad : ∀ k, P.pad (some k) ≠ none
  two_le : 2 ≤ P.order
  even : P.order % 2 = 0

theorem new_ok (o : Nat) : TreeInv lt (Tree.new o : Tree K V) ∧ Node.pairs (Tree.new o : Tree K V).root = [] := by
  refine ⟨⟨?_, rfl⟩, rfl⟩
  show WF lt o 0 0 none none _
  exact ⟨List.Pairwise.nil, rfl, Nat.zero_le _, Nat.le_refl _, fun k hk => absurd hk (List.not_mem_nil)⟩

/-- one step: the model does not panic, its observable output is the
    specification's, the abstraction commutes and the invariant is kept -/
theorem step_ok (hp : ParamsOk lt P) (t : Tree K V) (hto : t.order = P.order) (hinv : TreeInv lt t)
    (op : Op K V) (hdel : op.isDelete = true → 4 ≤ P.order) :
    ∃ t' : Tree K V,
      t.step P op = .ok (t', (Spec.step lt (Node.pairs t.root) op).2) ∧
      TreeInv lt t' ∧ t'.order = P.order ∧
      Node.pairs t'.root = (Spec.step lt (Node.pairs t.root) op).1 := by
  obtain ⟨hlt, hswo, hpad, ho, hev⟩ := hp
  cases op with
  | insert k v =>
    obtain ⟨t', heq, hinv', hord, hp'⟩ := Tree.upsert_ok hswo P hlt hpad ho hev t hto hinv k (fun _ => v)
    refine ⟨t', ?_, hinv', by rw [hord, hto], hp'⟩
    simp only [Tree.step, Tree.insert, heq, bind, Except.bind, pure, Except.pure, Spec.step]
  | update k f =>
    obtain ⟨t', heq, hinv', hord, hp'⟩ := Tree.upsert_ok hswo P hlt hpad ho hev t hto hinv k f
    refine ⟨t', ?_, hinv', by rw [hord, hto], hp'⟩
    simp only [Tree.step, Tree.update, heq, bind, Except.bind, pure, Except.pure, Spec.step]
  | delete k =>
    obtain ⟨t', heq, hinv', hord, hp'⟩ := Tree.delete_ok hswo P hlt hpad (hdel rfl) hev t hto hinv k
    refine ⟨t', ?_, hinv', by rw [hord, hto], hp'⟩
    simp only [Tree.step, heq, bind, Except.bind, pure, Except.pure, Spec.step]
  | search k =>
    have heq := Tree.search_ok hswo P hlt t hto hinv.1 k
    refine ⟨t, ?_, hinv, hto, rfl⟩
    simp only [Tree.step, heq, bind, Except.bind, pure, Except.pure, Spec.step]

/-- every history: by induction over the operations -/
theorem run_ok (hp : ParamsOk lt P) (ops : List (Op K V)) :
    ∀ (t : Tree K V), t.order = P.order → TreeInv lt t →
      (∀ op ∈ ops, op.isDelete = true → 4 ≤ P.order) →
      ∃ t' : Tree K V,
        t.run P ops = .ok (t', (Spec.run lt (Node.pairs t.root) ops).2) ∧
        TreeInv lt t' ∧ t'.order = P.order ∧
        Node.pairs t'.root = (Spec.run lt (Node.pairs t.root) ops).1 := by
  induction ops with
  | nil => intro t hto hinv _; exact ⟨t, rfl, hinv, hto, rfl⟩
  | cons op ops ih =>
    intro t hto hinv hdel
    obtain ⟨t1, heq1, hinv1, hto1, hp1⟩ := step_ok hp t hto hinv op (hdel op (by simp))
    obtain ⟨t2, heq2, hinv2, hto2, hp2⟩ := ih t1 hto1 hinv1 (fun o ho => hdel o (by simp [ho]))
    refine ⟨t2, ?_, hinv2, hto2, ?_⟩
    · simp only [Tree.run, heq1, bind, Except.bind, pure, Except.pure, Spec.run]
      rw [hp1] at heq2
      rw [heq2]
    · simp only [Spec.run]
      rw [hp2, hp1]

end Gobptree
