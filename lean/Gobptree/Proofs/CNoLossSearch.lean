/-
  C03, "a Search never misses a key that is present throughout the Search", on RUNS.

  `search_reads_run_config`: along every run (`RunFrom init (c :: hist)`: the configurations
  visited, newest first) the response of a `get k` is `Spec.lookup` of `k` in the abstract map
  of a configuration `d` THE RUN VISITED while the call was open: `d` comes after the step that
  logged the invocation and is the configuration right before the step that logged the response
  (the linearization point of a Search is the scheduler step in which it returns).
  Hence (`search_finds_present`, `search_reports_absent`): a key present in every configuration of
  the open interval is found — with a value it had in one of them — and a key absent in all of
  them is reported absent.

  Also: the log only grows, the history of an earlier configuration of a run is a prefix of the
  history of a later one, and the resulting run-level criterion for `SettledBefore`.
-/
import Gobptree.Proofs.CNoLossLin
import Gobptree.Proofs.CScanSessionDefs

namespace Gobptree.Conc
open Gobptree Gobptree.Lin

variable {K V : Type}

/-! ### notes and events -/

/-- an invocation event of the history comes from an `inv` note of the log -/
theorem hx_inv_note (progs : Nat → List (COp K V)) :
    ∀ (evs : List (Ev K V)) (t i : Nat) (op : Op K V), HEv.inv t i op ∈ (hx progs evs).evs →
      Ev.note t (.inv i) ∈ evs := by
  intro evs
  induction evs with
  | nil => intro t i op h; simp [hx] at h
  | cons e rest ih =>
    intro t i op h
    rw [hx_cons] at h
    cases e with
    | note t' n =>
      cases n with
      | inv idx =>
        simp only [hxStep] at h
        split at h
        · rcases List.mem_append.1 h with h1 | h1
          · exact List.mem_cons_of_mem _ (ih t i op h1)
          · simp only [List.mem_singleton, HEv.inv.injEq] at h1
            obtain ⟨rfl, rfl, rfl⟩ := h1
            exact List.mem_cons_self
        · exact List.mem_cons_of_mem _ (ih t i op h)
      | cb a => exact List.mem_cons_of_mem _ (ih t i op h)
      | ret idx r =>
        simp only [hxStep] at h
        split at h
        · split at h
          · rcases List.mem_append.1 h with h1 | h1
            · exact List.mem_cons_of_mem _ (ih t i op h1)
            · simp at h1
          · exact List.mem_cons_of_mem _ (ih t i op h)
        · exact List.mem_cons_of_mem _ (ih t i op h)
    | acq t' l => exact List.mem_cons_of_mem _ (ih t i op h)
    | rel t' l => exact List.mem_cons_of_mem _ (ih t i op h)
    | dec t' l => exact List.mem_cons_of_mem _ (ih t i op h)

/-- a response event of the history comes from a `ret` note of the log -/
theorem hx_ret_note' (progs : Nat → List (COp K V)) :
    ∀ (evs : List (Ev K V)) (t i : Nat) (out : Out V), HEv.ret t i out ∈ (hx progs evs).evs →
      ∃ r, Ev.note t (.ret i r) ∈ evs := by
  intro evs
  induction evs with
  | nil => intro t i out h; simp [hx] at h
  | cons e rest ih =>
    intro t i out h
    have up : (∃ r, Ev.note t (.ret i r) ∈ rest) → ∃ r, Ev.note t (.ret i r) ∈ e :: rest :=
      fun ⟨r, hr⟩ => ⟨r, List.mem_cons_of_mem _ hr⟩
    rw [hx_cons] at h
    cases e with
    | note t' n =>
      cases n with
      | inv idx =>
        simp only [hxStep] at h
        split at h
        · rcases List.mem_append.1 h with h1 | h1
          · exact up (ih t i out h1)
          · simp at h1
        · exact up (ih t i out h)
      | cb a => exact up (ih t i out h)
      | ret idx r =>
        simp only [hxStep] at h
        split at h
        · split at h
          · rcases List.mem_append.1 h with h1 | h1
            · exact up (ih t i out h1)
            · simp only [List.mem_singleton, HEv.ret.injEq] at h1
              obtain ⟨rfl, rfl, rfl⟩ := h1
              exact ⟨r, List.mem_cons_self⟩
          · exact up (ih t i out h)
        · exact up (ih t i out h)
    | acq t' l => exact up (ih t i out h)
    | rel t' l => exact up (ih t i out h)
    | dec t' l => exact up (ih t i out h)

/-- a `ret` note of an Insert, Delete or Search (whose response does not depend on a callback)
    leaves its response event in the history -/
theorem hx_ret_of_note (progs : Nat → List (COp K V)) {t i : Nat} {cop : COp K V} {r : Res K V} {out : Out V}
    (hc : (progs t)[i]? = some cop) (ho : ∀ cb, outOf cop r cb = some out) :
    ∀ (evs : List (Ev K V)), Ev.note t (.ret i r) ∈ evs → HEv.ret t i out ∈ (hx progs evs).evs := by
  intro evs
  induction evs with
  | nil => intro h; cases h
  | cons e rest ih =>
    intro h
    rcases List.mem_cons.1 h with h1 | h1
    · subst h1
      exact hx_ret_note progs t i r rest cop out hc (ho _)
    · rw [hx_cons]
      exact hxStep_mono progs _ e _ (ih h1)

theorem history_inv_note {c : Config K V} {t i : Nat} {op : Op K V} (h : HEv.inv t i op ∈ history c) :
    Ev.note t (.inv i) ∈ c.log :=
  hx_inv_note (progOf c) c.log t i op h

theorem history_ret_note {c : Config K V} {t i : Nat} {out : Out V} (h : HEv.ret t i out ∈ history c) :
    ∃ r, Ev.note t (.ret i r) ∈ c.log :=
  hx_ret_note' (progOf c) c.log t i out h

/-! ### the log and the history only grow -/

theorem hxStep_prefix (progs : Nat → List (COp K V)) (st : HxSt K V) (e : Ev K V) :
    ∃ ext, (hxStep progs st e).evs = st.evs ++ ext := by
  cases e with
  | note t n =>
    cases n with
    | inv idx =>
      simp only [hxStep]
      split
      · exact ⟨_, rfl⟩
      · exact ⟨[], by simp⟩
    | cb a => exact ⟨[], by simp [hxStep]⟩
    | ret idx r =>
      simp only [hxStep]
      split
      · split
        · exact ⟨_, rfl⟩
        · exact ⟨[], by simp⟩
      · exact ⟨[], by simp⟩
  | acq t l => exact ⟨[], by simp [hxStep]⟩
  | rel t l => exact ⟨[], by simp [hxStep]⟩
  | dec t l => exact ⟨[], by simp [hxStep]⟩

theorem hx_prefix (progs : Nat → List (COp K V)) (evs : List (Ev K V)) :
    ∀ new : List (Ev K V), ∃ ext, (hx progs (new ++ evs)).evs = (hx progs evs).evs ++ ext := by
  intro new
  induction new with
  | nil => exact ⟨[], by simp⟩
  | cons e rest ih =>
    obtain ⟨ext, he⟩ := ih
    obtain ⟨ext', he'⟩ := hxStep_prefix progs (hx progs (rest ++ evs)) e
    rw [List.cons_append, hx_cons, he', he]
    exact ⟨ext ++ ext', by simp⟩

theorem threadLoop_grows (t : Nat) (th : Thread K V) :
    ∀ (fuel : Nat) (s : St K V) (fl : Flow K V) (pc : Nat),
      ∃ new, (threadLoop t th fuel s fl pc).2.1.evs = new ++ s.evs := by
  have hend : ∀ (s : St K V) (r : Res K V) (pc : Nat), ∃ new, (s.note t (.ret pc r)).evs = new ++ s.evs :=
    fun s r pc => ⟨[Ev.note t (.ret pc r)], rfl⟩
  intro fuel
  induction fuel with
  | zero =>
    intro s fl pc
    cases fl with
    | panic => exact ⟨[Ev.note t (.ret pc .panic)], rfl⟩
    | park p => exact ⟨[], rfl⟩
    | done r => exact hend s r pc
  | succ fuel ih =>
    intro s fl pc
    cases fl with
    | panic => exact ⟨[Ev.note t (.ret pc .panic)], rfl⟩
    | park p => exact ⟨[], rfl⟩
    | done r =>
      unfold threadLoop
      cases hop : th.prog[pc + 1]? with
      | none => exact hend s r pc
      | some cop =>
        simp only
        obtain ⟨new, hn⟩ := ih (startOp t ((s.note t (.ret pc r)).note t (.inv (pc + 1))) cop).1
          (startOp t ((s.note t (.ret pc r)).note t (.inv (pc + 1))) cop).2 (pc + 1)
        obtain ⟨new', e, _, _⟩ := startOp_tr t ((s.note t (.ret pc r)).note t (.inv (pc + 1))) cop
        rw [hn, e]
        exact ⟨new ++ new' ++ [Ev.note t (.inv (pc + 1)), Ev.note t (.ret pc r)], by simp [St.note]⟩

/-- a scheduler step only appends to the log -/
theorem step_log_grows {c c' : Config K V} {t : Nat} (hstep : c.step t = some c') :
    ∃ new, c'.log = new ++ c.log := by
  obtain ⟨th, ht, hen, r, hr, hc'⟩ := step_shape hstep
  have hlog' : c'.log = r.2.1.evs := by rw [hc']
  have h0 : (stepSt c t th).evs = [Ev.dec t c.enabledSet] ++ c.log := rfl
  have loop : ∀ (s : St K V) (fl : Flow K V) (pc : Nat), (∃ n, s.evs = n ++ c.log) →
      ∃ new, (threadLoop t th th.prog.length s fl pc).2.1.evs = new ++ c.log := by
    intro s fl pc ⟨n, hn⟩
    obtain ⟨new, e⟩ := threadLoop_grows t th th.prog.length s fl pc
    exact ⟨new ++ n, by rw [e, hn, List.append_assoc]⟩
  rw [hlog', hr]
  unfold runThread
  cases hp : th.park with
  | finished => exact ⟨_, h0⟩
  | start =>
    simp only
    cases hop : th.prog[0]? with
    | none => exact ⟨_, h0⟩
    | some op =>
      simp only
      apply loop
      obtain ⟨new', e, _, _⟩ := startOp_tr t ((stepSt c t th).note t (.inv 0)) op
      exact ⟨new' ++ [Ev.note t (.inv 0), Ev.dec t c.enabledSet], by rw [e]; simp [St.note, h0]⟩
  | want l k =>
    simp only
    apply loop
    obtain ⟨new', e, _, _⟩ := resume_tr c.P t (stepSt c t th) k
    exact ⟨new' ++ [Ev.dec t c.enabledSet], by rw [e, h0, List.append_assoc]⟩
  | yielded k =>
    simp only
    apply loop
    obtain ⟨new', e, _, _⟩ := resume_tr c.P t (stepSt c t th) k
    exact ⟨new' ++ [Ev.dec t c.enabledSet], by rw [e, h0, List.append_assoc]⟩

/-- the programs of the threads do not change in a step -/
theorem step_progOf {c c' : Config K V} {t : Nat} (hstep : c.step t = some c') : progOf c' = progOf c := by
  obtain ⟨th, ht, hen, r, hr, hc'⟩ := step_shape hstep
  have hths' : c'.threads = c.threads.set t r.1 := by rw [hc']
  have hrprog : r.1.prog = th.prog := by rw [hr]; exact runThread_prog _ _ _ _
  funext j
  unfold progOf
  rw [hths']
  by_cases e : j = t
  · subst e
    rw [List.getElem?_set_self', ht]
    simp [hrprog]
  · rw [List.getElem?_set_ne (Ne.symm e)]

/-- a scheduler step only appends to the client-visible history -/
theorem step_history_prefix {c c' : Config K V} {t : Nat} (hstep : c.step t = some c') :
    ∃ ext, history c' = history c ++ ext := by
  obtain ⟨new, hn⟩ := step_log_grows hstep
  show ∃ ext, (hxRun c').evs = (hxRun c).evs ++ ext
  rw [hxRun_eq, hxRun_eq, step_progOf hstep, hn]
  exact hx_prefix (progOf c) c.log new

/-- along a run, the log and the history of an earlier configuration are a suffix, resp. a prefix,
    of those of a later one -/
theorem RunFrom.grows {c0 c : Config K V} {hist : List (Config K V)} (hrun : RunFrom c0 (c :: hist)) :
    ∀ d ∈ c :: hist, (∃ new, c.log = new ++ d.log) ∧ ∃ ext, history c = history d ++ ext := by
  generalize hl : c :: hist = l at hrun
  induction hrun generalizing c hist with
  | init =>
    cases hl
    intro d hd
    simp only [List.mem_singleton] at hd
    subst hd
    exact ⟨⟨[], rfl⟩, ⟨[], by simp⟩⟩
  | @step c1 c2 hist' t h1 hs ih =>
    cases hl
    intro d hd
    rcases List.mem_cons.1 hd with rfl | hd'
    · exact ⟨⟨[], rfl⟩, ⟨[], by simp⟩⟩
    · obtain ⟨⟨n1, e1⟩, ⟨x1, e2⟩⟩ := ih rfl d hd'
      obtain ⟨n2, e3⟩ := step_log_grows hs
      obtain ⟨x2, e4⟩ := step_history_prefix hs
      exact ⟨⟨n2 ++ n1, by rw [e3, e1, List.append_assoc]⟩, ⟨x1 ++ x2, by rw [e4, e2, List.append_assoc]⟩⟩

/-- **a run-level criterion for `SettledBefore`**: if at some moment `d` of the run the call
    `(t', i')` had returned while `(t, i)` had not been invoked yet, then (once `(t, i)` is
    invoked) `(t', i')` is settled before `(t, i)` in the history of every later configuration -/
theorem settledBefore_of_moment {c0 c : Config K V} {hist : List (Config K V)} (hrun : RunFrom c0 (c :: hist))
    {d : Config K V} (hd : d ∈ c :: hist) {t' i' t i : Nat} {out : Out V} {op : Op K V}
    (hret : HEv.ret t' i' out ∈ history d) (hnot : ∀ op', HEv.inv t i op' ∉ history d)
    (hinv : HEv.inv t i op ∈ history c) : SettledBefore (history c) t' i' t i := by
  obtain ⟨_, ext, he⟩ := hrun.grows d hd
  right
  refine ⟨out, op, ?_⟩
  obtain ⟨a, ha⟩ := List.mem_iff_getElem?.1 hret
  obtain ⟨b, hb⟩ := List.mem_iff_getElem?.1 hinv
  have hal : a < (history d).length := (List.getElem?_eq_some_iff.1 ha).1
  refine ⟨a, b, ?_, ?_, hb⟩
  · apply Nat.lt_of_not_le
    intro hle
    have hbl : b < (history d).length := by omega
    rw [he, List.getElem?_append_left hbl] at hb
    exact hnot op (List.mem_of_getElem? hb)
  · rw [he, List.getElem?_append_left hal]; exact ha

/-! ### the step in which a Search returns -/

theorem startOp_not_found (t : Nat) (s : St K V) (op : COp K V) (v : Option V) :
    (startOp t s op).2 ≠ .done (.found v) := by
  cases op <;> simp only [startOp] <;> repeat' split
  all_goals (intro h; cases h)

/-- where a `ret _ (found _)` note in the log after the loop of a step comes from: it was there
    before, or it is the response of the stretch that just ended -/
theorem threadLoop_found (t t0 : Nat) (th : Thread K V) (i : Nat) (v : Option V) :
    ∀ (fuel : Nat) (s : St K V) (fl : Flow K V) (pc : Nat),
      Ev.note t0 (.ret i (.found v)) ∈ (threadLoop t th fuel s fl pc).2.1.evs →
      Ev.note t0 (.ret i (.found v)) ∈ s.evs ∨ (t0 = t ∧ i = pc ∧ fl = .done (.found v)) := by
  have hend : ∀ (s : St K V) (r : Res K V) (pc : Nat),
      Ev.note t0 (.ret i (.found v)) ∈ (s.note t (.ret pc r)).evs →
      Ev.note t0 (.ret i (.found v)) ∈ s.evs ∨ (t0 = t ∧ i = pc ∧ Flow.done r = .done (.found v)) := by
    intro s r pc h
    rcases List.mem_cons.1 h with h1 | h1
    · simp only [Ev.note.injEq, Note.ret.injEq] at h1
      obtain ⟨rfl, rfl, rfl⟩ := h1
      exact .inr ⟨rfl, rfl, rfl⟩
    · exact .inl h1
  have hpanic : ∀ (s : St K V) (pc : Nat),
      Ev.note t0 (.ret i (.found v)) ∈ (s.note t (.ret pc .panic)).evs → Ev.note t0 (.ret i (.found v)) ∈ s.evs := by
    intro s pc h
    rcases List.mem_cons.1 h with h1 | h1
    · simp at h1
    · exact h1
  intro fuel
  induction fuel with
  | zero =>
    intro s fl pc h
    cases fl with
    | panic => exact .inl (hpanic s pc h)
    | park p => exact .inl h
    | done r => exact hend s r pc h
  | succ fuel ih =>
    intro s fl pc h
    cases fl with
    | panic => exact .inl (hpanic s pc h)
    | park p => exact .inl h
    | done r =>
      unfold threadLoop at h
      cases hop : th.prog[pc + 1]? with
      | none => simp only [hop] at h; exact hend s r pc h
      | some cop =>
        simp only [hop] at h
        rcases ih _ _ _ h with h1 | ⟨_, _, h1⟩
        · obtain ⟨new, e, q, _⟩ := startOp_tr t ((s.note t (.ret pc r)).note t (.inv (pc + 1))) cop
          rw [e] at h1
          rcases List.mem_append.1 h1 with h2 | h2
          · have := List.all_eq_true.1 q _ h2
            simp [silentB] at this
          · rcases List.mem_cons.1 h2 with h3 | h3
            · simp at h3
            · exact hend s r pc h3
        · exact absurd h1 (startOp_not_found _ _ _ _)

/-- **the step in which a Search returns.**  If a step logs the response `found r` of the call
    `i` of thread `t`, a `get k`, then `r` is the value of `k` in the abstract map of the
    configuration BEFORE the step, and the call had been invoked before the step. -/
theorem step_get_found (lt : K → K → Bool) (init : List (K × V)) (c c' : Config K V) (t' : Nat)
    (hstep : c.step t' = some c') (hE : StepEff lt c t') (h : List (HEv K V)) (hl : LinInv lt init c h)
    {t i : Nat} {k : K} {r : Option V} (hcop : (progOf c t)[i]? = some (.get k))
    (hnew : Ev.note t (.ret i (.found r)) ∈ c'.log) (hold : Ev.note t (.ret i (.found r)) ∉ c.log) :
    r = Spec.lookup lt c.tree.abs k ∧ Ev.note t (.inv i) ∈ c.log := by
  obtain ⟨th, ht, hen, r0, hr0, hc'⟩ := step_shape hstep
  have hlog' : c'.log = r0.2.1.evs := by rw [hc']
  have hprog : th.prog = progOf c t' := (progOf_of_get ht).symm
  have hbk := hl.thr t' th ht
  have hnot0 : Ev.note t (.ret i (.found r)) ∉ (stepSt c t' th).evs := by
    intro hm
    rcases List.mem_cons.1 hm with h1 | h1
    · cases h1
    · exact hold h1
  -- the step resumes a continuation `k0` of the current operation
  have resumed : ∀ k0, (th.park = .yielded k0 ∨ ∃ l, th.park = .want l k0) →
      (∃ cop, th.prog[th.pc]? = some cop ∧ ∃ post, KBk (linState lt init h) ((hxRun c).cb t') t' th.pc cop k0 post) →
      Ev.note t (.ret i (.found r)) ∈
        (threadLoop t' th th.prog.length (resume c.P t' (stepSt c t' th) k0).1 (resume c.P t' (stepSt c t' th) k0).2 th.pc).2.1.evs →
      r = Spec.lookup lt c.tree.abs k ∧ Ev.note t (.inv i) ∈ c.log := by
    intro k0 hpk ⟨cop, hcop0, post, hkb⟩ hm
    obtain ⟨new, e, q, _, heff⟩ := resume_facts_of_eff lt c.P t' (stepSt c t' th) k0 (hE th k0 ht hen hpk)
    rcases threadLoop_found t' t th i r _ _ _ _ hm with h1 | ⟨rfl, rfl, hfl⟩
    · rw [e] at h1
      rcases List.mem_append.1 h1 with h2 | h2
      · have := List.all_eq_true.1 q _ h2
        simp [quietB] at this
      · exact absurd h2 hnot0
    · rw [hprog, hcop] at hcop0
      cases hcop0
      obtain ⟨hst, hkf, _⟩ := hkb
      have hsig : kontSig k0 = .ro false k := hkf
      have hpk0 := postK_false_of_sig (k := k0) (by intro key' h'; rw [hsig] at h'; cases h')
      refine ⟨(heff.ro_false hsig).2 r hfl, ?_⟩
      -- the operation has been invoked: its status is `invoked` or `linearized`
      have hinvh : ∃ op, HEv.inv t th.pc op ∈ h := by
        have hs := hst (.search k) rfl
        have hok := hl.pts.status_ok t th.pc
        cases post with
        | false =>
          rw [hs] at hok
          obtain ⟨q', hq'⟩ := invOp_some hok.1
          exact ⟨_, List.mem_of_getElem? hq'⟩
        | true =>
          rw [hs] at hok
          obtain ⟨L, hL⟩ := List.mem_iff_getElem?.1 hok.1
          obtain ⟨q', op', _, hq'⟩ := hl.pts.wf.lin_after_inv L _ _ hL
          exact ⟨op', List.mem_of_getElem? hq'⟩
      obtain ⟨op, hop⟩ := hinvh
      apply history_inv_note (op := op)
      rw [← hl.vis]
      exact mem_visible.2 ⟨hop, rfl⟩
  rw [hlog', hr0] at hnew
  unfold runThread at hnew
  cases hp : th.park with
  | finished => rw [hp] at hnew; exact absurd hnew hnot0
  | start =>
    rw [hp] at hnew
    simp only at hnew
    cases hop : th.prog[0]? with
    | none => rw [hop] at hnew; exact absurd hnew hnot0
    | some op =>
      rw [hop] at hnew
      simp only at hnew
      rcases threadLoop_found t' t th i r _ _ _ _ hnew with h1 | ⟨_, _, h1⟩
      · obtain ⟨new, e, q, _⟩ := startOp_tr t' ((stepSt c t' th).note t' (.inv 0)) op
        rw [e] at h1
        rcases List.mem_append.1 h1 with h2 | h2
        · have := List.all_eq_true.1 q _ h2
          simp [silentB] at this
        · rcases List.mem_cons.1 h2 with h3 | h3
          · simp at h3
          · exact absurd h3 hnot0
      · exact absurd h1 (startOp_not_found _ _ _ _)
  | want l k0 =>
    rw [hp] at hnew
    have hkb := hbk.park
    rw [hp] at hkb
    obtain ⟨cop, h1, h2⟩ := hkb
    exact resumed k0 (Or.inr ⟨l, hp⟩) ⟨cop, h1, _, h2⟩ hnew
  | yielded k0 =>
    rw [hp] at hnew
    have hkb := hbk.park
    rw [hp] at hkb
    obtain ⟨cop, h1, h2⟩ := hkb
    exact resumed k0 (Or.inl hp) ⟨cop, h1, _, h2⟩ hnew

/-! ### along a run -/

section Run

variable (lt : K → K → Bool) (P : Params K) (tree : Tree K V) (progs : List (List (COp K V)))

/-- **the response of a Search is the value of its key in a configuration the run visited while
    the call was open.**  Along every run: if the log of the current configuration `c` holds the
    response `found r` of call `i` of thread `t`, a `get k`, then there is an EARLIER configuration
    `d` of the run in which the call had been invoked (`inv` note in `d.log`), had not returned yet
    (its `ret` note not in `d.log`), and `r = Spec.lookup lt d.tree.abs k`. -/
theorem search_reads_run_config
    (hkp : KParams lt P) (ht : TreeOk none tree) (hord : OrdTree lt tree) (hsep : SepTree lt tree)
    (ho : tree.order = P.order) (hp : PadOk P) (hd : Disciplined progs)
    (hdel : 4 ≤ tree.order ∨ NoDelete progs)
    {c : Config K V} {hist : List (Config K V)} (hrun : RunFrom (Config.init P tree progs) (c :: hist))
    {t i : Nat} {k : K} {p : List (COp K V)} (hpt : progs[t]? = some p) (hpi : p[i]? = some (.get k))
    {r : Option V} (hret : Ev.note t (.ret i (.found r)) ∈ c.log) :
    ∃ d ∈ hist, Ev.note t (.inv i) ∈ d.log ∧ Ev.note t (.ret i (.found r)) ∉ d.log ∧
      r = Spec.lookup lt d.tree.abs k := by
  generalize hl : c :: hist = l at hrun
  induction hrun generalizing c hist with
  | init =>
    cases hl
    simp [Config.init] at hret
  | @step c1 c2 hist' t' h1 hs ih =>
    cases hl
    by_cases hold : Ev.note t (.ret i (.found r)) ∈ c1.log
    · obtain ⟨d, hd', hrest⟩ := ih hold rfl
      exact ⟨d, List.mem_cons_of_mem _ hd', hrest⟩
    · have hr1 := h1.reachable
      obtain ⟨h, hlin⟩ := reachable_lininv lt P tree progs hkp ht hord hsep ho hp hd hdel c1 hr1
      have hE := stepEff_full kblocks_ok lt c1 t' (reachable_kfinv' lt P tree progs hkp ht hord hsep ho hp hd hdel c1 hr1)
      have hcop : (progOf c1 t)[i]? = some (.get k) := by
        rw [progOf_reachable P tree progs c1 hr1 t, hpt]; exact hpi
      obtain ⟨e1, e2⟩ := step_get_found lt tree.abs c1 c2 t' hs hE h hlin hcop hret hold
      exact ⟨c1, List.mem_cons_self, e2, hold, e1⟩

/-- **a Search never misses a key that is present throughout the Search.**  If `k` (up to
    equivalence) is in the abstract map in every configuration the run visits while the call is
    open — after its invocation was logged, before its response was — then the Search finds it,
    and the value it returns is one `k` had in one of those configurations. -/
theorem search_finds_present
    (hkp : KParams lt P) (ht : TreeOk none tree) (hord : OrdTree lt tree) (hsep : SepTree lt tree)
    (ho : tree.order = P.order) (hp : PadOk P) (hd : Disciplined progs)
    (hdel : 4 ≤ tree.order ∨ NoDelete progs)
    {c : Config K V} {hist : List (Config K V)} (hrun : RunFrom (Config.init P tree progs) (c :: hist))
    {t i : Nat} {k : K} {p : List (COp K V)} (hpt : progs[t]? = some p) (hpi : p[i]? = some (.get k))
    {r : Option V} (hret : Ev.note t (.ret i (.found r)) ∈ c.log)
    (hpres : ∀ d ∈ hist, Ev.note t (.inv i) ∈ d.log → Ev.note t (.ret i (.found r)) ∉ d.log →
      (Spec.lookup lt d.tree.abs k).isSome = true) :
    ∃ v, r = some v ∧ ∃ d ∈ hist, Ev.note t (.inv i) ∈ d.log ∧ Ev.note t (.ret i (.found r)) ∉ d.log ∧
      Spec.lookup lt d.tree.abs k = some v := by
  obtain ⟨d, hd', h1, h2, h3⟩ :=
    search_reads_run_config lt P tree progs hkp ht hord hsep ho hp hd hdel hrun hpt hpi hret
  obtain ⟨v, hv⟩ := Option.isSome_iff_exists.1 (hpres d hd' h1 h2)
  exact ⟨v, by rw [h3, hv], d, hd', h1, h2, hv⟩

/-- the dual: a key absent in every configuration the run visits while the call is open is
    reported absent -/
theorem search_reports_absent
    (hkp : KParams lt P) (ht : TreeOk none tree) (hord : OrdTree lt tree) (hsep : SepTree lt tree)
    (ho : tree.order = P.order) (hp : PadOk P) (hd : Disciplined progs)
    (hdel : 4 ≤ tree.order ∨ NoDelete progs)
    {c : Config K V} {hist : List (Config K V)} (hrun : RunFrom (Config.init P tree progs) (c :: hist))
    {t i : Nat} {k : K} {p : List (COp K V)} (hpt : progs[t]? = some p) (hpi : p[i]? = some (.get k))
    {r : Option V} (hret : Ev.note t (.ret i (.found r)) ∈ c.log)
    (habs : ∀ d ∈ hist, Ev.note t (.inv i) ∈ d.log → Ev.note t (.ret i (.found r)) ∉ d.log →
      Spec.lookup lt d.tree.abs k = none) :
    r = none := by
  obtain ⟨d, hd', h1, h2, h3⟩ :=
    search_reads_run_config lt P tree progs hkp ht hord hsep ho hp hd hdel hrun hpt hpi hret
  rw [h3]; exact habs d hd' h1 h2

end Run

end Gobptree.Conc
