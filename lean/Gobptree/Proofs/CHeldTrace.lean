/-
  C10 on the event log: replaying any thread's `acq`/`rel` events of the log of a reachable
  configuration (no panic, no `Delete` in the programs) never shows more than three locks held.

  Method: (1) the log mirrors the held lists.  `RelM t s s'` strengthens `RelOnly`: the events
  `s'` has logged beyond `s` are releases of thread `t` (and notes), and replaying them from
  `s.held` gives `s'.held`; read off every block as in ConcOwner.  (2) a step logs one `acq`
  (when the thread was parked at a `Lock()`) and then only releases, and at a `Lock()` of a
  non-Delete continuation at most two locks are held (`ThreadOk` + `CSNoDel`).
-/
import Gobptree.Props.C10
import Gobptree.Proofs.CSNoDel

namespace Gobptree.Conc
open Gobptree

variable {K V : Type}

/-! ### replaying a log -/

/-- effect of one event on the held list of thread `t` -/
def upd (t : Nat) (e : Ev K V) (h : List Lk) : List Lk :=
  match e with
  | .acq t' l => if t' = t then h ++ [l] else h
  | .rel t' l => if t' = t then h.erase l else h
  | _ => h

/-- replay of a newest-first piece of log from `h` -/
def replay (t : Nat) (new : List (Ev K V)) (h : List Lk) : List Lk := new.foldr (upd t) h

/-- what thread `t` holds according to a newest-first log -/
def heldNow (t : Nat) (log : List (Ev K V)) : List Lk := replay t log []

/-- replay of a chronological list of events -/
def heldEnd (t : Nat) (evs : List (Ev K V)) (h0 : List Lk) : List Lk := evs.foldl (fun h e => upd t e h) h0

theorem replay_append (t : Nat) (a b : List (Ev K V)) (h : List Lk) :
    replay t (a ++ b) h = replay t a (replay t b h) := by
  simp [replay, List.foldr_append]

theorem heldNow_append (t : Nat) (a b : List (Ev K V)) : heldNow t (a ++ b) = replay t a (heldNow t b) :=
  replay_append t a b []

theorem heldEnd_reverse (t : Nat) (log : List (Ev K V)) : heldEnd t log.reverse [] = heldNow t log := by
  simp [heldEnd, heldNow, replay, List.foldl_reverse]

theorem heldTrace_append (t : Nat) : ∀ (a b : List (Ev K V)) (h0 : List Lk),
    heldTrace t (a ++ b) h0 = heldTrace t a h0 ++ heldTrace t b (heldEnd t a h0) := by
  intro a
  induction a with
  | nil => intro b h0; rfl
  | cons e a ih =>
    intro b h0
    cases e with
    | acq t' l =>
      by_cases ht : t' = t
      · simp [heldTrace, heldEnd, upd, ht, ih]
      · simp [heldTrace, heldEnd, upd, ht, ih]
    | rel t' l =>
      by_cases ht : t' = t
      · simp [heldTrace, heldEnd, upd, ht, ih]
      · simp [heldTrace, heldEnd, upd, ht, ih]
    | note t' n => simp [heldTrace, heldEnd, upd, ih]
    | dec t' en => simp [heldTrace, heldEnd, upd, ih]

/-- every instant of the (newest-first) log shows at most three locks held by `t` -/
def Bnd (t : Nat) : List (Ev K V) → Prop
  | [] => True
  | e :: rest => (heldNow t (e :: rest)).length ≤ 3 ∧ Bnd t rest

theorem bnd_len (t : Nat) (log : List (Ev K V)) (h : Bnd t log) : (heldNow t log).length ≤ 3 := by
  cases log with
  | nil => simp [heldNow, replay]
  | cons e rest => exact h.1

theorem trace_bound (t : Nat) : ∀ (log : List (Ev K V)), Bnd t log →
    ∀ h ∈ heldTrace t log.reverse [], h.length ≤ 3 := by
  intro log
  induction log with
  | nil => intro _ h hm; simp [heldTrace] at hm
  | cons e rest ih =>
    intro hb h hm
    rw [List.reverse_cons, heldTrace_append, List.mem_append, heldEnd_reverse] at hm
    rcases hm with hm | hm
    · exact ih hb.2 h hm
    · have hnow : heldNow t (e :: rest) = upd t e (heldNow t rest) := rfl
      have h1 := hb.1
      rw [hnow] at h1
      cases e with
      | acq t' l =>
        by_cases ht : t' = t
        · simp [heldTrace, ht] at hm
          simp [upd, ht] at h1
          subst hm; simpa using h1
        · simp [heldTrace, ht] at hm
      | rel t' l =>
        by_cases ht : t' = t
        · simp [heldTrace, ht] at hm
          simp only [upd, ht, if_true] at h1
          subst hm; exact h1
        · simp [heldTrace, ht] at hm
      | note t' n => simp [heldTrace] at hm
      | dec t' en => simp [heldTrace] at hm

/-- events a thread `t` may log after the acquisition that starts its step -/
def okEv (t : Nat) : Ev K V → Prop
  | .acq _ _ => False
  | .rel t' _ => t' = t
  | _ => True

def OnlyRel (t : Nat) (new : List (Ev K V)) : Prop := ∀ e ∈ new, okEv t e

theorem upd_other {t t' : Nat} (hne : t' ≠ t) (e : Ev K V) (he : okEv t e) (h : List Lk) : upd t' e h = h := by
  cases e with
  | acq t1 l => exact he.elim
  | rel t1 l =>
    have : t1 = t := he
    have hne' : ¬ t1 = t' := by rw [this]; exact fun e => hne e.symm
    simp [upd, hne']
  | note t1 n => rfl
  | dec t1 en => rfl

theorem upd_le {t t' : Nat} (e : Ev K V) (he : okEv t e) (h : List Lk) : (upd t' e h).length ≤ h.length := by
  cases e with
  | acq t1 l => exact he.elim
  | rel t1 l =>
    simp only [upd]
    split
    · exact List.length_erase_le
    · exact Nat.le_refl _
  | note t1 n => exact Nat.le_refl _
  | dec t1 en => exact Nat.le_refl _

theorem replay_other {t t' : Nat} (hne : t' ≠ t) : ∀ (new : List (Ev K V)), OnlyRel t new → ∀ h, replay t' new h = h := by
  intro new
  induction new with
  | nil => intro _ h; rfl
  | cons e new ih =>
    intro ho h
    show upd t' e (replay t' new h) = h
    rw [ih (fun e he => ho e (List.mem_cons_of_mem _ he)), upd_other hne e (ho e (List.mem_cons_self ..))]

theorem replay_le {t t' : Nat} : ∀ (new : List (Ev K V)), OnlyRel t new → ∀ h, (replay t' new h).length ≤ h.length := by
  intro new
  induction new with
  | nil => intro _ h; exact Nat.le_refl _
  | cons e new ih =>
    intro ho h
    show (upd t' e (replay t' new h)).length ≤ h.length
    exact Nat.le_trans (upd_le e (ho e (List.mem_cons_self ..)) _)
      (ih (fun e he => ho e (List.mem_cons_of_mem _ he)) h)

/-- releases (of anybody) on top of a bounded log keep it bounded -/
theorem bnd_append {t t' : Nat} : ∀ (new base : List (Ev K V)), OnlyRel t new → Bnd t' base → Bnd t' (new ++ base) := by
  intro new
  induction new with
  | nil => intro base _ hb; exact hb
  | cons e new ih =>
    intro base ho hb
    refine ⟨?_, ih base (fun e he => ho e (List.mem_cons_of_mem _ he)) hb⟩
    show (heldNow t' ((e :: new) ++ base)).length ≤ 3
    rw [heldNow_append]
    exact Nat.le_trans (replay_le _ ho _) (bnd_len t' base hb)

/-! ### the log mirrors the held list -/

/-- `s'` is obtained from `s` by releases of thread `t`, each logged as it happens -/
def RelM (t : Nat) (s s' : St K V) : Prop :=
  ∃ new, s'.evs = new ++ s.evs ∧ OnlyRel t new ∧ s'.held = replay t new s.held

theorem RelM.refl (t : Nat) (s : St K V) : RelM t s s :=
  ⟨[], rfl, fun _ h => by simp at h, rfl⟩

theorem RelM.of_eq {t : Nat} {s s1 s' : St K V} (h : RelM t s s1)
    (he : s'.evs = s1.evs) (hh : s'.held = s1.held) : RelM t s s' := by
  obtain ⟨new, h1, h2, h3⟩ := h
  exact ⟨new, by rw [he, h1], h2, by rw [hh, h3]⟩

theorem RelM.rel {t : Nat} {s s1 : St K V} (l : Lk) (h : RelM t s s1) : RelM t s (s1.rel t l) := by
  obtain ⟨new, h1, h2, h3⟩ := h
  refine ⟨Ev.rel t l :: new, ?_, ?_, ?_⟩
  · show Ev.rel t l :: s1.evs = _
    rw [h1]; rfl
  · intro e he
    rcases List.mem_cons.mp he with rfl | he
    · exact rfl
    · exact h2 e he
  · show s1.held.erase l = upd t (Ev.rel t l : Ev K V) (replay t new s.held)
    rw [h3]; simp [upd]

theorem RelM.note {t : Nat} {s s1 : St K V} (n : Note K V) (h : RelM t s s1) : RelM t s (s1.note t n) := by
  obtain ⟨new, h1, h2, h3⟩ := h
  refine ⟨Ev.note t n :: new, ?_, ?_, ?_⟩
  · show Ev.note t n :: s1.evs = _
    rw [h1]; rfl
  · intro e he
    rcases List.mem_cons.mp he with rfl | he
    · exact True.intro
    · exact h2 e he
  · exact h3

theorem RelM.trans {t : Nat} {s s1 s2 : St K V} (h1 : RelM t s s1) (h2 : RelM t s1 s2) : RelM t s s2 := by
  obtain ⟨n1, a1, b1, c1⟩ := h1
  obtain ⟨n2, a2, b2, c2⟩ := h2
  refine ⟨n2 ++ n1, ?_, ?_, ?_⟩
  · rw [a2, a1, List.append_assoc]
  · intro e he
    rcases List.mem_append.mp he with he | he
    · exact b2 e he
    · exact b1 e he
  · rw [c2, c1, replay_append]

theorem RelM.relOpt {t : Nat} {s s1 : St K V} (o : Option Nat) (h : RelM t s s1) : RelM t s (relOpt t s1 o) := by
  cases o with
  | none => exact h
  | some r => exact h.rel _

theorem RelM.setTree {t : Nat} {s s1 : St K V} (tr : Tree K V) (h : RelM t s s1) :
    RelM t s { s1 with tree := tr } := h.of_eq rfl rfl

theorem RelM.setCursor {t : Nat} {s s1 : St K V} (c : Option (Option Nat × Int)) (e : Bool)
    (h : RelM t s s1) : RelM t s { s1 with cursor := c, exhausted := e } := h.of_eq rfl rfl

theorem RelM.setCursor' {t : Nat} {s s1 : St K V} (c : Option (Option Nat × Int))
    (h : RelM t s s1) : RelM t s { s1 with cursor := c } := h.of_eq rfl rfl

/-- closes goals `RelM t s <term built from s by rel / note / record updates>` -/
macro "relm" : tactic => `(tactic| repeat (first
  | exact RelM.refl _ _
  | apply RelM.rel
  | apply RelM.note
  | apply RelM.relOpt
  | apply RelM.setTree
  | apply RelM.setCursor
  | apply RelM.setCursor'))

/-! ### the blocks (proof scripts of ConcOwner's `RelOnly` lemmas) -/

theorem roArrive_relm (P : Params K) (t : Nat) (s : St K V) (sc : Bool) (key : K) (hold : Lk) (n : Nat) :
    RelM t s (roArrive P t s sc key hold n).1 := by
  unfold roArrive
  simp only
  split
  · relm
  · split
    · split
      · relm
      · split
        · relm
        · relm
    · split
      · relm
      · split <;> relm

theorem upLeaf_relm (P : Params K) (t : Nat) (s : St K V) (key : K) (f : Option V → V) (y : Option Bool) (n : Nat)
    (l : Leaf K V) : RelM t s (upLeaf P t s key f y n l).1 := by
  unfold upLeaf
  split
  · relm
  · split
    · relm
    · relm
    · relm

theorem upContinue_relm (P : Params K) (t : Nat) (s : St K V) (key : K) (f : Option V → V) (y : Option Bool) (n : Nat) :
    RelM t s (upContinue P t s key f y n).1 := by
  unfold upContinue
  split
  · relm
  · split
    · exact upLeaf_relm P t s key f y n _
    · split
      · relm
      · simp only
        split <;> relm

theorem upChildArrive_relm (P : Params K) (t : Nat) (s : St K V) (key : K) (f : Option V → V) (y : Option Bool)
    (parent index child : Nat) : RelM t s (upChildArrive P t s key f y parent index child).1 := by
  unfold upChildArrive
  split
  · split
    · relm
    · split
      · relm
      · split
        · relm
        · refine RelM.trans ?_ (upContinue_relm P t _ key f y child)
          relm
        · split
          · split
            · relm
            · refine RelM.trans ?_ (upContinue_relm P t _ key f y child)
              relm
          · relm
  · relm

theorem upRootArrive_relm (P : Params K) (t : Nat) (s : St K V) (key : K) (f : Option V → V) (y : Option Bool)
    (root : Nat) : RelM t s (upRootArrive P t s key f y root).1 := by
  unfold upRootArrive
  simp only
  split
  · relm
  · refine RelM.trans ?_ (upContinue_relm P t _ key f y root)
    relm
  · split
    · split
      · relm
      · refine RelM.trans ?_ (upContinue_relm P t _ key f y root)
        relm
    · relm

theorem frameUnlock_relm (t : Nat) (s : St K V) (fr : Frame) (right : Option Nat) :
    RelM t s (frameUnlock t s fr right) := by
  unfold frameUnlock
  exact RelM.relOpt _ (RelM.rel _ (RelM.relOpt _ (RelM.refl t s)))

theorem delFinish_relm (t : Nat) (s : St K V) (small : Bool) (root : Nat) :
    RelM t s (delFinish t s small root).1 := by
  unfold delFinish
  simp only
  split
  · relm
  · split
    · relm
    · relm

theorem delUnwind_relm (P : Params K) (t : Nat) (key : K) (root : Nat) :
    ∀ (frames : List Frame) (s : St K V) (small : Bool), RelM t s (delUnwind P t s key frames small root).1 := by
  intro frames
  induction frames with
  | nil => intro s small; unfold delUnwind; exact delFinish_relm t s small root
  | cons fr rest ih =>
    intro s small
    unfold delUnwind
    split
    · exact (frameUnlock_relm t s fr none).trans (ih _ false)
    · split
      · split
        · split <;> relm
        · split
          · relm
          · split
            · relm
            · rename_i i' small' _
              refine RelM.trans ?_ (ih _ small')
              refine RelM.trans ?_ (frameUnlock_relm t _ fr none)
              relm
      · relm

theorem delRightArrive_relm (P : Params K) (t : Nat) (s : St K V) (key : K) (rest : List Frame) (fr : Frame)
    (right root : Nat) : RelM t s (delRightArrive P t s key rest fr right root).1 := by
  unfold delRightArrive
  split
  · split
    · relm
    · split
      · relm
      · rename_i i' small' _
        refine RelM.trans ?_ (delUnwind_relm P t key root rest _ small')
        refine RelM.trans ?_ (frameUnlock_relm t _ fr (some right))
        relm
  · relm

theorem delGo_relm (P : Params K) (t : Nat) (s : St K V) (key : K) (frames : List Frame) (n root : Nat) :
    RelM t s (delGo P t s key frames n root).1 := by
  unfold delGo
  have henter : RelM t s (delEnter P t s key frames n root).1 := by
    unfold delEnter
    split
    · relm
    · split
      · split
        · relm
        · relm
      · split
        · relm
        · simp only
          split
          · split <;> relm
          · split <;> relm
  split
  · rename_i s1 fl heq
    rw [heq] at henter; exact henter
  · rename_i s1 fl frames' small heq
    rw [heq] at henter
    exact henter.trans (delUnwind_relm P t key root frames' s1 small)


theorem resume_relm (P : Params K) (t : Nat) (s : St K V) (k : Kont K V) :
    match kontLock k with
    | some l => RelM t (s.acq t l) (resume P t s k).1
    | none => RelM t s (resume P t s k).1 := by
  cases k with
  | roTree sc key => simp only [kontLock, resume]; relm
  | roNode sc key hold want => simp only [kontLock, resume]; exact roArrive_relm P t _ sc key hold want
  | upTree key f y => simp only [kontLock, resume]; relm
  | upRoot key f y r => simp only [kontLock, resume]; exact upRootArrive_relm P t _ key f y r
  | upRootSib key f y root sib =>
    simp only [kontLock, resume]
    refine RelM.trans ?_ (upContinue_relm P t _ key f y sib)
    relm
  | upChild key f y parent index child =>
    simp only [kontLock, resume]; exact upChildArrive_relm P t _ key f y parent index child
  | upSib key f y parent child sib =>
    simp only [kontLock, resume]
    refine RelM.trans ?_ (upContinue_relm P t _ key f y sib)
    relm
  | upCallback key f leaf arg =>
    simp only [kontLock, resume]
    split
    · split
      · split <;> relm
      · relm
    · relm
  | delTree key => simp only [kontLock, resume]; relm
  | delRoot key r => simp only [kontLock, resume]; exact delGo_relm P t _ key [] r r
  | delLeft key frames node index left root =>
    simp only [kontLock, resume]
    split
    · split <;> relm
    · relm
  | delChild key frames node index left child root =>
    simp only [kontLock, resume]; exact delGo_relm P t _ key _ child root
  | delRight key rest fr right root =>
    simp only [kontLock, resume]; exact delRightArrive_relm P t _ key rest fr right root
  | hop cur next => simp only [kontLock, resume]; relm
  | paused => simp only [kontLock, resume]; relm

theorem startOp_relm (t : Nat) (s : St K V) (op : COp K V) : RelM t s (startOp t s op).1 := by
  cases op with
  | ins k v => simp only [startOp]; split <;> relm
  | upd k f y => simp only [startOp]; split <;> relm
  | del k => simp only [startOp]; split <;> relm
  | get k => simp only [startOp]; split <;> relm
  | ns k => simp only [startOp]; split <;> relm
  | pause => simp only [startOp]; relm
  | scan =>
    simp only [startOp]
    split
    · split
      · relm
      · split
        · split <;> relm
        · relm
    · relm
  | pair =>
    simp only [startOp]
    split
    · split
      · relm
      · split
        · relm
        · split <;> relm
    · relm
  | close =>
    simp only [startOp]
    split
    · relm
    · rename_i leaf? i _
      cases leaf? <;> relm

theorem threadLoop_relm (t : Nat) (th : Thread K V) :
    ∀ (fuel : Nat) (s : St K V) (fl : Flow K V) (pc : Nat),
      RelM t s (threadLoop t th fuel s fl pc).2.1 ∧
      (threadLoop t th fuel s fl pc).1.held = (threadLoop t th fuel s fl pc).2.1.held := by
  intro fuel
  induction fuel with
  | zero =>
    intro s fl pc
    cases fl with
    | panic => refine ⟨?_, rfl⟩; simp only [threadLoop]; relm
    | park p => refine ⟨?_, rfl⟩; simp only [threadLoop]; relm
    | done r => refine ⟨?_, rfl⟩; simp only [threadLoop]; relm
  | succ fuel ih =>
    intro s fl pc
    cases fl with
    | panic => refine ⟨?_, rfl⟩; simp only [threadLoop]; relm
    | park p => refine ⟨?_, rfl⟩; simp only [threadLoop]; relm
    | done r =>
      unfold threadLoop
      cases hop : th.prog[pc + 1]? with
      | none => refine ⟨?_, rfl⟩; relm
      | some op =>
        obtain ⟨h1, h2⟩ := ih (startOp t ((s.note t (.ret pc r)).note t (.inv (pc + 1))) op).1
          (startOp t ((s.note t (.ret pc r)).note t (.inv (pc + 1))) op).2 (pc + 1)
        refine ⟨RelM.trans ?_ h1, h2⟩
        refine RelM.trans ?_ (startOp_relm t _ op)
        relm

theorem runThread_relm (P : Params K) (t : Nat) (th : Thread K V) (s0 : St K V) (hpl : ParkLockOk th.park)
    (hen : th.park ≠ .finished) :
    (match th.park with
      | .want l _ => RelM t (s0.acq t l) (runThread P t th s0).2.1
      | _ => RelM t s0 (runThread P t th s0).2.1) ∧
    (runThread P t th s0).1.held = (runThread P t th s0).2.1.held ∨
    (th.park = .start ∧ th.prog[0]? = none ∧ (runThread P t th s0).2.1 = s0 ∧ (runThread P t th s0).1.held = th.held) := by
  unfold runThread
  cases hp : th.park with
  | start =>
    cases hop : th.prog[0]? with
    | none => right; exact ⟨rfl, rfl, rfl, rfl⟩
    | some op =>
      left
      simp only
      obtain ⟨h1, h2⟩ := threadLoop_relm t th th.prog.length (startOp t (s0.note t (.inv 0)) op).1
        (startOp t (s0.note t (.inv 0)) op).2 0
      refine ⟨RelM.trans ?_ h1, h2⟩
      refine RelM.trans ?_ (startOp_relm t _ op)
      relm
  | want l k =>
    left
    simp only
    rw [hp] at hpl
    have hk : kontLock k = some l := hpl
    have hr := resume_relm P t s0 k
    rw [hk] at hr
    obtain ⟨h1, h2⟩ := threadLoop_relm t th th.prog.length (resume P t s0 k).1 (resume P t s0 k).2 th.pc
    exact ⟨hr.trans h1, h2⟩
  | yielded k =>
    left
    simp only
    rw [hp] at hpl
    have hk : kontLock k = none := hpl
    have hr := resume_relm P t s0 k
    rw [hk] at hr
    obtain ⟨h1, h2⟩ := threadLoop_relm t th th.prog.length (resume P t s0 k).1 (resume P t s0 k).2 th.pc
    exact ⟨hr.trans h1, h2⟩
  | finished => exact absurd hp hen


/-! ### the configuration invariant -/

/-- the log replays to what each thread holds, and never showed more than three locks -/
def LogInv (c : Config K V) : Prop :=
  ∀ t, heldNow t c.log = heldOf c t ∧ Bnd t c.log

/-- no thread runs or will run a `Delete` -/
def NoDel (c : Config K V) : Prop :=
  ∀ th ∈ c.threads, (∀ op ∈ th.prog, op.isDel = false) ∧ isDelPark th.park = false

theorem nodel_step (c c' : Config K V) (t : Nat) (hs : c.step t = some c') (hn : NoDel c) : NoDel c' := by
  unfold Config.step at hs
  cases hth : c.threads[t]? with
  | none => simp [hth] at hs
  | some th =>
    simp only [hth] at hs
    split at hs
    · simp at hs
    · simp only [Option.some.injEq] at hs
      subst hs
      have hmem : th ∈ c.threads := List.mem_of_getElem? hth
      obtain ⟨hprog, hpark⟩ := hn th hmem
      obtain ⟨h1, h2⟩ := runThread_nodel c.P t th
        (St.mk c.tree c.owner th.held th.cursor th.exhausted (Ev.dec t c.enabledSet :: c.log)) hprog hpark
      intro th' hth'
      simp only at hth'
      rcases List.mem_or_eq_of_mem_set hth' with h | h
      · exact hn th' h
      · rw [h]; exact ⟨by rw [h2]; exact hprog, h1⟩

/-- what is held while waiting for the lock of a non-Delete continuation -/
theorem held_le_two (cur : Option (Option Nat × Int)) (k : Kont K V) (hk : isDelK k = false)
    (hpre : KontPre cur k) : (cursorLocks cur ++ kontHeld k).length ≤ 2 := by
  have hcl : (cursorLocks cur).length ≤ 1 := by
    unfold cursorLocks; split <;> simp
  cases k <;> simp_all [isDelK, KontPre, kontHeld] <;> omega

/-- assembling a step: the stepping thread `t0` logged `new` (releases only) on top of `base` -/
theorem loginv_of (c c' : Config K V) (t0 : Nat) (th th' : Thread K V) (new base : List (Ev K V))
    (hth : c.threads[t0]? = some th) (hthreads : c'.threads = c.threads.set t0 th')
    (hlog : c'.log = new ++ base) (hor : OnlyRel t0 new)
    (hheld : th'.held = replay t0 new (heldNow t0 base))
    (hb : ∀ t, Bnd t base) (hne : ∀ t, t ≠ t0 → heldNow t base = heldOf c t) : LogInv c' := by
  intro t
  refine ⟨?_, by rw [hlog]; exact bnd_append new base hor (hb t)⟩
  rw [hlog, heldNow_append]
  by_cases ht : t = t0
  · subst ht
    rw [heldOf_set_same c c' t th th' hth hthreads, hheld]
  · rw [replay_other ht new hor, hne t ht, heldOf_set_other c c' t0 t th' ht hthreads]

theorem loginv_step (c c' : Config K V) (t0 : Nat) (hs : c.step t0 = some c') (hok : ConfigOk c)
    (hn : NoDel c) (hinv : LogInv c) : LogInv c' := by
  unfold Config.step at hs
  cases hth : c.threads[t0]? with
  | none => simp [hth] at hs
  | some th =>
    simp only [hth] at hs
    split at hs
    · simp at hs
    · rename_i hen
      simp only [Option.some.injEq] at hs
      have hmem : th ∈ c.threads := List.mem_of_getElem? hth
      obtain ⟨hperm, hpre, hpl⟩ := hok th hmem
      obtain ⟨_, hndp⟩ := hn th hmem
      have hheld0 : heldOf c t0 = th.held := by unfold heldOf; rw [hth]
      have hnow0 : heldNow t0 c.log = th.held := by rw [(hinv t0).1, hheld0]
      have hnf : th.park ≠ .finished := by
        intro e; simp [Thread.enabled, e] at hen
      generalize hs0 : (St.mk c.tree c.owner th.held th.cursor th.exhausted (Ev.dec t0 c.enabledSet :: c.log) : St K V) = s0 at hs
      have hs0e : s0.evs = Ev.dec t0 c.enabledSet :: c.log := by rw [← hs0]
      have hs0h : s0.held = th.held := by rw [← hs0]
      -- the log up to the scheduler's decision
      have hdecnow : ∀ t, heldNow t (Ev.dec t0 c.enabledSet :: c.log) = heldNow t c.log := fun _ => rfl
      have hdecb : ∀ t, Bnd t (Ev.dec t0 c.enabledSet :: c.log) := by
        intro t
        exact ⟨by rw [hdecnow]; exact bnd_len t _ (hinv t).2, (hinv t).2⟩
      subst hs
      rcases runThread_relm c.P t0 th s0 hpl hnf with ⟨hrel, hheld⟩ | ⟨_, _, hsame, hheld⟩
      · cases hp : th.park with
        | want l k =>
          rw [hp] at hrel hperm hpre hndp
          simp only at hrel
          obtain ⟨new, h1, h2, h3⟩ := hrel
          have hle : th.held.length ≤ 2 := by
            rw [hperm.length_eq]
            exact held_le_two th.cursor k hndp hpre
          refine loginv_of c _ t0 th _ new (Ev.acq t0 l :: Ev.dec t0 c.enabledSet :: c.log) hth rfl ?_ h2 ?_ ?_ ?_
          · show (runThread c.P t0 th s0).2.1.evs = _
            rw [h1]; show new ++ (Ev.acq t0 l :: s0.evs) = _; rw [hs0e]
          · rw [hheld, h3]
            show replay t0 new (s0.held ++ [l]) = replay t0 new (upd t0 (Ev.acq t0 l : Ev K V) (heldNow t0 c.log))
            rw [hs0h, hnow0]; simp [upd]
          · intro t
            refine ⟨?_, hdecb t⟩
            show (upd t (Ev.acq t0 l : Ev K V) (heldNow t c.log)).length ≤ 3
            by_cases ht : t0 = t
            · subst ht
              simp only [upd, if_true, hnow0, List.length_append, List.length_singleton]
              omega
            · simp only [upd, ht, if_false]
              exact bnd_len t _ (hinv t).2
          · intro t ht
            show upd t (Ev.acq t0 l : Ev K V) (heldNow t c.log) = _
            have : ¬ t0 = t := fun e => ht e.symm
            simp only [upd, this, if_false]
            exact (hinv t).1
        | start =>
          rw [hp] at hrel
          simp only at hrel
          obtain ⟨new, h1, h2, h3⟩ := hrel
          refine loginv_of c _ t0 th _ new (Ev.dec t0 c.enabledSet :: c.log) hth rfl ?_ h2 ?_ hdecb ?_
          · show (runThread c.P t0 th s0).2.1.evs = _
            rw [h1, hs0e]
          · rw [hheld, h3, hs0h, hdecnow, hnow0]
          · intro t _; rw [hdecnow]; exact (hinv t).1
        | yielded k =>
          rw [hp] at hrel
          simp only at hrel
          obtain ⟨new, h1, h2, h3⟩ := hrel
          refine loginv_of c _ t0 th _ new (Ev.dec t0 c.enabledSet :: c.log) hth rfl ?_ h2 ?_ hdecb ?_
          · show (runThread c.P t0 th s0).2.1.evs = _
            rw [h1, hs0e]
          · rw [hheld, h3, hs0h, hdecnow, hnow0]
          · intro t _; rw [hdecnow]; exact (hinv t).1
        | finished => exact absurd hp hnf
      · refine loginv_of c _ t0 th _ [] (Ev.dec t0 c.enabledSet :: c.log) hth rfl ?_ (fun _ h => by simp at h) ?_ hdecb ?_
        · show (runThread c.P t0 th s0).2.1.evs = _
          rw [hsame, hs0e]; rfl
        · rw [hheld, hdecnow, hnow0]; rfl
        · intro t _; rw [hdecnow]; exact (hinv t).1

theorem init_loginv (P : Params K) (tree : Tree K V) (progs : List (List (COp K V))) :
    LogInv (Config.init P tree progs) := by
  intro t
  refine ⟨?_, True.intro⟩
  show ([] : List Lk) = heldOf (Config.init P tree progs) t
  unfold heldOf
  cases h : (Config.init P tree progs).threads[t]? with
  | none => rfl
  | some th =>
    have hm := List.mem_of_getElem? h
    simp only [Config.init, List.mem_map] at hm
    obtain ⟨p, _, rfl⟩ := hm
    rfl

theorem init_nodel (P : Params K) (tree : Tree K V) (progs : List (List (COp K V)))
    (hnd : ∀ p ∈ progs, ∀ op ∈ p, match op with | .del _ => False | _ => True) :
    NoDel (Config.init P tree progs) := by
  intro th hth
  simp only [Config.init, List.mem_map] at hth
  obtain ⟨p, hp, rfl⟩ := hth
  refine ⟨?_, rfl⟩
  intro op hop
  have := hnd p hp op hop
  cases op <;> first | rfl | exact this.elim

theorem reachable_nodel (c0 c : Config K V) (h0 : NoDel c0) (hr : Reachable c0 c) : NoDel c := by
  induction hr with
  | refl => exact h0
  | @step c1 c2 t _ hs ih => exact nodel_step c1 c2 t hs ih

theorem reachable_loginv (c0 c : Config K V) (h0 : ConfigOk c0) (hn0 : NoDel c0) (hl0 : LogInv c0)
    (hr : Reachable c0 c) (hd : c.dead = false) : LogInv c := by
  induction hr with
  | refl => exact hl0
  | @step c1 c2 t hr1 hs ih =>
    have hd1 := step_dead c1 c2 t hs hd
    exact loginv_step c1 c2 t hs (reachable_ok c0 c1 h0 hr1 hd1) (reachable_nodel c0 c1 hn0 hr1) (ih hd1)

/-- **C10 on the event log ("at every instant").** In every reachable configuration in which
    no thread has panicked, of programs without `Delete`, the replay of any thread's lock
    events never shows more than three locks held at once. -/
theorem every_instant (P : Params K) (tree : Tree K V) (progs : List (List (COp K V)))
    (hnd : ∀ p ∈ progs, ∀ op ∈ p, match op with | .del _ => False | _ => True)
    (c : Config K V) (hr : Reachable (Config.init P tree progs) c) (hd : c.dead = false) :
    ∀ t, ∀ h ∈ heldTrace t c.log.reverse [], h.length ≤ 3 := by
  intro t
  have hinv := reachable_loginv _ c (init_ok P tree progs) (init_nodel P tree progs hnd)
    (init_loginv P tree progs) hr hd
  exact trace_bound t c.log (hinv t).2

/-- the statement left open in `Props/C10.lean` -/
theorem C10_every_instant : C10_every_instant_statement := by
  intro P tree progs c hnd hr hd
  refine every_instant P tree progs ?_ c hr hd
  intro p hp op hop
  have := hnd p hp op hop
  cases op <;> first | exact True.intro | exact this

end Gobptree.Conc
