/-
  The client-visible history of a configuration of the small-step model, as a history of
  invocations and responses of MAP operations (Insert/Update/Delete/Search).  Cursor calls
  and pauses are not map operations and leave no event.  An Update's response carries the
  argument its callback was invoked with (the thread's last `cb` note): that is what the
  specification's `Out.callback` is compared with.
-/
import Gobptree.Proofs.LinPoints
import Gobptree.Proofs.CKReach

namespace Gobptree.Conc
open Gobptree

variable {K V : Type}

/-- the map operation a client call stands for -/
def opOf : COp K V → Option (Op K V)
  | .ins k v => some (.insert k v)
  | .upd k f _ => some (.update k f)
  | .del k => some (.delete k)
  | .get k => some (.search k)
  | _ => none

/-- the response a `ret` note stands for; `cb` is the argument of the thread's last callback -/
def outOf (op : COp K V) (r : Res K V) (cb : Option (Option V)) : Option (Out V) :=
  match op, r with
  | .ins _ _, .ok => some .done
  | .del _, .ok => some .done
  | .get _, .found v => some (.found v)
  | .upd _ _ _, .ok => cb.map Out.callback
  | _, _ => none

/-- state of the extraction: the history so far and, per thread, its last callback argument -/
structure HxSt (K V : Type) where
  evs : List (Lin.HEv K V)
  cb  : Nat → Option (Option V)

def hxStep (progs : Nat → List (COp K V)) (st : HxSt K V) : Ev K V → HxSt K V
  | .note t (.inv idx) =>
    match ((progs t)[idx]?).bind opOf with
    | some op => { st with evs := st.evs ++ [.inv t idx op] }
    | none => st
  | .note t (.cb arg) => { st with cb := fun t' => if t' = t then some arg else st.cb t' }
  | .note t (.ret idx r) =>
    match (progs t)[idx]? with
    | some op =>
      match outOf op r (st.cb t) with
      | some out => { st with evs := st.evs ++ [.ret t idx out] }
      | none => st
    | none => st
  | _ => st

def progOf (c : Config K V) (t : Nat) : List (COp K V) := ((c.threads[t]?).map (·.prog)).getD []

/-- the history of map operations recorded in the log (the log is kept newest first) -/
def hxRun (c : Config K V) : HxSt K V := c.log.reverse.foldl (hxStep (progOf c)) ⟨[], fun _ => none⟩

def history (c : Config K V) : List (Lin.HEv K V) := (hxRun c).evs

end Gobptree.Conc
