/-
  Progress measure of a parked thread (variant argument for "every operation eventually
  returns"): definitions and the facts about heights it rests on.

  The measure of a park is computed from the tree and the thread's OWN continuation only,
  and only from data the thread's held mutexes protect:
    * the height (`hgt`) of a node the thread HOLDS (its own fields cannot be rewritten by
      anybody else, `StepFrame.nodes`), or
    * the depth of the tree while the thread holds `rootMutex` (`StepFrame.root`), or
    * the number of pending `deleteKey` activations (Delete holds `rootMutex` throughout).
  Hence steps of other threads leave it unchanged, with the single exception of the very
  first park of an operation, `want .tree _` (nothing is held yet, the depth may grow).
-/
import Gobptree.Proofs.CSFinal

namespace Gobptree.Conc
open Gobptree

variable {K V : Type}

/-- height of the node with identity `id` (0 if there is no such node) -/
def hgt (t : Tree K V) (id : Nat) : Nat :=
  match t.look id with
  | some sh => sh.height
  | none => 0

/-- the variant: an upper bound on the number of own steps the current operation still takes
    before it returns -/
def kMeasure (t : Tree K V) : Kont K V → Nat
  | .roTree _ _ => 3 * t.depth + 6
  | .roNode _ _ hold _ =>
    match hold with
    | .tree => 3 * t.depth + 5
    | .node p => 3 * hgt t p
  | .upTree _ _ _ => 3 * t.depth + 6
  | .upRoot _ _ _ _ => 3 * t.depth + 5
  | .upRootSib _ _ _ root _ => 3 * hgt t root + 4
  | .upChild _ _ _ parent _ _ => 3 * hgt t parent
  | .upSib _ _ _ _ child _ => 3 * hgt t child + 2
  | .upCallback _ _ _ _ => 0
  | .delTree _ => 3 * t.depth + 6
  | .delRoot _ _ => 3 * t.depth + 5
  | .delLeft _ frames _ _ _ _ => t.depth + 2 + 2 * (t.depth - frames.length) + 1
  | .delChild _ frames _ _ _ _ _ => t.depth + 2 + 2 * (t.depth - frames.length)
  | .delRight _ rest _ _ _ => rest.length + 1
  | .hop _ _ => 0
  | .paused => 0

def opMeasure (t : Tree K V) : Park K V → Nat
  | .want _ k => kMeasure t k
  | .yielded k => kMeasure t k
  | _ => 0

/-! ### heights -/

theorem hgt_of_look {t : Tree K V} {id : Nat} {sh : Shallow K V} (h : t.look id = some sh) :
    hgt t id = sh.height := by
  unfold hgt; rw [h]

theorem hgt_congr {t t' : Tree K V} {id : Nat} (h : t'.look id = t.look id) : hgt t' id = hgt t id := by
  unfold hgt; rw [h]

theorem hgt_le_depth (t : Tree K V) (id : Nat) : hgt t id ≤ t.depth := by
  unfold hgt
  cases h : t.look id with
  | none => exact Nat.zero_le _
  | some sh => exact look_height_le h

theorem hgt_root {t : Tree K V} (hi : IdsOk t) : hgt t t.rootId = t.depth := by
  rw [hgt_of_look (look_root hi), shallow_height]

theorem hgt_kid {t : Tree K V} (hi : IdsOk t) {p j c : Nat} (h : t.kidAt p j = some c) :
    hgt t c + 1 = hgt t p := by
  obtain ⟨sh, hp, _⟩ := kidAt_look h
  obtain ⟨shc, hc, hh⟩ := kid_look hi h hp
  rw [hgt_of_look hp, hgt_of_look hc, hh]

theorem hgt_find {t : Tree K V} {id d : Nat} {m : Node K V d} (h : t.find id = some ⟨d, m⟩) :
    hgt t id = d := by
  have : t.look id = some (shallow m) := by rw [look_eq_find, h]; rfl
  rw [hgt_of_look this, shallow_height]

theorem nodup_mid {α : Type} {A B C : List α} (h : (A ++ B ++ C).Nodup) {x : α} (hx : x ∈ B) :
    x ∉ A ∧ x ∉ C := by
  have h1 := List.nodup_append.1 h
  have h2 := List.nodup_append.1 h1.1
  exact ⟨fun ha => h2.2.2 x ha x hx rfl, fun hc => h1.2.2 x (List.mem_append_right _ hx) x hc rfl⟩

/-- after an inner node `p` (of height `d + 1`) has been written back, everything that was
    strictly below `p` is at height at most `d` (if it still exists) -/
theorem hgt_putInner_le {t : Tree K V} {d : Nat} {p : Node K V (d + 1)} (p' : Inner K (Node K V d))
    (hfind : t.find p'.id = some ⟨d + 1, p⟩) (hn : t.ids.Nodup) {x : Nat}
    (hx : x ∈ (ftail p).map Prod.fst) : hgt (putInner t p') x ≤ d := by
  obtain ⟨L, R, hf, hf', _⟩ := putInner_flat p' hfind hn
  have hpid : Node.id p = p'.id := (Tree.find_modify hfind).1
  unfold hgt
  cases hl : (putInner t p').look x with
  | none => exact Nat.zero_le _
  | some sh =>
    simp only
    have hm := look_mem hl
    rw [hf'] at hm
    have hnd : ((L.map Prod.fst ++ [Node.id p]) ++ (ftail p).map Prod.fst ++ R.map Prod.fst).Nodup := by
      have : t.ids.Nodup := hn
      unfold Tree.ids at this
      rw [hf, flat_eq_cons p] at this
      simpa [List.map_append, List.append_assoc] using this
    obtain ⟨hA, hC⟩ := nodup_mid hnd hx
    rcases List.mem_append.1 hm with hm | hm
    · rcases List.mem_append.1 hm with hm | hm
      · exact absurd (List.mem_append_left _ (List.mem_map.2 ⟨(x, sh), hm, rfl⟩)) hA
      · rw [flat_inner p'] at hm
        rcases List.mem_cons.1 hm with e | hm
        · exfalso
          apply hA
          apply List.mem_append_right
          have : x = p'.id := congrArg Prod.fst e
          rw [hpid, this]; simp
        · obtain ⟨k, _, hk⟩ := List.mem_flatMap.1 hm
          exact flat_height_le k _ hk
    · exact absurd (List.mem_map.2 ⟨(x, sh), hm, rfl⟩) hC

/-- below a freshly built root everything is at height at most the old depth -/
theorem hgt_newRoot_le (o : Nat) {d : Nat} (i : Inner K (Node K V d)) (nid : Nat) {x : Nat} (hx : x ≠ i.id) :
    hgt ({ order := o, depth := d + 1, root := i, nextId := nid } : Tree K V) x ≤ d := by
  unfold hgt
  cases hl : Tree.look ({ order := o, depth := d + 1, root := i, nextId := nid } : Tree K V) x with
  | none => exact Nat.zero_le _
  | some sh =>
    simp only
    have hm : (x, sh) ∈ flat (d := d + 1) i := look_mem hl
    rw [flat_inner i] at hm
    rcases List.mem_cons.1 hm with e | hm
    · exact absurd (congrArg Prod.fst e) hx
    · obtain ⟨k, _, hk⟩ := List.mem_flatMap.1 hm
      exact flat_height_le k _ hk

/-- the activation records of a Delete count the levels between the root and the node the
    innermost activation runs on -/
theorem frames_len {t : Tree K V} (hi : IdsOk t) :
    ∀ (frames : List Frame) (top : Nat), FramesOk t t.rootId frames top →
      hgt t top + frames.length = t.depth := by
  intro frames
  induction frames with
  | nil =>
    intro top h
    simp only [FramesOk] at h
    subst h
    simp [hgt_root hi]
  | cons fr rest ih =>
    intro top h
    obtain ⟨htop, hfr, hrest⟩ := h
    have h1 := ih fr.node hrest
    have h2 := hgt_kid hi hfr.1
    subst htop
    simp only [List.length_cons]
    omega

/-! ### the outcome of a block, measured -/

/-- if the flow is a park, its measure in tree `T` is below `B` -/
def flowLt (T : Tree K V) (B : Nat) : Flow K V → Prop
  | .park p => opMeasure T p < B
  | _ => True

def OutLt (B : Nat) (r : St K V × Flow K V) : Prop := flowLt r.1.tree B r.2

theorem flowLt.mono {T : Tree K V} {B B' : Nat} {fl : Flow K V} (h : flowLt T B fl) (hle : B ≤ B') : flowLt T B' fl := by
  cases fl with
  | park p => exact Nat.lt_of_lt_of_le h hle
  | done r => trivial
  | panic => trivial

theorem OutLt.mono {B B' : Nat} {r : St K V × Flow K V} (h : OutLt B r) (hle : B ≤ B') : OutLt B' r :=
  flowLt.mono h hle

theorem OutLt.park {B : Nat} {r : St K V × Flow K V} (h : OutLt B r) {p : Park K V} (hp : r.2 = .park p) :
    opMeasure r.1.tree p < B := by
  unfold OutLt at h
  rw [hp] at h
  exact h

end Gobptree.Conc
