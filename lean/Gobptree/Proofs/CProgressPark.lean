/-
  Within an operation a thread never returns to the first park `want .tree _`: every block
  of Conc.lean that ends in a park parks at a node's mutex or at a yield.  (Only `startOp`
  parks at `rootMutex`.)  Read off every block, as in CSParkKind.
-/
import Gobptree.Proofs.CProgressDefs

namespace Gobptree.Conc
open Gobptree

variable {K V : Type}

def lkIsTree : Lk → Bool
  | .tree => true
  | .node _ => false

/-- a park inside an operation, past the acquisition of `rootMutex` -/
def parkNT : Park K V → Bool
  | .want l _ => !lkIsTree l
  | .yielded _ => true
  | _ => false

def flowNT : Flow K V → Bool
  | .park p => parkNT p
  | _ => true

theorem parkNT_spec {p : Park K V} (h : parkNT p = true) :
    parkWant p ≠ some Lk.tree ∧ p ≠ .start ∧ p ≠ .finished := by
  cases p with
  | start => cases h
  | finished => cases h
  | yielded k => exact ⟨(fun e => by cases e), (fun e => by cases e), (fun e => by cases e)⟩
  | want l k =>
    cases l with
    | tree => cases h
    | node n => exact ⟨(fun e => by cases e), (fun e => by cases e), (fun e => by cases e)⟩

theorem roArrive_nt (P : Params K) (t : Nat) (s : St K V) (sc : Bool) (key : K) (hold : Lk) (n : Nat) :
    flowNT (roArrive P t s sc key hold n).2 = true := by
  unfold roArrive
  simp only
  split
  · rfl
  · split
    · split
      · rfl
      · split
        · rfl
        · rfl
    · split
      · rfl
      · split <;> rfl

theorem upLeaf_nt (P : Params K) (t : Nat) (s : St K V) (key : K) (f : Option V → V) (y : Option Bool) (n : Nat)
    (l : Leaf K V) : flowNT (upLeaf P t s key f y n l).2 = true := by
  unfold upLeaf
  split
  · rfl
  · split
    · rfl
    · rfl
    · rfl

theorem upContinue_nt (P : Params K) (t : Nat) (s : St K V) (key : K) (f : Option V → V) (y : Option Bool) (n : Nat) :
    flowNT (upContinue P t s key f y n).2 = true := by
  unfold upContinue
  split
  · rfl
  · split
    · exact upLeaf_nt P t s key f y n _
    · split
      · rfl
      · simp only
        split <;> rfl

theorem upChildArrive_nt (P : Params K) (t : Nat) (s : St K V) (key : K) (f : Option V → V) (y : Option Bool)
    (parent index child : Nat) : flowNT (upChildArrive P t s key f y parent index child).2 = true := by
  unfold upChildArrive
  split
  · split
    · rfl
    · split
      · rfl
      · split
        · rfl
        · exact upContinue_nt P t _ key f y child
        · split
          · split
            · rfl
            · exact upContinue_nt P t _ key f y child
          · rfl
  · rfl

theorem upRootArrive_nt (P : Params K) (t : Nat) (s : St K V) (key : K) (f : Option V → V) (y : Option Bool)
    (root : Nat) : flowNT (upRootArrive P t s key f y root).2 = true := by
  unfold upRootArrive
  simp only
  split
  · rfl
  · exact upContinue_nt P t _ key f y root
  · split
    · split
      · rfl
      · exact upContinue_nt P t _ key f y root
    · rfl

theorem delFinish_nt (t : Nat) (s : St K V) (small : Bool) (root : Nat) :
    flowNT (delFinish t s small root).2 = true := by
  unfold delFinish
  rfl

theorem delUnwind_nt (P : Params K) (t : Nat) (key : K) (root : Nat) :
    ∀ (frames : List Frame) (s : St K V) (small : Bool), flowNT (delUnwind P t s key frames small root).2 = true := by
  intro frames
  induction frames with
  | nil => intro s small; unfold delUnwind; exact delFinish_nt t s small root
  | cons fr rest ih =>
    intro s small
    unfold delUnwind
    split
    · exact ih _ false
    · split
      · split
        · split <;> rfl
        · split
          · rfl
          · split
            · rfl
            · rename_i i' small' _
              exact ih _ small'
      · rfl

theorem delRightArrive_nt (P : Params K) (t : Nat) (s : St K V) (key : K) (rest : List Frame) (fr : Frame)
    (right root : Nat) : flowNT (delRightArrive P t s key rest fr right root).2 = true := by
  unfold delRightArrive
  split
  · split
    · rfl
    · split
      · rfl
      · rename_i i' small' _
        exact delUnwind_nt P t key root rest _ small'
  · rfl

theorem delGo_nt (P : Params K) (t : Nat) (s : St K V) (key : K) (frames : List Frame) (n root : Nat) :
    flowNT (delGo P t s key frames n root).2 = true := by
  unfold delGo
  have henter : flowNT (delEnter P t s key frames n root).2.1 = true := by
    unfold delEnter
    split
    · rfl
    · split
      · split
        · rfl
        · rfl
      · split
        · rfl
        · simp only
          split
          · split <;> rfl
          · split <;> rfl
  split
  · rename_i s1 fl heq
    rw [heq] at henter; exact henter
  · rename_i s1 fl frames' small heq
    exact delUnwind_nt P t key root frames' s1 small

/-- a resumed thread never parks at `rootMutex`, at `.start` or at `.finished` -/
theorem resume_nt (P : Params K) (t : Nat) (s : St K V) (k : Kont K V) : flowNT (resume P t s k).2 = true := by
  cases k with
  | roTree sc key => simp only [resume]; rfl
  | roNode sc key hold want => simp only [resume]; exact roArrive_nt P t _ sc key hold want
  | upTree key f y => simp only [resume]; rfl
  | upRoot key f y r => simp only [resume]; exact upRootArrive_nt P t _ key f y r
  | upRootSib key f y root sib => simp only [resume]; exact upContinue_nt P t _ key f y sib
  | upChild key f y parent index child =>
    simp only [resume]; exact upChildArrive_nt P t _ key f y parent index child
  | upSib key f y parent child sib => simp only [resume]; exact upContinue_nt P t _ key f y sib
  | upCallback key f leaf arg =>
    simp only [resume]
    split
    · split
      · split <;> rfl
      · rfl
    · rfl
  | delTree key => simp only [resume]; rfl
  | delRoot key r => simp only [resume]; exact delGo_nt P t _ key [] r r
  | delLeft key frames node index left root =>
    simp only [resume]
    split
    · split <;> rfl
    · rfl
  | delChild key frames node index left child root =>
    simp only [resume]; exact delGo_nt P t _ key _ child root
  | delRight key rest fr right root =>
    simp only [resume]; exact delRightArrive_nt P t _ key rest fr right root
  | hop cur next => simp only [resume]; rfl
  | paused => simp only [resume]; rfl

end Gobptree.Conc
