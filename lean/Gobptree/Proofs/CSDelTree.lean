/-
  Tree-level consequences of a local rewrite (`Rw`) of the flat view: the tree invariant
  with the hole moved, own fields of unwritten nodes, the activation records of a Delete.

  While a Delete unwinds, the hole may be the ROOT (an inner root left with one entry
  after a merge, just before the root collapse); `TreeOk'` is `TreeOk` with that case
  allowed.  At every park of the thread the hole is a non-root node (or absent), where
  the two coincide.
-/
import Gobptree.Proofs.CSDelList

namespace Gobptree.Conc
open Gobptree

variable {K V : Type}

/-! ### occupancy with a hole that may be the root -/

def minOf' (o rootId : Nat) (hole : Option Nat) (id height : Nat) : Nat :=
  if hole = some id then (if id = rootId then (if height = 0 then 0 else 1) else o / 2 - 1)
  else minOf o rootId none id height

theorem minOf'_none (o r id h : Nat) : minOf' o r none id h = minOf o r none id h := by
  simp [minOf']

theorem minOf'_of_ne {o r : Nat} {hole : Option Nat} {id : Nat} (h : Nat) (hne : hole ≠ some id) :
    minOf' o r hole id h = minOf o r none id h := by
  simp [minOf', hne]

theorem minOf'_le_none (o r : Nat) (hole : Option Nat) (id h : Nat) :
    minOf' o r hole id h ≤ minOf o r none id h := by
  unfold minOf' minOf
  by_cases h2 : id = r
  · subst h2
    by_cases h1 : hole = some id <;> by_cases h3 : h = 0 <;> simp [h1, h3]
  · by_cases h1 : hole = some id <;> simp [h1, h2]

theorem minOf'_le (o r : Nat) (hole : Option Nat) (id h : Nat) :
    minOf' o r hole id h ≤ minOf o r hole id h := by
  unfold minOf' minOf
  by_cases h2 : id = r
  · subst h2
    by_cases h1 : hole = some id <;> by_cases h3 : h = 0 <;> simp [h1, h3]
  · by_cases h1 : hole = some id <;> simp [h1, h2]

theorem minOf_le' {o r : Nat} {hole : Option Nat} (id h : Nat) (hr : ∀ c, hole = some c → c ≠ r) :
    minOf o r hole id h ≤ minOf' o r hole id h := by
  unfold minOf' minOf
  by_cases h1 : hole = some id
  · have h2 : id ≠ r := hr id h1
    simp [h1, h2]
  · by_cases h2 : id = r
    · subst h2; simp [h1]
    · simp [h1, h2]


def OccOk' (hole : Option Nat) (t : Tree K V) : Prop :=
  ∀ p ∈ t.flat, NodeOcc t.order (minOf' t.order t.rootId hole p.1 p.2.height) p.2

structure TreeOk' (hole : Option Nat) (t : Tree K V) : Prop where
  ids   : IdsOk t
  occ   : OccOk' hole t
  chain : ChainOk t
  order4 : 4 ≤ t.order
  even  : t.order % 2 = 0

theorem TreeOk.prime {hole : Option Nat} {t : Tree K V} (h : TreeOk hole t) (h4 : 4 ≤ t.order) :
    TreeOk' hole t :=
  ⟨h.ids, fun p hp => (h.occ p hp).mono (minOf'_le _ _ _ _ _), h.chain, h4, h.even⟩

theorem TreeOk'.unprime {hole : Option Nat} {t : Tree K V} (h : TreeOk' hole t)
    (hr : ∀ c, hole = some c → c ≠ t.rootId) : TreeOk hole t :=
  ⟨h.ids, fun p hp => (h.occ p hp).mono (minOf_le' _ _ hr), h.chain, by have := h.order4; omega,
    fun _ => h.order4, h.even⟩

/-! ### the invariant across a rewrite -/

theorem treeOk_of_rw {t t' : Tree K V} {hole hole' : Option Nat} {wr : List Nat}
    {new : List (Nat × Shallow K V)}
    (hok : TreeOk' hole t) (hrw : Rw wr new t.flat t'.flat)
    (hroot : t'.rootId = t.rootId) (hord : t'.order = t.order) (hnid : t'.nextId = t.nextId)
    (hnew : ∀ e ∈ new, NodeOcc t.order (minOf' t.order t.rootId hole' e.1 e.2.height) e.2)
    (hhole : ∀ h, hole = some h → hole' = some h ∨ h ∈ wr) : TreeOk' hole' t' := by
  refine ⟨⟨hrw.nodup hok.ids.1, ?_⟩, ?_, ?_, by rw [hord]; exact hok.order4, by rw [hord]; exact hok.even⟩
  · intro i hi
    rw [hnid]
    exact hok.ids.2 i (hrw.idmem i hi)
  · intro p hp
    rw [hord, hroot]
    rcases hrw.mem p hp with h | ⟨h, hw⟩
    · exact hnew p h
    · refine (hok.occ p h).mono ?_
      by_cases h1 : hole = some p.1
      · rcases hhole p.1 h1 with h2 | h2
        · rw [h1, h2]; exact Nat.le_refl _
        · exact absurd h2 hw
      · rw [minOf'_of_ne _ h1]
        exact minOf'_le_none _ _ _ _ _
  · have h0 : Chain (flatLeaves t.flat) := hok.chain
    have := hrw.chain [] [] (by simpa using h0)
    show Chain (flatLeaves t'.flat)
    simpa using this

theorem look_of_rw {t t' : Tree K V} {wr : List Nat} {new : List (Nat × Shallow K V)}
    (hrw : Rw wr new t.flat t'.flat) {x : Nat} (hx : x ∉ wr) : t'.look x = t.look x :=
  (hrw.lookup x hx).symm

/-- the flat view of a tree obtained by rewriting the window found under an identity -/
theorem rw_tree {t t' : Tree K V} {wr : List Nat} {new W W' L R : List (Nat × Shallow K V)}
    (hi : IdsOk t) (hf : t.flat = L ++ W ++ R) (hf' : t'.flat = L ++ W' ++ R) (hrw : Rw wr new W W') :
    Rw wr new t.flat t'.flat := by
  rw [hf, hf']
  apply hrw.context
  rw [← hf]
  exact hi.1

/-! ### activation records -/

theorem kidAt_of_look {t t' : Tree K V} {p : Nat} (h : t'.look p = t.look p) (j : Nat) :
    t'.kidAt p j = t.kidAt p j := by
  unfold Tree.kidAt; rw [h]

theorem frameOk_of_look {t t' : Tree K V} {fr : Frame} (h : t'.look fr.node = t.look fr.node)
    (hf : FrameOk t fr) : FrameOk t' fr := by
  unfold FrameOk at hf ⊢
  rw [kidAt_of_look h]
  refine ⟨hf.1, ?_⟩
  cases hl : fr.left with
  | none => rw [hl] at hf; exact hf.2
  | some l => rw [hl] at hf; simp only; rw [kidAt_of_look h]; exact hf.2

/-- nodes strictly above `top` keep their own fields ⇒ the activation records stay valid -/
theorem framesOk_transfer {t t' : Tree K V} (hi : IdsOk t) (root : Nat) :
    ∀ (frames : List Frame) (top : Nat) (sht : Shallow K V), FramesOk t root frames top →
      t.look top = some sht →
      (∀ x sh, t.look x = some sh → sht.height < sh.height → t'.look x = some sh) →
      FramesOk t' root frames top := by
  intro frames
  induction frames with
  | nil => intro top sht h _ _; exact h
  | cons fr rest ih =>
    intro top sht h htop hkeep
    obtain ⟨hc, hfr, hrest⟩ := h
    obtain ⟨shn, hn, hj⟩ := kidAt_look hfr.1
    obtain ⟨shc, hlc, hh⟩ := kid_look hi hfr.1 hn
    rw [hc, htop] at hlc
    cases hlc
    have hn' : t'.look fr.node = t.look fr.node := by
      rw [hn]; exact hkeep _ _ hn (by omega)
    refine ⟨hc, frameOk_of_look hn' hfr, ih fr.node shn hrest hn ?_⟩
    intro x sh hx hlt
    exact hkeep x sh hx (by omega)

/-- the node an activation record runs on is held -/
theorem frames_top_held {t : Tree K V} {root : Nat} {H : List Lk} (hroot : Lk.node root ∈ H) :
    ∀ (frames : List Frame) (top : Nat), FramesOk t root frames top →
      (∀ l ∈ framesHeld frames, l ∈ H) → Lk.node top ∈ H := by
  intro frames top h hH
  cases frames with
  | nil => simp only [FramesOk] at h; rw [h]; exact hroot
  | cons fr rest =>
    obtain ⟨hc, _, _⟩ := h
    apply hH
    simp [framesHeld, hc]

end Gobptree.Conc
