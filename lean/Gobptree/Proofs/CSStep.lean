/-
  The structural invariant is inductive: `CInv` holds initially and is preserved by every
  scheduler step, for disciplined client programs; each step respects the write frame.
-/
import Gobptree.Proofs.CSStepAux
import Gobptree.Proofs.CSStatic
import Gobptree.Proofs.CSNoDel

namespace Gobptree.Conc
open Gobptree

variable {K V : Type}

/-- no client program contains a `Delete` -/
def NoDelete (progs : List (List (COp K V))) : Prop := ∀ p ∈ progs, ∀ op ∈ p, op.isDel = false

/-- a thread that is not inside a Delete and whose program contains none -/
def NoDelThread (th : Thread K V) : Prop := isDelPark th.park = false ∧ ∀ op ∈ th.prog, op.isDel = false

structure CInv (c : Config K V) : Prop where
  s     : SInv c
  disc  : ∀ th ∈ c.threads, DiscOk th
  alive : c.dead = false
  /-- the order is at least 4, or no thread ever runs a Delete (order 2 supports everything
      but Delete) -/
  del4  : 4 ≤ c.tree.order ∨ ∀ th ∈ c.threads, NoDelThread th

/-- a thread parked inside a Delete witnesses `4 ≤ order` -/
theorem CInv.four {c : Config K V} (h : CInv c) {th : Thread K V} (hm : th ∈ c.threads)
    (hd : isDelPark th.park = true) : 4 ≤ c.tree.order := by
  rcases h.del4 with h4 | hnd
  · exact h4
  · have := (hnd th hm).1
    rw [hd] at this
    cases this

/-- what a step of thread `t` leaves alone: every node that existed before and whose mutex the
    thread does not hold during the step keeps its own fields; the root pointer moves only if
    the thread holds `rootMutex` -/
structure StepFrame (c c' : Config K V) (th : Thread K V) : Prop where
  nodes : ∀ id, id < c.tree.nextId → Lk.node id ∉ stepHeld th → c'.tree.look id = c.tree.look id
  root  : Lk.tree ∉ stepHeld th → c'.tree.rootId = c.tree.rootId ∧ c'.tree.depth = c.tree.depth

theorem eraseAllH_subset (h ls : List Lk) : ∀ x ∈ eraseAllH h ls, x ∈ h := by
  induction ls generalizing h with
  | nil => intro x hx; exact hx
  | cons a ls ih =>
    intro x hx
    have : x ∈ eraseAllH (h.erase a) ls := hx
    exact List.mem_of_mem_erase (ih _ x this)

theorem look_lt_nextId {t : Tree K V} (hi : IdsOk t) {id : Nat} {sh : Shallow K V} (h : t.look id = some sh) :
    id < t.nextId :=
  hi.2 id (List.mem_map.2 ⟨(id, sh), look_mem h, rfl⟩)

theorem keepOf_true {H : List Lk} {n id : Nat} (h1 : id < n) (h2 : Lk.node id ∉ H) : keepOf H n id = true := by
  unfold keepOf
  simp [h1, h2]

/-- the mutex a thread is granted was free, so no other thread holds anything in `stepHeld` -/
theorem stepHeld_excl {c : Config K V} (ho : OwnerOk c) {t j : Nat} {th b : Thread K V}
    (ht : c.threads[t]? = some th) (hj : c.threads[j]? = some b) (hne : j ≠ t)
    (hen : th.enabled c = true) {l : Lk} (hb : l ∈ b.held) : l ∉ stepHeld th := by
  intro hs
  unfold stepHeld at hs
  cases hp : th.park with
  | want l' k =>
    rw [hp] at hs
    rcases List.mem_append.1 hs with h | h
    · exact hne (held_excl ho hj ht hb h)
    · have : l = l' := by simpa using h
      subst this
      unfold Thread.enabled at hen
      rw [hp] at hen
      simp only at hen
      have hfree : c.holder l = none := by
        cases hh : c.holder l with
        | none => rfl
        | some x => rw [hh] at hen; simp at hen
      exact free_not_held ho hfree hj hb
  | start => rw [hp] at hs; exact hne (held_excl ho hj ht hb hs)
  | yielded k => rw [hp] at hs; exact hne (held_excl ho hj ht hb hs)
  | finished => rw [hp] at hs; exact hne (held_excl ho hj ht hb hs)

theorem parkHeld_sub_held {b : Thread K V} (hok : ThreadOk b) : ∀ l ∈ parkHeld b.park ++ cursorLocks b.cursor, l ∈ b.held := by
  intro l hl
  apply hok.1.mem_iff.2
  rcases List.mem_append.1 hl with h | h
  · exact List.mem_append_right _ h
  · exact List.mem_append_left _ h

/-- another thread's invariant survives the step -/
theorem other_sok {c : Config K V} {T' : Tree K V} (hinv : SInv c) {t j : Nat} {th b : Thread K V}
    (ht : c.threads[t]? = some th) (hj : c.threads[j]? = some b) (hne : j ≠ t)
    (hen : th.enabled c = true)
    (hframe : FrameEq (keepOf (stepHeld th) c.tree.nextId) c.tree.flat T'.flat)
    (hroot : Lk.tree ∈ stepHeld th ∨ (T'.rootId = c.tree.rootId ∧ T'.depth = c.tree.depth))
    (horder : T'.order = c.tree.order) :
    ThreadSOk T' b ∧ parkExtra T' b.park = parkExtra c.tree b.park := by
  have hbm : b ∈ c.threads := List.mem_of_getElem? hj
  have hok := hinv.cfg b hbm
  obtain ⟨hks, hcs⟩ := hinv.threads b hbm
  have hlook : ∀ id, id < c.tree.nextId → Lk.node id ∉ stepHeld th → T'.look id = c.tree.look id := by
    intro id h1 h2
    exact (hframe.lookup id (keepOf_true h1 h2)).symm
  have hcur : CursorOk T' (isHop b.park) b.cursor := by
    apply CursorOk_congr _ _ _ hcs
    intro id hid
    have hpres : ∃ sh, c.tree.look id = some sh := by
      cases hcu : b.cursor with
      | none => rw [hcu] at hid; simp [cursorLocks] at hid
      | some p =>
        obtain ⟨lf, i⟩ := p
        cases lf with
        | none => rw [hcu] at hid; simp [cursorLocks] at hid
        | some leaf =>
          rw [hcu] at hid hcs
          have : id = leaf := by simpa [cursorLocks] using hid
          subst this
          obtain ⟨sh, h1, _⟩ := hcs
          exact ⟨sh, h1⟩
    obtain ⟨sh, hsh⟩ := hpres
    apply hlook id (look_lt_nextId hinv.tree.ids hsh)
    exact stepHeld_excl hinv.owner ht hj hne hen (parkHeld_sub_held hok _ (List.mem_append_right _ hid))
  have key : ∀ k, ((∃ l, b.park = .want l k) ∨ b.park = .yielded k) →
      KontOk c.tree k → KontOk T' k ∧ kontExtra T' k = kontExtra c.tree k := by
    intro k hbp hk
    have hheldk : ∀ l ∈ kontHeld k ++ cursorLocks b.cursor, l ∈ b.held := by
      intro l hl
      apply parkHeld_sub_held hok
      rcases hbp with ⟨l', h⟩ | h <;> rw [h] <;> exact hl
    have hpre : KontPre b.cursor k := by
      have := hok.2.1
      rcases hbp with ⟨l', h⟩ | h <;> rw [h] at this <;> exact this
    have hcok : CursorOk c.tree (isHop b.park) b.cursor := hcs
    have hjj : ∀ j', c.threads[j']? = some th → j' = t → True := fun _ _ _ => trivial
    apply KontOk_congr k b.cursor _ _ _ horder hpre hk
    · intro id hid
      obtain ⟨sh, hsh⟩ := kont_present hinv.tree.ids hinv.tree.chain k b.cursor _ hk hpre hcok id (Or.inl hid)
      apply hlook id (look_lt_nextId hinv.tree.ids hsh)
      exact stepHeld_excl hinv.owner ht hj hne hen (hheldk _ hid)
    · intro id hid
      obtain ⟨sh, hsh⟩ := kont_present hinv.tree.ids hinv.tree.chain k b.cursor _ hk hpre hcok id (Or.inr (Or.inl hid))
      apply hlook id (look_lt_nextId hinv.tree.ids hsh)
      have hex := hinv.extra j t b th hj ht hne id (by rcases hbp with ⟨l', h⟩ | h <;> rw [h] <;> exact hid)
      intro hs
      unfold stepHeld at hs
      cases hp : th.park with
      | want l' k' =>
        rw [hp] at hs
        rcases List.mem_append.1 hs with h | h
        · exact hex.1 h
        · have : Lk.node id = l' := by simpa using h
          apply hex.2
          rw [hp]; simp [parkWant, this]
      | start => rw [hp] at hs; exact hex.1 hs
      | yielded k' => rw [hp] at hs; exact hex.1 hs
      | finished => rw [hp] at hs; exact hex.1 hs
    · intro htree
      rcases hroot with h | h
      · exact absurd h (stepHeld_excl hinv.owner ht hj hne hen (hheldk _ (List.mem_append_left _ htree)))
      · exact h.1
  unfold ThreadSOk
  cases hp : b.park with
  | start => rw [hp] at hcur; exact ⟨⟨trivial, hcur⟩, rfl⟩
  | finished => rw [hp] at hcur; exact ⟨⟨trivial, hcur⟩, rfl⟩
  | want l k =>
    rw [hp] at hks hcur
    obtain ⟨h1, h2⟩ := key k (Or.inl ⟨l, hp⟩) hks
    exact ⟨⟨h1, hcur⟩, h2⟩
  | yielded k =>
    rw [hp] at hks hcur
    obtain ⟨h1, h2⟩ := key k (Or.inr hp) hks
    exact ⟨⟨h1, hcur⟩, h2⟩


/-- everything a parked thread holds or waits for is a node of the tree -/
theorem thread_present {t : Tree K V} (hi : IdsOk t) (hc : ChainOk t) {b : Thread K V}
    (hok : ThreadOk b) (hs : ThreadSOk t b) (id : Nat)
    (h : Lk.node id ∈ b.held ∨ parkWant b.park = some (Lk.node id) ∨ id ∈ parkExtra t b.park) :
    ∃ sh, t.look id = some sh := by
  obtain ⟨hperm, hpre, hlock⟩ := hok
  obtain ⟨hk, hcur⟩ := hs
  have hcl : Lk.node id ∈ cursorLocks b.cursor → ∃ sh, t.look id = some sh := by
    intro hid
    cases hcu : b.cursor with
    | none => rw [hcu] at hid; simp [cursorLocks] at hid
    | some p =>
      obtain ⟨lf, i⟩ := p
      cases lf with
      | none => rw [hcu] at hid; simp [cursorLocks] at hid
      | some leaf =>
        rw [hcu] at hid hcur
        have : id = leaf := by simpa [cursorLocks] using hid
        subst this
        obtain ⟨sh, h1, _⟩ := hcur
        exact ⟨sh, h1⟩
  cases hp : b.park with
  | start =>
    rw [hp] at hperm
    rcases h with h | h | h
    · have := hperm.mem_iff.1 h
      simp only [parkHeld, List.append_nil] at this
      exact hcl this
    · rw [hp] at h; cases h
    · rw [hp] at h; cases h
  | finished =>
    rw [hp] at hperm
    rcases h with h | h | h
    · have := hperm.mem_iff.1 h
      simp only [parkHeld, List.append_nil] at this
      exact hcl this
    · rw [hp] at h; cases h
    · rw [hp] at h; cases h
  | want l k =>
    rw [hp] at hperm hpre hlock hk hcur
    apply kont_present hi hc k b.cursor _ hk hpre hcur id
    rcases h with h | h | h
    · left
      have := hperm.mem_iff.1 h
      rcases List.mem_append.1 this with h1 | h1
      · exact List.mem_append_right _ h1
      · exact List.mem_append_left _ h1
    · right; right
      rw [hp] at h
      have hl : kontLock k = some l := hlock
      have : l = Lk.node id := by simpa [parkWant] using h
      rw [hl, this]
    · right; left
      rw [hp] at h; exact h
  | yielded k =>
    rw [hp] at hperm hpre hlock hk hcur
    apply kont_present hi hc k b.cursor _ hk hpre hcur id
    rcases h with h | h | h
    · left
      have := hperm.mem_iff.1 h
      rcases List.mem_append.1 this with h1 | h1
      · exact List.mem_append_right _ h1
      · exact List.mem_append_left _ h1
    · rw [hp] at h; cases h
    · right; left
      rw [hp] at h; exact h

/-- what the stepping thread holds afterwards it held during the step -/
theorem newHeld_sub (P : Params K) (t : Nat) (th : Thread K V) (s0 : St K V) (h0 : s0.held = th.held)
    (hok : ThreadOk th) (hnf : th.park ≠ .finished) :
    ∀ x ∈ (runThread P t th s0).1.held, x ∈ stepHeld th := by
  intro x hx
  rcases runThread_rel P t th s0 hok.2.2 hnf with ⟨hrel, heq⟩ | ⟨_, _, _, heq⟩
  · rw [heq] at hx
    unfold stepHeld
    cases hp : th.park with
    | want l k =>
      rw [hp] at hrel
      obtain ⟨ls, _, hh⟩ := hrel
      rw [hh] at hx
      have := eraseAllH_subset _ _ x hx
      simpa [h0] using this
    | start =>
      rw [hp] at hrel
      obtain ⟨ls, _, hh⟩ := hrel
      rw [hh] at hx
      have := eraseAllH_subset _ _ x hx
      simpa [h0] using this
    | yielded k =>
      rw [hp] at hrel
      obtain ⟨ls, _, hh⟩ := hrel
      rw [hh] at hx
      have := eraseAllH_subset _ _ x hx
      simpa [h0] using this
    | finished => exact absurd hp hnf
  · rw [heq] at hx
    exact mem_stepHeld_of_held hx

end Gobptree.Conc
