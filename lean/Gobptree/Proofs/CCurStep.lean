/-
  C04, block level: what each cursor call does to the part of the map that lies ahead of the
  cursor.  `NewScanner` lands so that exactly `Spec.from … start` lies ahead; a `Scan` that
  returns `true` consumes the first pair ahead; a `Scan` that returns `false` had nothing
  ahead; `Pair` returns an entry of the map.  Each happens inside ONE stretch of the thread.
-/
import Gobptree.Proofs.CCurStatic
import Gobptree.Proofs.CKUpRO

namespace Gobptree.Conc
open Gobptree

variable {K V : Type} {lt : K → K → Bool}

/-! ### the leaf chain around a leaf -/

theorem chain_succ : ∀ (A : List (Nat × Shallow K V)) (p : Nat × Shallow K V) (B : List (Nat × Shallow K V)),
    Chain (A ++ p :: B) →
      (∀ nx, p.2.next = some nx → ∃ q B', B = q :: B' ∧ q.1 = nx) ∧ (p.2.next = none → B = []) := by
  intro A
  induction A with
  | nil =>
    intro p B hc
    cases B with
    | nil =>
      have : p.2.next = none := hc
      exact ⟨fun nx h => (by rw [this] at h; cases h), fun _ => rfl⟩
    | cons q B' =>
      have hc' : p.2.next = some q.1 ∧ Chain (q :: B') := hc
      refine ⟨fun nx h => ⟨q, B', rfl, ?_⟩, fun h => ?_⟩
      · rw [hc'.1] at h; exact Option.some.inj h
      · rw [hc'.1] at h; cases h
  | cons a A ih =>
    intro p B hc
    cases A with
    | nil =>
      have hc' : a.2.next = some p.1 ∧ Chain (p :: B) := hc
      exact ih p B hc'.2
    | cons a' A' =>
      have hc' : a.2.next = some a'.1 ∧ Chain (a' :: (A' ++ p :: B)) := hc
      exact ih p B hc'.2

/-- the leaf after `leaf` in the flat view is the one its `next` names -/
theorem Tree.leaf_split_next {hole : Option Nat} {t : Tree K V} (hok : TreeOk hole t) {leaf : Nat} {sh : Shallow K V}
    (hl : t.look leaf = some sh) (h0 : sh.height = 0) :
    ∃ A B, flatLeaves t.flat = A ++ (leaf, sh) :: B ∧ (∀ p ∈ A, p.1 ≠ leaf) ∧ (∀ p ∈ B, p.1 ≠ leaf) ∧
      (sh.next = none → B = []) ∧
      (∀ nx, sh.next = some nx → ∃ shn B', B = (nx, shn) :: B' ∧ t.look nx = some shn ∧ shn.height = 0 ∧
        (∀ p ∈ A, p.1 ≠ nx) ∧ nx ≠ leaf) := by
  obtain ⟨A, B, hAB, hA, hB⟩ := Tree.leaf_split hok.ids hl h0
  have hc : Chain (A ++ (leaf, sh) :: B) := by rw [← hAB]; exact hok.chain
  obtain ⟨h1, h2⟩ := chain_succ A (leaf, sh) B hc
  refine ⟨A, B, hAB, hA, hB, h2, ?_⟩
  intro nx hnx
  obtain ⟨q, B', e, hq⟩ := h1 nx hnx
  obtain ⟨qi, shn⟩ := q
  simp only at hq
  subst hq
  have hm : (qi, shn) ∈ flatLeaves t.flat := by rw [hAB, e]; simp
  unfold flatLeaves at hm
  obtain ⟨hmf, hh⟩ := List.mem_filter.1 hm
  have hn := flatLeaves_nodup hok.ids
  rw [hAB, e, List.map_append, List.map_cons, List.map_cons] at hn
  refine ⟨shn, B', e, mem_look hok.ids hmf, by simpa using hh, ?_, ?_⟩
  · intro p hp e'
    have hd := (List.nodup_append.1 hn).2.2
    exact hd p.1 (List.mem_map.2 ⟨p, hp, rfl⟩) qi (by simp) e'
  · exact hB (qi, shn) (by rw [e]; simp)

/-! ### `ahead` along the moves of a cursor -/

/-- advancing inside the leaf consumes the first pair ahead -/
theorem ahead_step {hole : Option Nat} {t : Tree K V} (hok : TreeOk hole t) {leaf : Nat} {sh : Shallow K V}
    (hl : t.look leaf = some sh) (h0 : sh.height = 0) {i : Int} (hi : -1 ≤ i) (hlt : i + 1 < (sh.keys.length : Int)) :
    ∃ k v, sh.keys[(i + 1).toNat]? = some k ∧ sh.vals[(i + 1).toNat]? = some v ∧
      t.ahead leaf i = (k, v) :: t.ahead leaf (i + 1) := by
  obtain ⟨PA, PB, _, hahead⟩ := Tree.ahead_split hok.ids hl h0
  have hlen := leaf_lens hok hl h0
  have hj : (i + 1).toNat < (shPairs sh).length := by rw [shPairs_length hlen]; omega
  have hjk : (i + 1).toNat < sh.keys.length := by omega
  have hjv : (i + 1).toNat < sh.vals.length := by omega
  refine ⟨sh.keys[(i + 1).toNat], sh.vals[(i + 1).toNat], List.getElem?_eq_getElem hjk, List.getElem?_eq_getElem hjv, ?_⟩
  rw [hahead i, hahead (i + 1), List.drop_eq_getElem_cons hj]
  have e : (i + 1 + 1).toNat = (i + 1).toNat + 1 := by omega
  rw [e]
  have hz : (shPairs sh)[(i + 1).toNat]? = some (sh.keys[(i + 1).toNat], sh.vals[(i + 1).toNat]) := by
    unfold shPairs
    rw [List.getElem?_zip_eq_some]
    exact ⟨List.getElem?_eq_getElem hjk, List.getElem?_eq_getElem hjv⟩
  rw [(List.getElem?_eq_some_iff.1 hz).2]
  rfl

/-- past the end of a leaf with a successor, what lies ahead is the successor and what follows -/
theorem ahead_past_end {hole : Option Nat} {t : Tree K V} (hok : TreeOk hole t) {leaf nx : Nat} {sh : Shallow K V}
    (hl : t.look leaf = some sh) (h0 : sh.height = 0) (hnx : sh.next = some nx)
    {i : Int} (hi : (sh.keys.length : Int) ≤ i + 1) : t.ahead leaf i = t.ahead nx (-1) := by
  obtain ⟨A, B, hAB, hA, _, _, hn⟩ := Tree.leaf_split_next hok hl h0
  obtain ⟨shn, B', e, _, _, hAn, hne⟩ := hn nx hnx
  have hlen := leaf_lens hok hl h0
  unfold Tree.ahead
  rw [hAB, aheadIn_split leaf i sh A B hA, e]
  have h2 : A ++ (leaf, sh) :: (nx, shn) :: B' = (A ++ [(leaf, sh)]) ++ (nx, shn) :: B' := by simp
  rw [h2, aheadIn_split nx (-1) shn (A ++ [(leaf, sh)]) B' (by
    intro p hp
    rcases List.mem_append.1 hp with hp | hp
    · exact hAn p hp
    · simp only [List.mem_singleton] at hp
      subst hp
      exact fun e' => hne e'.symm)]
  have hd : (shPairs sh).drop (i + 1).toNat = [] := by
    apply List.drop_eq_nil_of_le
    rw [shPairs_length hlen]; omega
  rw [hd]
  simp

/-- past the end of the last leaf nothing lies ahead -/
theorem ahead_end {hole : Option Nat} {t : Tree K V} (hok : TreeOk hole t) {leaf : Nat} {sh : Shallow K V}
    (hl : t.look leaf = some sh) (h0 : sh.height = 0) (hnx : sh.next = none)
    {i : Int} (hi : (sh.keys.length : Int) ≤ i + 1) : t.ahead leaf i = [] := by
  obtain ⟨A, B, hAB, hA, _, hB, _⟩ := Tree.leaf_split_next hok hl h0
  have hlen := leaf_lens hok hl h0
  unfold Tree.ahead
  rw [hAB, aheadIn_split leaf i sh A B hA, hB hnx]
  have hd : (shPairs sh).drop (i + 1).toNat = [] := by
    apply List.drop_eq_nil_of_le
    rw [shPairs_length hlen]; omega
  rw [hd]
  rfl

/-- a successor leaf is not the root, hence not empty -/
theorem succ_nonempty {hole : Option Nat} {t : Tree K V} (hok : TreeOk hole t) {leaf nx : Nat} {sh shn : Shallow K V}
    (hl : t.look leaf = some sh) (h0 : sh.height = 0) (hnx : sh.next = some nx) (hln : t.look nx = some shn) :
    0 < shn.keys.length := by
  apply leaf_nonempty hok hln
  intro hroot
  obtain ⟨A, B, hAB, _, _, _, hn⟩ := Tree.leaf_split_next hok hl h0
  obtain ⟨shn', B', e, hln', hn0, _, _⟩ := hn nx hnx
  rw [hln] at hln'
  cases hln'
  subst hroot
  have := root_leaf_flat hok.ids hln hn0
  rw [hAB, e] at this
  have := congrArg List.length this
  simp at this
  omega

/-- the entry under an index of a leaf is an entry of the map -/
theorem pair_mem_abs {hole : Option Nat} {t : Tree K V} (hok : TreeOk hole t) {leaf : Nat} {sh : Shallow K V}
    (hl : t.look leaf = some sh) (h0 : sh.height = 0) {j : Nat} {k : K} {v : V}
    (hk : sh.keys[j]? = some k) (hv : sh.vals[j]? = some v) : (k, v) ∈ t.abs := by
  obtain ⟨PA, PB, habs, _⟩ := Tree.ahead_split hok.ids hl h0
  rw [habs]
  apply List.mem_append_left
  apply List.mem_append_right
  unfold shPairs
  apply List.mem_of_getElem? (i := j)
  rw [List.getElem?_zip_eq_some]
  exact ⟨hk, hv⟩

/-! ### positions -/

/-- resting on key number `j` of a leaf, the cursor is positioned for the bound "`> keys[j]`" -/
theorem curPos_gt (h : SWO lt) {hole : Option Nat} {t : Tree K V} (hok : TreeOk hole t) (hord : OrdTree lt t)
    {leaf : Nat} {sh : Shallow K V} (hl : t.look leaf = some sh) (h0 : sh.height = 0)
    {j : Nat} {c : K} (hj : sh.keys[j]? = some c) : CurPos lt t (.gt c) leaf j := by
  have hs := leaf_sorted h hok hord hl h0
  refine ⟨sh, hl, h0, ?_, j, rfl, hj⟩
  intro j' k hk
  obtain ⟨hjl, ej⟩ := List.getElem?_eq_some_iff.1 hj
  obtain ⟨hjl', ej'⟩ := List.getElem?_eq_some_iff.1 hk
  show lt c k = true ↔ (j : Int) < (j' : Int)
  subst ej; subst ej'
  constructor
  · intro hlt
    by_cases hc : j < j'
    · omega
    · exfalso
      by_cases he : j' = j
      · subst he; rw [h.irrefl] at hlt; cases hlt
      · have := hs.getElem_lt (show j' < j by omega) hjl
        rw [h.asymm this] at hlt; cases hlt
  · intro hlt
    exact hs.getElem_lt (by omega) hjl'

/-- a cursor that has run off its leaf (waiting for the next one) keeps its bound -/
theorem CurPosW.park_at_end {t : Tree K V} {b : Bound K} {leaf : Nat} {i : Int} (hp : CurPosW lt t b leaf i)
    (hend : ∀ sh, t.look leaf = some sh → i + 1 = (sh.keys.length : Int)) : CurPosW lt t b leaf (i + 1) := by
  obtain ⟨sh, hl, h0, hidx, hb⟩ := hp
  refine ⟨sh, hl, h0, ?_, hb⟩
  intro j k hk
  have hlen := hend sh hl
  obtain ⟨hjl, _⟩ := List.getElem?_eq_some_iff.1 hk
  rw [hidx j k hk]
  constructor <;> intro <;> omega

/-- the start index of `NewScanner` on the landing leaf: exactly the keys from it on are `≥ key` -/
theorem startIndex_spec (h : SWO lt) (P : Params K) (hP : P.lt = lt) (key : K) (l : Leaf K V) (hs : Sorted lt l.keys) :
    ∀ (j : Nat) (k : K), l.keys[j]? = some k → ((!lt k key) = true ↔ ((startIndex P {} key l : Nat) : Int) - 1 < (j : Int)) := by
  subst hP
  intro j k hk
  obtain ⟨hjl, ej⟩ := List.getElem?_eq_some_iff.1 hk
  subst ej
  have hne : l.keys ≠ [] := by intro e; rw [e] at hjl; cases hjl
  have hg := searchGE_lt_length (lt := P.lt) key l.keys hne
  obtain ⟨hbefore, hat⟩ := searchGE_spec h key l.keys hs
  unfold startIndex
  simp only [Bool.false_eq_true, if_false]
  rw [List.getElem?_eq_getElem hg]
  simp only
  cases hc : P.lt l.keys[searchGE P.lt key l.keys] key with
  | true =>
    simp only [if_true]
    have hlast : ¬ (searchGE P.lt key l.keys + 1 < l.keys.length) := by
      intro hh
      have := hat hh
      rw [hc] at this; cases this
    have hjle : j ≤ searchGE P.lt key l.keys := by omega
    have hlt : P.lt l.keys[j] key = true := by
      by_cases e : j = searchGE P.lt key l.keys
      · subst e; exact hc
      · exact hbefore j hjl (by omega)
    rw [hlt]
    constructor
    · intro hh; cases hh
    · intro hh; omega
  | false =>
    simp only [Bool.false_eq_true, if_false]
    by_cases hjg : j < searchGE P.lt key l.keys
    · rw [hbefore j hjl hjg]
      constructor
      · intro hh; cases hh
      · intro hh; omega
    · have hge : P.lt l.keys[j] key = false := by
        by_cases e : j = searchGE P.lt key l.keys
        · subst e; exact hc
        · have h1 := hs.getElem_lt (show searchGE P.lt key l.keys < j by omega) hjl
          cases hx : P.lt l.keys[j] key with
          | false => rfl
          | true =>
            have := h.trans _ _ _ h1 hx
            rw [hc] at this; cases this
      rw [hge]
      constructor
      · intro _; omega
      · intro _; rfl

/-! ### `NewScanner` returns -/

/-- `roArrive` of a scanner on a leaf -/
theorem roArrive_scanner_leaf (P : Params K) (t : Nat) (s : St K V) (key : K) (hold : Lk) (n : Nat) (l : Leaf K V)
    (hf : s.tree.find n = some ⟨0, l⟩) :
    roArrive P t s true key hold n =
      ({ (s.rel t hold) with cursor := some (some n, (startIndex P {} key l : Int) - 1), exhausted := false },
        .done .ok) := by
  unfold roArrive
  have : (s.rel t hold).tree.find n = some ⟨0, l⟩ := hf
  simp only [this]
  rfl



/-- **NewScanner's arrival at the leaf.**  The stretch that resumes `roNode true start hold want`
    with `want` a leaf returns, leaves the tree alone, sets the cursor to `(want, startIndex − 1)`,
    positioned for the inclusive bound `start`; what lies ahead of it is `Spec.from … start`. -/
theorem resume_newScanner (P : Params K) (hK : KParams lt P) (t : Nat) (s : St K V) (key : K) (hold : Lk) (want : Nat)
    {hole : Option Nat} (hok : TreeOk hole s.tree) (hord : OrdTree lt s.tree)
    (hk : KontOk s.tree (.roNode true key hold want)) (hpos : KPos lt s.tree (.roNode true key hold want))
    {sh : Shallow K V} (hl : s.tree.look want = some sh) (h0 : sh.height = 0) :
    ∃ l : Leaf K V, s.tree.find want = some ⟨0, l⟩ ∧
      (resume P t s (.roNode true key hold want)).2 = .done .ok ∧
      (resume P t s (.roNode true key hold want)).1.tree = s.tree ∧
      (resume P t s (.roNode true key hold want)).1.cursor = some (some want, (startIndex P {} key l : Int) - 1) ∧
      CurPos lt s.tree (.ge key) want ((startIndex P {} key l : Int) - 1) ∧
      s.tree.ahead want ((startIndex P {} key l : Int) - 1) = Spec.from lt s.tree.abs key := by
  obtain ⟨l, hf, hsh, _⟩ := look_leaf hl h0
  have hon := roNode_onRoute hok true key hold want hk hpos
  have hs : Sorted lt l.keys := by
    have := leaf_sorted hK.swo hok hord hl h0
    rw [hsh] at this; exact this
  have hcp : CurPos lt s.tree (.ge key) want ((startIndex P {} key l : Int) - 1) := by
    refine ⟨sh, hl, h0, ?_, hon⟩
    intro j k hjk
    rw [hsh] at hjk
    exact startIndex_spec hK.swo P hK.lt key l hs j k hjk
  have hres : resume P t s (.roNode true key hold want) =
      ({ ((s.acq t (.node want)).rel t hold) with
          cursor := some (some want, (startIndex P {} key l : Int) - 1), exhausted := false }, .done .ok) :=
    roArrive_scanner_leaf P t (s.acq t (.node want)) key hold want l hf
  rw [hres]
  exact ⟨l, hf, rfl, rfl, rfl, hcp, hcp.weaken.ahead_from hK.swo hok hord⟩

/-! ### `Scan`, `Pair` -/

theorem find_bind_leaf {t : Tree K V} {leaf : Nat} {sh : Shallow K V} (hl : t.look leaf = some sh) (h0 : sh.height = 0) :
    ∃ l : Leaf K V, (t.find leaf).bind leafOf? = some l ∧ l.keys = sh.keys ∧ l.vals = sh.vals ∧ l.next = sh.next := by
  obtain ⟨l, hf, hsh, _⟩ := look_leaf hl h0
  subst hsh
  exact ⟨l, by rw [hf]; rfl, rfl, rfl, rfl⟩

/-- `Scan` on an open cursor, in terms of the own fields of the cursor's leaf -/
theorem startOp_scan_eq (t : Nat) (s : St K V) {leaf : Nat} {i : Int} {sh : Shallow K V}
    (hc : s.cursor = some (some leaf, i)) (he : s.exhausted = false)
    (hl : s.tree.look leaf = some sh) (h0 : sh.height = 0) :
    startOp t s .scan =
      if i + 1 = (sh.keys.length : Int) then
        match sh.next with
        | none => ({ (s.rel t (.node leaf)) with cursor := some (none, i + 1), exhausted := true }, .done (.bool false))
        | some n => ({ s with cursor := some (some leaf, i + 1) }, .park (.want (.node n) (.hop leaf n)))
      else ({ s with cursor := some (some leaf, i + 1) }, .done (.bool true)) := by
  obtain ⟨l, hf, hk, _, hn⟩ := find_bind_leaf hl h0
  obtain ⟨tree, owner, held, cursor, exhausted, evs⟩ := s
  simp only at hc he hf
  subst hc; subst he
  cases hnx : sh.next with
  | none =>
    rw [hnx] at hn
    simp only [startOp, hf, hk, hn]
  | some n =>
    rw [hnx] at hn
    simp only [startOp, hf, hk, hn]

/-- **`Scan` returns `true` inside the leaf**: it consumes the first pair ahead, which is the
    entry the cursor then rests on -/
theorem scan_inleaf (t : Nat) (s : St K V) {hole : Option Nat} (hok : TreeOk hole s.tree)
    {leaf : Nat} {i : Int} {sh : Shallow K V}
    (hc : s.cursor = some (some leaf, i)) (he : s.exhausted = false)
    (hl : s.tree.look leaf = some sh) (h0 : sh.height = 0) (hi : -1 ≤ i) (hlt : i + 1 < (sh.keys.length : Int)) :
    startOp t s .scan = ({ s with cursor := some (some leaf, i + 1) }, .done (.bool true)) ∧
    ∃ k v, sh.keys[(i + 1).toNat]? = some k ∧ sh.vals[(i + 1).toNat]? = some v ∧
      s.tree.ahead leaf i = (k, v) :: s.tree.ahead leaf (i + 1) := by
  refine ⟨?_, ahead_step hok hl h0 hi hlt⟩
  rw [startOp_scan_eq t s hc he hl h0, if_neg (by omega)]

/-- **`Scan` at the end of a leaf with a successor**: it parks for the next leaf; what lies
    ahead is unchanged -/
theorem scan_park (t : Nat) (s : St K V) {hole : Option Nat} (hok : TreeOk hole s.tree)
    {leaf n : Nat} {i : Int} {sh : Shallow K V}
    (hc : s.cursor = some (some leaf, i)) (he : s.exhausted = false)
    (hl : s.tree.look leaf = some sh) (h0 : sh.height = 0) (hend : i + 1 = (sh.keys.length : Int))
    (hnx : sh.next = some n) :
    startOp t s .scan = ({ s with cursor := some (some leaf, i + 1) }, .park (.want (.node n) (.hop leaf n))) ∧
    s.tree.ahead leaf (i + 1) = s.tree.ahead leaf i := by
  constructor
  · rw [startOp_scan_eq t s hc he hl h0, if_pos hend, hnx]
  · rw [ahead_past_end hok hl h0 hnx (i := i + 1) (by omega), ahead_past_end hok hl h0 hnx (i := i) (by omega)]

/-- **`Scan` returns `false`**: nothing lay ahead -/
theorem scan_exhaust (t : Nat) (s : St K V) {hole : Option Nat} (hok : TreeOk hole s.tree)
    {leaf : Nat} {i : Int} {sh : Shallow K V}
    (hc : s.cursor = some (some leaf, i)) (he : s.exhausted = false)
    (hl : s.tree.look leaf = some sh) (h0 : sh.height = 0) (hend : i + 1 = (sh.keys.length : Int))
    (hnx : sh.next = none) :
    startOp t s .scan =
      ({ (s.rel t (.node leaf)) with cursor := some (none, i + 1), exhausted := true }, .done (.bool false)) ∧
    s.tree.ahead leaf i = [] := by
  constructor
  · rw [startOp_scan_eq t s hc he hl h0, if_pos hend, hnx]
  · exact ahead_end hok hl h0 hnx (by omega)

/-- every `true`/`false` answer of a `Scan` is one of the three cases above -/
theorem scan_cases {i : Int} {sh : Shallow K V} (hlt : i < (sh.keys.length : Int)) :
    i + 1 < (sh.keys.length : Int) ∨
    (i + 1 = (sh.keys.length : Int) ∧ sh.next = none) ∨
    (i + 1 = (sh.keys.length : Int) ∧ ∃ n, sh.next = some n) := by
  by_cases h : i + 1 < (sh.keys.length : Int)
  · exact Or.inl h
  · cases hn : sh.next with
    | none => exact Or.inr (Or.inl ⟨by omega, rfl⟩)
    | some n => exact Or.inr (Or.inr ⟨by omega, n, rfl⟩)

/-- **`Pair`** returns the entry the cursor rests on, an entry of the map -/
theorem pair_spec (t : Nat) (s : St K V) {hole : Option Nat} (hok : TreeOk hole s.tree)
    {leaf : Nat} {i : Int} {sh : Shallow K V}
    (hc : s.cursor = some (some leaf, i)) (he : s.exhausted = false)
    (hl : s.tree.look leaf = some sh) (h0 : sh.height = 0) (hi : 0 ≤ i) (hlt : i < (sh.keys.length : Int)) :
    ∃ k v, startOp t s .pair = (s, .done (.pair k v)) ∧
      sh.keys[i.toNat]? = some k ∧ sh.vals[i.toNat]? = some v ∧ (k, v) ∈ s.tree.abs := by
  obtain ⟨l, hf, hk, hv, _⟩ := find_bind_leaf hl h0
  have hlen := leaf_lens hok hl h0
  have hjk : i.toNat < sh.keys.length := by omega
  have hjv : i.toNat < sh.vals.length := by omega
  refine ⟨sh.keys[i.toNat], sh.vals[i.toNat], ?_, List.getElem?_eq_getElem hjk, List.getElem?_eq_getElem hjv,
    pair_mem_abs hok hl h0 (List.getElem?_eq_getElem hjk) (List.getElem?_eq_getElem hjv)⟩
  have hneg : ¬ (i < 0) := by omega
  obtain ⟨tree, owner, held, cursor, exhausted, evs⟩ := s
  simp only at hc he hf
  subst hc; subst he
  simp only [startOp, hf, hk, hv, hneg, if_false, List.getElem?_eq_getElem hjk, List.getElem?_eq_getElem hjv]

/-! ### the hop -/

/-- **`Scan` returns `true` by the hop**: the stretch that resumes `hop cur next` leaves the tree
    alone, puts the cursor on the first entry of `next`, which is the first pair that lay ahead;
    the cursor is then positioned for the bound "greater than that key" -/
theorem resume_hop (h : SWO lt) (P : Params K) (t : Nat) (s : St K V) (cur next : Nat) {hole : Option Nat}
    (hok : TreeOk hole s.tree) (hord : OrdTree lt s.tree) (hk : KontOk s.tree (.hop cur next)) :
    (resume P t s (.hop cur next)).2 = .done (.bool true) ∧
    (resume P t s (.hop cur next)).1.tree = s.tree ∧
    (resume P t s (.hop cur next)).1.cursor = some (some next, 0) ∧
    ∃ shn k v, s.tree.look next = some shn ∧ shn.height = 0 ∧ shn.keys[0]? = some k ∧ shn.vals[0]? = some v ∧
      CurPos lt s.tree (.gt k) next 0 ∧
      ∀ i : Int, (∀ sh, s.tree.look cur = some sh → (sh.keys.length : Int) ≤ i + 1) →
        s.tree.ahead cur i = (k, v) :: s.tree.ahead next 0 := by
  refine ⟨rfl, rfl, rfl, ?_⟩
  obtain ⟨sh, hl, h0, hnx⟩ : ∃ sh, s.tree.look cur = some sh ∧ sh.height = 0 ∧ sh.next = some next := hk
  obtain ⟨shn, hln, hn0⟩ := next_is_leaf hok.ids hok.chain hl h0 hnx
  have hne := succ_nonempty hok hl h0 hnx hln
  obtain ⟨k, v, hk0, hv0, hah⟩ := ahead_step hok hln hn0 (i := -1) (by omega) (by omega)
  refine ⟨shn, k, v, hln, hn0, hk0, hv0, curPos_gt h hok hord hln hn0 (j := 0) hk0, ?_⟩
  intro i hi
  rw [ahead_past_end hok hl h0 hnx (hi sh hl), hah]
  rfl

end Gobptree.Conc
