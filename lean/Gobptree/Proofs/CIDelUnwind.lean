/-
  Separator invariant for Delete, part 8: the unwinding (`delUnwind`, `delRightArrive`) and the
  descent (`delGo`) keep the separator invariant and the search paths of all nodes the thread
  does not hold.  (Same induction as `delUnwind_k`.)
-/
import Gobptree.Proofs.CIDelStep

namespace Gobptree.Conc
open Gobptree

variable {K V : Type} {lt : K → K → Bool}

/-- outcome of a stretch of Delete at the separator level -/
structure IOut (lt : K → K → Bool) (Wit : Nat → K → Prop) (H : List Lk) (s s' : St K V) : Prop where
  sep : SepTreeN lt Wit s'.tree
  routes : RStab lt (fun x => Lk.node x ∈ H) s.tree s'.tree

/-! ### the unwinding loop -/

theorem delUnwind_i (h : SWO lt) (P : Params K) (hp : PadOk P) (t : Nat) (key : K) (root : Nat) (H : List Lk)
    (hroot : Lk.node root ∈ H) (Wit : Nat → K → Prop) (hWit : ∀ r x, Wit r x → Lk.node r ∉ H) :
    ∀ (frames : List Frame) (s : St K V) (small : Bool) (top : Nat),
      UInv P root s frames small top → (∀ l ∈ framesHeld frames, l ∈ H) → OrdTree lt s.tree →
      SepTreeN lt Wit s.tree →
      IOut lt Wit H s (delUnwind P t s key frames small root).1 := by
  intro frames
  induction frames with
  | nil =>
    intro s small top hinv _ hO hsep
    unfold delUnwind
    obtain ⟨h1, h2, h3⟩ := delFinish_tree t s small root
    have htop : top = s.tree.rootId := by
      have : top = root := hinv.frames
      rw [this]; exact hinv.rootEq
    have hok := hinv.ok
    rw [htop] at hok
    have r := finish_istep (lt := lt) (fun x => Lk.node x ∈ H) Wit hok (by rw [← hinv.rootEq]; exact hroot) hsep
    rw [← h1] at r
    exact ⟨r.sep, r.routes⟩
  | cons fr rest ih =>
    intro s small top hinv hH hO hsep
    obtain ⟨hHrest, hHchild, hHleft⟩ := framesHeld_cons_sub hH
    obtain ⟨htop, hfr, hrest⟩ := hinv.frames
    unfold delUnwind
    cases small with
    | false =>
      simp only [Bool.not_false, if_true]
      have hinv' : UInv P root (frameUnlock t s fr none) rest false fr.node :=
        ⟨by simpa using hinv.ok, by simpa using hinv.order, by simpa using hinv.rootEq,
          by simpa using hrest, by intro h; cases h⟩
      have := ih _ false fr.node hinv' hHrest (by simpa using hO) (by simpa using hsep)
      exact ⟨this.sep, by simpa using this.routes⟩
    | true =>
      simp only [Bool.not_true, Bool.false_eq_true, if_false]
      subst htop
      have hok : TreeOk' (some fr.child) s.tree := by simpa using hinv.ok
      obtain ⟨d, i, hf, hlook, k, hk, hkid⟩ := inner_of_kidAt hfr.1
      obtain ⟨_, _, _, hin, _⟩ := rebIn_of_tree hok hf hfr.1 (hinv.small rfl)
      have hlen : i.runts.length = i.kids.length := hin.lens.1
      rw [hf]
      simp only
      by_cases hR : fr.index + 1 < i.runts.length
      · simp only [hR, if_true]
        obtain ⟨r, hr⟩ : ∃ r, i.kids[fr.index + 1]? = some r :=
          ⟨i.kids[fr.index + 1]'(by omega), List.getElem?_eq_getElem _⟩
        simp only [hr, Option.map_some]
        exact ⟨hsep, RStab.refl _ _⟩
      · simp only [hR, if_false]
        have hright : ∀ x, s.tree.kidAt fr.node (fr.index + 1) = some x → Lk.node x ∈ H := by
          intro x hx
          rw [kidAt_of_find hf] at hx
          have : i.kids[fr.index + 1]? = none := by
            apply List.getElem?_eq_none; omega
          rw [this] at hx
          cases hx
        obtain ⟨child, i', small', hc, heval, hnext⟩ := reb_inv P hp (keep := keepOf H 0)
          (fun x hx => keepOf_heldD H 0 x hx) hroot hH hinv hright hf
        simp only [hc, heval]
        obtain ⟨hinv', _, _, _⟩ := hnext (frameUnlock t { s with tree := putInner s.tree i' } fr none) (by simp)
        have hWn : Lk.node fr.node ∈ H := frames_top_held hroot rest fr.node hrest hHrest
        have hWk := window_held hfr hH hright
        obtain ⟨k1, _, _⟩ := rebalance_kstep h P hp (fun x => Lk.node x ∈ H) hok hinv.order hf hfr.1
          (hinv.small rfl) hO hWn hWk hc heval
        have st := rebalance_istep h P hp (fun x => Lk.node x ∈ H) Wit hok hinv.order hf hfr.1
          (hinv.small rfl) hO hWn hWk hWit hsep hc heval
        have := ih _ small' fr.node hinv' hHrest (by simpa using k1) (by simpa using st.sep)
        exact ⟨this.sep, st.routes.trans (by simpa using this.routes)⟩

/-! ### after the right sibling has been acquired -/

theorem delRightArrive_i (h : SWO lt) (P : Params K) (hp : PadOk P) (t : Nat) (key : K) (root : Nat) (H : List Lk)
    (hroot : Lk.node root ∈ H) (Wit : Nat → K → Prop) (hWit : ∀ r x, Wit r x → Lk.node r ∉ H)
    (s : St K V) (rest : List Frame) (fr : Frame) (right : Nat)
    (hinv : UInv P root s (fr :: rest) true fr.child) (hH : ∀ l ∈ framesHeld (fr :: rest), l ∈ H)
    (hr : s.tree.kidAt fr.node (fr.index + 1) = some right) (hrH : Lk.node right ∈ H)
    (hO : OrdTree lt s.tree) (hsep : SepTreeN lt Wit s.tree) :
    IOut lt Wit H s (delRightArrive P t s key rest fr right root).1 := by
  obtain ⟨hHrest, _, _⟩ := framesHeld_cons_sub hH
  obtain ⟨_, hfr, hrest⟩ := hinv.frames
  obtain ⟨d, i, hf, _, _⟩ := inner_of_kidAt hfr.1
  have hok : TreeOk' (some fr.child) s.tree := by simpa using hinv.ok
  have hright : ∀ x, s.tree.kidAt fr.node (fr.index + 1) = some x → Lk.node x ∈ H := by
    intro x hx; rw [hr] at hx; cases hx; exact hrH
  obtain ⟨child, i', small', hc, heval, hnext⟩ := reb_inv P hp (keep := keepOf H 0)
    (fun x hx => keepOf_heldD H 0 x hx) hroot hH hinv hright hf
  unfold delRightArrive
  rw [hf]
  simp only [hc, heval]
  obtain ⟨hinv', _, _, _⟩ :=
    hnext (frameUnlock t { s with tree := putInner s.tree i' } fr (some right)) (by simp)
  have hWn : Lk.node fr.node ∈ H := frames_top_held hroot rest fr.node hrest hHrest
  have hWk := window_held hfr hH hright
  obtain ⟨k1, _, _⟩ := rebalance_kstep h P hp (fun x => Lk.node x ∈ H) hok hinv.order hf hfr.1
    (hinv.small rfl) hO hWn hWk hc heval
  have st := rebalance_istep h P hp (fun x => Lk.node x ∈ H) Wit hok hinv.order hf hfr.1
    (hinv.small rfl) hO hWn hWk hWit hsep hc heval
  have := delUnwind_i h P hp t key root H hroot Wit hWit rest _ small' fr.node hinv' hHrest
    (by simpa using k1) (by simpa using st.sep)
  exact ⟨this.sep, st.routes.trans (by simpa using this.routes)⟩

/-! ### the descent -/

theorem delGo_i (h : SWO lt) (P : Params K) (hP : P.lt = lt) (hp : PadOk P) (t : Nat) (key : K) (root : Nat)
    (H : List Lk) (hroot : Lk.node root ∈ H) (Wit : Nat → K → Prop) (hWit : ∀ r x, Wit r x → Lk.node r ∉ H)
    (s : St K V) (frames : List Frame) (n : Nat)
    (hok : TreeOk none s.tree) (h4 : 4 ≤ s.tree.order) (hord : s.tree.order = P.order)
    (hrootEq : root = s.tree.rootId)
    (hfr : FramesOk s.tree root frames n) (hH : ∀ l ∈ framesHeld frames, l ∈ H)
    (hO : OrdTree lt s.tree) (hon : OnRoute lt s.tree key n) (hsep : SepTreeN lt Wit s.tree) :
    IOut lt Wit H s (delGo P t s key frames n root).1 := by
  have hok' : TreeOk' none s.tree := hok.prime h4
  obtain ⟨sht, hlook, _⟩ := frames_high hok.ids frames n (by rw [← hrootEq]; exact hfr)
  obtain ⟨a, hf, hsh, _⟩ := find_some_of_look hlook
  obtain ⟨d', m⟩ := a
  cases d' with
  | zero =>
    obtain ⟨l', small, heval, out⟩ := leaf_step P hok' hord hf key
    have hlook' : s.tree.look n = some (shallow (d := 0) m) := (find_facts hf).2.1
    have hleaf : leafOf? (⟨0, m⟩ : AnyNode K V) = some (m : Leaf K V) := rfl
    unfold delGo delEnter
    rw [hf]
    simp only [hleaf, heval]
    have hinv : UInv P root ({ s with tree := putLeaf s.tree l' } : St K V) frames small n := by
      refine ⟨out.ok, out.order.trans hord, hrootEq.trans out.root.symm, ?_, out.small⟩
      refine framesOk_transfer hok.ids root frames n _ hfr hlook' ?_
      intro x sh hx hlt
      rw [← hx]
      exact out.look x (ne_of_height hlook' hx hlt).symm
    obtain ⟨k1, _, _⟩ := leaf_kstep h P hP (fun x => Lk.node x ∈ H) hok' hf hO key hon
      (frames_top_held hroot frames n hfr hH) (P.order >>> 1) heval
    have st := leaf_istep h P hP (fun x => Lk.node x ∈ H) Wit hok' hf hO key hon (P.order >>> 1) hsep heval
    have := delUnwind_i h P hp t key root H hroot Wit hWit frames _ small n hinv hH k1 st.sep
    exact ⟨this.sep, st.routes.trans this.routes⟩
  | succ d =>
    have hlook' : s.tree.look n = some (shallow (d := d + 1) m) := (find_facts hf).2.1
    have occ := hok'.occ (n, shallow (d := d + 1) m) (look_mem hlook')
    have hp' := (par_inner (m : Inner K (Node K V d))).1 occ.par
    have hne : (m : Inner K (Node K V d)).runts ≠ [] := by
      intro e; rw [e] at hp'; simp at hp'
    have hidx := searchLE_lt_length (lt := P.lt) key (m : Inner K (Node K V d)).runts hne
    unfold delGo delEnter
    rw [hf]
    simp only [leafOf?, innerRunts?, innerKidId?]
    by_cases hpos : searchLE P.lt key (m : Inner K (Node K V d)).runts > 0
    · simp only [hpos, if_true]
      obtain ⟨l, hl⟩ : ∃ l, (m : Inner K (Node K V d)).kids[searchLE P.lt key (m : Inner K (Node K V d)).runts - 1]? = some l :=
        ⟨(m : Inner K (Node K V d)).kids[searchLE P.lt key (m : Inner K (Node K V d)).runts - 1]'(by omega),
          List.getElem?_eq_getElem _⟩
      simp only [hl, Option.map_some]
      exact ⟨hsep, RStab.refl _ _⟩
    · simp only [hpos, if_false]
      obtain ⟨c, hc⟩ : ∃ c, (m : Inner K (Node K V d)).kids[searchLE P.lt key (m : Inner K (Node K V d)).runts]? = some c :=
        ⟨(m : Inner K (Node K V d)).kids[searchLE P.lt key (m : Inner K (Node K V d)).runts]'(by omega),
          List.getElem?_eq_getElem _⟩
      simp only [hc, Option.map_some]
      exact ⟨hsep, RStab.refl _ _⟩

end Gobptree.Conc
