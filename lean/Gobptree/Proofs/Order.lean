/-
  Strict weak orders on `K` given by a Boolean comparison, and sortedness.
-/
import Gobptree.Node

namespace Gobptree

variable {K : Type}

/-- `lt` is a strict weak order: irreflexive, transitive, and incomparability is
    transitive (stated as co-transitivity).  The five typed trees instantiate
    it with a strict linear order; ComparableTree with any `Less`. -/
structure SWO (lt : K → K → Bool) : Prop where
  irrefl : ∀ a, lt a a = false
  trans : ∀ a b c, lt a b = true → lt b c = true → lt a c = true
  cotrans : ∀ a b c, lt a c = true → lt a b = true ∨ lt b c = true

namespace SWO

variable {lt : K → K → Bool} (h : SWO lt)
include h

theorem asymm {a b : K} (hab : lt a b = true) : lt b a = false := by
  cases hba : lt b a with
  | false => rfl
  | true => have := h.trans a b a hab hba; rw [h.irrefl] at this; exact absurd this (by decide)

/-- `a < b`, `¬ c < b`  ⟹  `a < c` -/
theorem lt_of_lt_of_le {a b c : K} (hab : lt a b = true) (hbc : lt c b = false) : lt a c = true := by
  rcases h.cotrans a c b hab with h1 | h1
  · exact h1
  · rw [hbc] at h1; exact absurd h1 (by decide)

/-- `¬ b < a`, `b < c`  ⟹  `a < c` -/
theorem lt_of_le_of_lt {a b c : K} (hab : lt b a = false) (hbc : lt b c = true) : lt a c = true := by
  rcases h.cotrans b a c hbc with h1 | h1
  · rw [hab] at h1; exact absurd h1 (by decide)
  · exact h1

/-- `≤` is transitive: `¬ b < a`, `¬ c < b` ⟹ `¬ c < a` -/
theorem le_trans {a b c : K} (hab : lt b a = false) (hbc : lt c b = false) : lt c a = false := by
  cases hca : lt c a with
  | false => rfl
  | true =>
    rcases h.cotrans c b a hca with h1 | h1
    · rw [hbc] at h1; exact absurd h1 (by decide)
    · rw [hab] at h1; exact absurd h1 (by decide)

theorem le_of_lt {a b : K} (hab : lt a b = true) : lt b a = false := h.asymm hab

theorem le_refl (a : K) : lt a a = false := h.irrefl a

theorem eqv_refl (a : K) : eqv lt a a = true := by simp [eqv, h.irrefl]

omit h in
theorem eqv_symm {a b : K} (e : eqv lt a b = true) : eqv lt b a = true := by
  simp [eqv] at *; exact ⟨e.2, e.1⟩

theorem lt_congr_left {a a' b : K} (e : eqv lt a a' = true) : lt a b = lt a' b := by
  simp [eqv] at e
  cases h1 : lt a b <;> cases h2 : lt a' b <;> try rfl
  · have := h.lt_of_le_of_lt e.2 h2; rw [h1] at this; exact absurd this (by decide)
  · have := h.lt_of_le_of_lt e.1 h1; rw [h2] at this; exact absurd this (by decide)

theorem lt_congr_right {a b b' : K} (e : eqv lt b b' = true) : lt a b = lt a b' := by
  simp [eqv] at e
  cases h1 : lt a b <;> cases h2 : lt a b' <;> try rfl
  · have := h.lt_of_lt_of_le h2 e.1; rw [h1] at this; exact absurd this (by decide)
  · have := h.lt_of_lt_of_le h1 e.2; rw [h2] at this; exact absurd this (by decide)

end SWO

/-- strictly ascending w.r.t. `lt` -/
def Sorted (lt : K → K → Bool) (l : List K) : Prop := l.Pairwise (fun a b => lt a b = true)

end Gobptree
