/-
  The two hand-written binary searches of gobptree, mirrored one-to-one.
  `lt` is the key comparison (`<`, or `Less` for ComparableTree).
-/
namespace Gobptree

variable {K : Type}

/-- The `loop:` of `SearchGreaterThanOrEqualTo`; `fuel` bounds the number of
    jumps back to `loop`. -/
def searchGELoop (lt : K → K → Bool) (key : K) (vs : List K) : Nat → Nat → Nat → Nat
  | 0, lo, _ => lo
  | fuel + 1, lo, hi =>
    let m := (lo + hi) >>> 1
    match vs[m]? with
    | none => lo            -- index out of range in Go; proved unreachable (Proofs/Search)
    | some v =>
      if lt key v then
        -- hi = m
        if lo < m then searchGELoop lt key vs fuel lo m else lo
      else if lt v key then
        -- lo = m + 1
        if m + 1 < hi then searchGELoop lt key vs fuel (m + 1) hi else m + 1
      else m

/-- `<T>SearchGreaterThanOrEqualTo(key, values)` — clamped: never returns `len`. -/
def searchGE (lt : K → K → Bool) (key : K) (vs : List K) : Nat :=
  if vs.length ≤ 1 then 0
  else searchGELoop lt key vs vs.length 0 (vs.length - 1)

/-- `<T>SearchLessThanOrEqualTo(key, values)`. -/
def searchLE (lt : K → K → Bool) (key : K) (vs : List K) : Nat :=
  let index := searchGE lt key vs
  match vs[index]? with
  | none => if index > 0 then index - 1 else index        -- `index == len(values)`
  | some v => if lt key v then (if index > 0 then index - 1 else index) else index

end Gobptree
