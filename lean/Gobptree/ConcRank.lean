/-
  The lock ranking gobptree's lock coupling follows, as executable definitions: used by
  the model driver (every replayed configuration is tested) and by the C06 theorems.
-/
import Gobptree.Conc

namespace Gobptree.Conc
open Gobptree

variable {K V : Type}

/-- ids of the nodes of one level, left to right, followed by the levels beneath -/
def levelIds : (d : Nat) → List (Node K V d) → List Nat
  | 0, ns => ns.map (fun (l : Leaf K V) => l.id)
  | d + 1, ns =>
    ns.map (fun (i : Inner K (Node K V d)) => i.id) ++
      levelIds d (ns.flatMap (fun (i : Inner K (Node K V d)) => i.kids))

/-- all node ids in level order: root, its children left to right, their children, … -/
def levelOrder (t : Tree K V) : List Nat := levelIds t.depth [t.root]

/-- `rootMutex` first, then the nodes in level order; a mutex that guards no node of the
    tree gets rank 0 as well (so waiting for one while holding anything is unranked) -/
def levelRank (t : Tree K V) : Lk → Nat
  | .tree => 0
  | .node id => if id ∈ levelOrder t then (levelOrder t).idxOf id + 1 else 0

/-- executable form of `Ranked (levelRank c.tree) c` -/
def rankedB (c : Config K V) : Bool :=
  c.threads.all fun th =>
    match th.park with
    | .want l _ => th.held.all fun h => decide (levelRank c.tree h < levelRank c.tree l)
    | _ => true

end Gobptree.Conc
