/-
  Line-protocol driver for the sequential model (core-only, links as `model`).
  One op per input line, one result line per op; see harness/PROTOCOL.md.
-/
import Gobptree.Ops
import Gobptree.Generated.CheckOrder

namespace Gobptree.Driver
open Gobptree

/-- Unified key: `cls` is compared lexicographically (integers: one element;
    strings: the bytes; Comparable: the class), `tag` is invisible to `lt`. -/
structure DKey where
  cls : List Int
  tag : Int
  deriving Repr, Inhabited, BEq

def lexLt : List Int → List Int → Bool
  | [], [] => false
  | [], _ :: _ => true
  | _ :: _, [] => false
  | a :: as, b :: bs => if a < b then true else if b < a then false else lexLt as bs

def DKey.lt (a b : DKey) : Bool := lexLt a.cls b.cls

abbrev DVal := Option Int

def parseInt? (s : String) : Option Int := s.toInt?

def parseKey? (s : String) : Option DKey :=
  let (c, t) := match s.splitOn "#" with
    | [c] => (c, some 0)
    | [c, t] => (c, parseInt? t)
    | _ => ("", none)
  match t with
  | none => none
  | some t =>
    if c == "_" then some { cls := [], tag := t }
    else
      let parts := c.splitOn "."
      let ints := parts.filterMap parseInt?
      if ints.length == parts.length then some { cls := ints, tag := t } else none

def showKey (k : DKey) : String :=
  let c := if k.cls.isEmpty then "_" else ".".intercalate (k.cls.map toString)
  if k.tag == 0 then c else c ++ "#" ++ toString k.tag

def parseVal? (s : String) : Option DVal :=
  if s == "nil" then some none else (parseInt? s).map some

def showVal : DVal → String
  | none => "nil"
  | some n => toString n

/-- callbacks: `c<val>` constant, `a<d>` add (absent / nil count as 0) -/
def parseCb? (s : String) : Option (Option DVal → DVal) :=
  if s.startsWith "c" then (parseVal? (s.drop 1).toString).map (fun v => fun _ => v)
  else if s.startsWith "a" then (parseInt? (s.drop 1).toString).map (fun d => fun
    | some (some n) => some (n + d)
    | _ => some d)
  else none

def paramsFor (ty : String) (order : Nat) : Option (Params DKey) :=
  let mk (pad : Option DKey → Option DKey) : Params DKey := { lt := DKey.lt, pad := pad, order := order }
  match ty with
  | "i32" | "i64" | "u32" | "u64" => some (mk fun _ => some { cls := [0], tag := 0 })
  | "str" => some (mk fun _ => some { cls := [], tag := 0 })
  | "cmp" => some (mk fun k => k.map fun _ => { cls := [-999999], tag := -1 })
  | _ => none

/-! canonical structure dump -/

def ordOf (ls : List (Leaf DKey DVal)) (id : Nat) : String :=
  match ls.findIdx? (fun l => l.id == id) with
  | some i => toString i
  | none => "x"

def showNode (ls : List (Leaf DKey DVal)) : (d : Nat) → Node DKey DVal d → String
  | 0, (l : Leaf DKey DVal) =>
    "L" ++ ordOf ls l.id ++ "{" ++ " ".intercalate (l.keys.map showKey) ++ "|" ++
      " ".intercalate (l.vals.map showVal) ++ "}>" ++
      (match l.next with | none => "-" | some n => ordOf ls n)
  | d + 1, (i : Inner DKey (Node DKey DVal d)) =>
    "I{" ++ " ".intercalate (i.runts.map showKey) ++ "}(" ++
      " ".intercalate (i.kids.map (showNode ls d)) ++ ")"

def showTree (t : Tree DKey DVal) : String :=
  showNode (Node.leaves t.root) t.depth t.root

structure Slot where
  tree   : Option (Tree DKey DVal) := none
  params : Option (Params DKey) := none
  dead   : Bool := false

structure St where
  tree   : Option (Tree DKey DVal) := none
  params : Option (Params DKey) := none
  dead   : Bool := false
  vr     : Variant := {}
  cur    : String := "0"
  slots  : List (String × Slot) := []

def St.save (st : St) : List (String × Slot) :=
  (st.cur, { tree := st.tree, params := st.params, dead := st.dead }) :: st.slots.filter (·.1 ≠ st.cur)

def showPairs (ps : List (DKey × DVal)) : String :=
  " ".intercalate (ps.map fun (k, v) => showKey k ++ "=" ++ showVal v)

def step (st : St) (line : String) : St × String :=
  let toks := (line.trimAscii.toString.splitOn " ").filter (· ≠ "")
  match toks with
  | ["variant", name] =>
    let vr : Option Variant := match name with
      | "current" => some {}
      | "minfull" => some { minFull := true }
      | "norefresh" => some { noRefreshLeft := true }
      | "clamped" => some { clampedStart := true }
      | "asfound" => some { minFull := true, noRefreshLeft := true, clampedStart := true }
      | "asfound23" => some { noRefreshLeft := true, clampedStart := true }
      | _ => none
    match vr with
    | some vr => ({ st with vr := vr }, "variant ok")
    | none => (st, "bad-op")
  | ["begin"] => ({ vr := st.vr }, "begin")
  | ["slot", n] =>
    let saved := st.save
    let sl : Slot := match saved.find? (·.1 == n) with
      | some (_, sl) => sl
      | none => {}
    ({ st with slots := saved, cur := n, tree := sl.tree, params := sl.params, dead := sl.dead }, "slot ok")
  | ["chk", ord] =>
    match parseInt? ord with
    | none => (st, "bad-op")
    | some o => (st, if Generated.checkOrderGen (BitVec.ofInt 64 o) then "chk ok" else "chk err")
  | ["new", ty, ord] =>
    match parseInt? ord with
    | none => (st, "bad-op")
    | some o =>
      if Generated.checkOrderGen (BitVec.ofInt 64 o) then
        match paramsFor ty o.toNat with
        | some P => ({ st with tree := some (Tree.new o.toNat), params := some P, dead := false }, "new ok")
        | none => (st, "bad-op")
      else ({ st with tree := none, params := none, dead := false }, "new err")
  | op :: args =>
    match st.tree, st.params with
    | some t, some P =>
      if st.dead then (st, "dead") else
      let fail : St × String := ({ st with dead := true }, "panic")
      match op, args with
      | "ins", [k, v] =>
        match parseKey? k, parseVal? v with
        | some k, some v =>
          match t.insert P k v with
          | .ok t' => ({ st with tree := some t' }, "ok")
          | .error _ => fail
        | _, _ => (st, "bad-op")
      | "upd", [k, cb] =>
        match parseKey? k, parseCb? cb with
        | some k, some f =>
          match t.update P k f with
          | .ok (t', arg) =>
            ({ st with tree := some t' }, "ok cb:" ++ (match arg with | none => "absent" | some v => showVal v))
          | .error _ => fail
        | _, _ => (st, "bad-op")
      | "del", [k] =>
        match parseKey? k with
        | some k =>
          match t.delete P st.vr k with
          | .ok t' => ({ st with tree := some t' }, "ok")
          | .error _ => fail
        | none => (st, "bad-op")
      | "get", [k] =>
        match parseKey? k with
        | some k =>
          match t.search P k with
          | .ok none => (st, "absent")
          | .ok (some v) => (st, "val:" ++ showVal v)
          | .error _ => fail
        | none => (st, "bad-op")
      | "scan", [k, n] =>
        match parseKey? k, parseInt? n with
        | some k, some n =>
          let limit : Option Nat := if n < 0 then none else some n.toNat
          let fuel := (t.abs.length + (Node.leaves t.root).length + 2)
          match t.scanFrom P st.vr k limit fuel with
          | .ok (ps, ended) =>
            let body := showPairs ps
            (st, "scan " ++ body ++ (if body.isEmpty then "" else " ") ++ (if ended then "end" else "closed"))
          | .error _ => fail
        | _, _ => (st, "bad-op")
      | "snap", [] => (st, "snap " ++ showTree t)
      | _, _ => (st, "bad-op")
    | _, _ => (st, "no-tree")
  | [] => (st, "bad-op")

partial def loop (h : IO.FS.Stream) (out : IO.FS.Stream) (st : St) : IO Unit := do
  let line ← h.getLine
  if line.isEmpty then return ()
  let (st', o) := step st line
  out.putStrLn o
  loop h out st'

end Gobptree.Driver
