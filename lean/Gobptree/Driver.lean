/-
  Line-protocol driver for the sequential model (core-only, links as `model`).
  One op per input line, one result line per op; see harness/PROTOCOL.md.
-/
import Gobptree.Ops
import Gobptree.Generated.CheckOrder
import Std.Data.HashMap

namespace Gobptree.Driver
open Gobptree

/-- Unified key: `cls` is compared lexicographically (integers: one element;
    strings: the bytes; Comparable: the class), `tag` is invisible to `lt`. -/
structure DKey where
  cls : List Int
  tag : Int
  deriving Repr, Inhabited, BEq

def lexLt : List Int → List Int → Bool
  | [], [] => false
  | [], _ :: _ => true
  | _ :: _, [] => false
  | a :: as, b :: bs => if a < b then true else if b < a then false else lexLt as bs

def DKey.lt (a b : DKey) : Bool := lexLt a.cls b.cls

/-- A non-nil client value: an `int64` or a `[]int64` (written `[1,2,3]`; the slice makes
    the Go `interface{}` value uncomparable, which the model does not care about). -/
inductive DV where
  | int (n : Int)
  | list (l : List Int)
  deriving Repr, Inhabited, BEq

/-- `none` is Go's `nil`. -/
abbrev DVal := Option DV

def parseInt? (s : String) : Option Int := s.toInt?

def parseKey? (s : String) : Option DKey :=
  let (c, t) := match s.splitOn "#" with
    | [c] => (c, some 0)
    | [c, t] => (c, parseInt? t)
    | _ => ("", none)
  match t with
  | none => none
  | some t =>
    if c == "_" then some { cls := [], tag := t }
    else
      let parts := c.splitOn "."
      let ints := parts.filterMap parseInt?
      if ints.length == parts.length then some { cls := ints, tag := t } else none

def showKey (k : DKey) : String :=
  let c := if k.cls.isEmpty then "_" else ".".intercalate (k.cls.map toString)
  if k.tag == 0 then c else c ++ "#" ++ toString k.tag

def parseVal? (s : String) : Option DVal :=
  if s == "nil" then some none
  else if s.startsWith "[" && s.endsWith "]" && s.length ≥ 2 then
    let body := ((s.drop 1).dropEnd 1).toString
    if body.isEmpty then some (some (.list []))
    else
      let parts := body.splitOn ","
      let ints := parts.filterMap parseInt?
      if ints.length == parts.length then some (some (.list ints)) else none
  else (parseInt? s).map fun n => some (.int n)

def showVal : DVal → String
  | none => "nil"
  | some (.int n) => toString n
  | some (.list l) => "[" ++ ",".intercalate (l.map toString) ++ "]"

/-- callbacks: `c<val>` constant, `a<d>` add (absent / nil / a slice count as 0),
    `ap<i>` append to the stored slice (absent / nil / an int: the slice `[i]`) -/
def parseCb? (s : String) : Option (Option DVal → DVal) :=
  if s.startsWith "c" then (parseVal? (s.drop 1).toString).map (fun v => fun _ => v)
  else if s.startsWith "ap" then (parseInt? (s.drop 2).toString).map (fun d => fun
    | some (some (.list l)) => some (.list (l ++ [d]))
    | _ => some (.list [d]))
  else if s.startsWith "a" then (parseInt? (s.drop 1).toString).map (fun d => fun
    | some (some (.int n)) => some (.int (n + d))
    | _ => some (.int d))
  else none

/-- key number `j` of the `bulk` line (adapter.BulkKey on the Go side) -/
def bulkKey (ty : String) (j : Int) : Option DKey :=
  if ty == "str" then
    if j < 0 then none else
    let n := j.toNat
    some { cls := [((n / 40000 + 33 : Nat) : Int), ((n / 200 % 200 + 33 : Nat) : Int), ((n % 200 + 33 : Nat) : Int)], tag := 0 }
  else some { cls := [j], tag := 0 }

/-- FNV-1a (64 bit) over the characters of `s` (all tokens are ASCII) -/
def fnvAdd (h : UInt64) (s : String) : UInt64 :=
  s.foldl (fun h c => (h ^^^ c.toNat.toUInt64) * 1099511628211) h

def fnvOffset : UInt64 := 14695981039346656037

def hex16 (h : UInt64) : String :=
  let ds := (Nat.toDigits 16 h.toNat)
  String.ofList (List.replicate (16 - ds.length) '0' ++ ds)

def paramsFor (ty : String) (order : Nat) : Option (Params DKey) :=
  let mk (pad : Option DKey → Option DKey) : Params DKey := { lt := DKey.lt, pad := pad, order := order }
  match ty with
  | "i32" | "i64" | "u32" | "u64" => some (mk fun _ => some { cls := [0], tag := 0 })
  | "str" => some (mk fun _ => some { cls := [], tag := 0 })
  | "cmp" => some (mk fun k => k.map fun _ => { cls := [-999999], tag := -1 })
  | _ => none

/-! canonical structure dump -/

def ordOf (ls : List (Leaf DKey DVal)) (id : Nat) : String :=
  match ls.findIdx? (fun l => l.id == id) with
  | some i => toString i
  | none => "x"

def showNode (ls : List (Leaf DKey DVal)) : (d : Nat) → Node DKey DVal d → String
  | 0, (l : Leaf DKey DVal) =>
    "L" ++ ordOf ls l.id ++ "{" ++ " ".intercalate (l.keys.map showKey) ++ "|" ++
      " ".intercalate (l.vals.map showVal) ++ "}>" ++
      (match l.next with | none => "-" | some n => ordOf ls n)
  | d + 1, (i : Inner DKey (Node DKey DVal d)) =>
    "I{" ++ " ".intercalate (i.runts.map showKey) ++ "}(" ++
      " ".intercalate (i.kids.map (showNode ls d)) ++ ")"

def showTree (t : Tree DKey DVal) : String :=
  showNode (Node.leaves t.root) t.depth t.root

structure Slot where
  tree   : Option (Tree DKey DVal) := none
  params : Option (Params DKey) := none
  dead   : Bool := false
  ty     : String := ""

structure St where
  tree   : Option (Tree DKey DVal) := none
  params : Option (Params DKey) := none
  dead   : Bool := false
  ty     : String := ""
  vr     : Variant := {}
  cur    : String := "0"
  slots  : List (String × Slot) := []

def St.save (st : St) : List (String × Slot) :=
  (st.cur, { tree := st.tree, params := st.params, dead := st.dead, ty := st.ty }) :: st.slots.filter (·.1 ≠ st.cur)

def showPairs (ps : List (DKey × DVal)) : String :=
  " ".intercalate (ps.map fun (k, v) => showKey k ++ "=" ++ showVal v)

/-! ### digest scan (`scand`)

`Tree.scan`/`Tree.pair` look the cursor's leaf up with `Tree.findLeaf`, which walks the whole
tree: a scan over `n` pairs in `L` leaves costs `n * L` steps, too much for a leaf chain of
150 000 leaves. `scanDigest` runs the SAME cursor steps with the leaves indexed once in a hash
map (`scanF`/`pairF` are `Tree.scan`/`Tree.pair` with the lookup replaced); `NewScanner` is the
model's own `Tree.newScanner`. On trees of at most `selfCheckLeaves` leaves the driver also runs
the model's `Tree.scanFrom` and prints `scand-selfcheck-failed` if the two disagree. -/

abbrev LeafMap := Std.HashMap Nat (Leaf DKey DVal)

def scanF (m : LeafMap) (c : Cursor) : R (Cursor × Bool) :=
  match c.leaf with
  | none => throw .nilDeref
  | some id =>
    match m[id]? with
    | none => throw .nilDeref
    | some l =>
      let i := c.i + 1
      if i = (l.keys.length : Int) then
        match l.next with
        | none => pure ({ leaf := none, i := i }, false)
        | some n => pure ({ leaf := some n, i := 0 }, true)
      else pure ({ c with i := i }, true)

def pairF (m : LeafMap) (c : Cursor) : R (DKey × DVal) :=
  match c.leaf with
  | none => throw .nilDeref
  | some id =>
    match m[id]? with
    | none => throw .nilDeref
    | some l =>
      if c.i < 0 then throw .indexOutOfRange else
      match l.keys[c.i.toNat]?, l.vals[c.i.toNat]? with
      | some k, some v => pure (k, v)
      | _, _ => throw .indexOutOfRange

structure Digest where
  n     : Nat := 0
  first : String := "-"
  last  : String := "-"
  h     : UInt64 := fnvOffset
  ended : Bool := false

def Digest.add (d : Digest) (k : DKey) (v : DVal) : Digest :=
  let p := showKey k ++ "=" ++ showVal v
  { d with n := d.n + 1, first := if d.n == 0 then p else d.first, last := p, h := fnvAdd d.h (" " ++ p) }

def Digest.show (d : Digest) : String :=
  "scand n=" ++ toString d.n ++ " first=" ++ d.first ++ " last=" ++ d.last ++ " h=" ++ hex16 d.h ++
    (if d.ended then " end" else " closed")

def scanDigestGo (m : LeafMap) (limit : Option Nat) : Nat → Cursor → Digest → R Digest
  | 0, _, d => pure d
  | fuel + 1, c, d => do
    if limit = some d.n then pure d else
    let (c', more) ← scanF m c
    if !more then pure { d with ended := true }
    else
      let (k, v) ← pairF m c'
      scanDigestGo m limit fuel c' (d.add k v)

def selfCheckLeaves : Nat := 48

def scanDigest (P : Params DKey) (vr : Variant) (t : Tree DKey DVal) (key : DKey) (limit : Option Nat) :
    R (Digest × Bool) := do
  let ls := Node.leaves t.root
  let m : LeafMap := ls.foldl (fun m l => m.insert l.id l) {}
  let fuel := t.abs.length + ls.length + 2
  let c ← t.newScanner P vr key
  let d ← scanDigestGo m limit fuel c {}
  if ls.length ≤ selfCheckLeaves then
    let (ps, ended) ← t.scanFrom P vr key limit fuel
    let d' : Digest := { ps.foldl (fun d (k, v) => d.add k v) ({} : Digest) with ended := ended }
    pure (d, d.show == d'.show)
  else pure (d, true)

def bulkInsert (P : Params DKey) (ty : String) (from_ step : Int) :
    Nat → Nat → Tree DKey DVal → Option (Tree DKey DVal)
  | 0, _, t => some t
  | n + 1, i, t =>
    match bulkKey ty (from_ + (i : Int) * step) with
    | none => none
    | some k =>
      match t.insert P k (some (.int ((i % 89 : Nat) : Int))) with
      | .ok t' => bulkInsert P ty from_ step n (i + 1) t'
      | .error _ => none

def step (st : St) (line : String) : St × String :=
  let toks := (line.trimAscii.toString.splitOn " ").filter (· ≠ "")
  match toks with
  | ["variant", name] =>
    let vr : Option Variant := match name with
      | "current" => some {}
      | "minfull" => some { minFull := true }
      | "norefresh" => some { noRefreshLeft := true }
      | "clamped" => some { clampedStart := true }
      | "asfound" => some { minFull := true, noRefreshLeft := true, clampedStart := true }
      | "asfound23" => some { noRefreshLeft := true, clampedStart := true }
      | _ => none
    match vr with
    | some vr => ({ st with vr := vr }, "variant ok")
    | none => (st, "bad-op")
  | ["begin"] => ({ vr := st.vr }, "begin")
  | ["slot", n] =>
    let saved := st.save
    let sl : Slot := match saved.find? (·.1 == n) with
      | some (_, sl) => sl
      | none => {}
    ({ st with slots := saved, cur := n, tree := sl.tree, params := sl.params, dead := sl.dead, ty := sl.ty }, "slot ok")
  | ["indep", _] => (st, "indep ok")   -- implementation-side probe (two trees, real goroutines); nothing to model: trees are values
  | ["chk", ord] =>
    match parseInt? ord with
    | none => (st, "bad-op")
    | some o => (st, if Generated.checkOrderGen (BitVec.ofInt 64 o) then "chk ok" else "chk err")
  | ["new", ty, ord] =>
    match parseInt? ord with
    | none => (st, "bad-op")
    | some o =>
      if Generated.checkOrderGen (BitVec.ofInt 64 o) then
        match paramsFor ty o.toNat with
        | some P => ({ st with tree := some (Tree.new o.toNat), params := some P, dead := false, ty := ty }, "new ok")
        | none => (st, "bad-op")
      else ({ st with tree := none, params := none, dead := false }, "new err")
  | op :: args =>
    match st.tree, st.params with
    | some t, some P =>
      if st.dead then (st, "dead") else
      let fail : St × String := ({ st with dead := true }, "panic")
      match op, args with
      | "ins", [k, v] =>
        match parseKey? k, parseVal? v with
        | some k, some v =>
          match t.insert P k v with
          | .ok t' => ({ st with tree := some t' }, "ok")
          | .error _ => fail
        | _, _ => (st, "bad-op")
      | "upd", [k, cb] =>
        match parseKey? k, parseCb? cb with
        | some k, some f =>
          match t.update P k f with
          | .ok (t', arg) =>
            ({ st with tree := some t' }, "ok cb:" ++ (match arg with | none => "absent" | some v => showVal v))
          | .error _ => fail
        | _, _ => (st, "bad-op")
      | "del", [k] =>
        match parseKey? k with
        | some k =>
          match t.delete P st.vr k with
          | .ok t' => ({ st with tree := some t' }, "ok")
          | .error _ => fail
        | none => (st, "bad-op")
      | "get", [k] =>
        match parseKey? k with
        | some k =>
          match t.search P k with
          | .ok none => (st, "absent")
          | .ok (some v) => (st, "val:" ++ showVal v)
          | .error _ => fail
        | none => (st, "bad-op")
      | "scan", [k, n] =>
        match parseKey? k, parseInt? n with
        | some k, some n =>
          let limit : Option Nat := if n < 0 then none else some n.toNat
          let fuel := (t.abs.length + (Node.leaves t.root).length + 2)
          match t.scanFrom P st.vr k limit fuel with
          | .ok (ps, ended) =>
            let body := showPairs ps
            (st, "scan " ++ body ++ (if body.isEmpty then "" else " ") ++ (if ended then "end" else "closed"))
          | .error _ => fail
        | _, _ => (st, "bad-op")
      | "snap", [] => (st, "snap " ++ showTree t)
      | "opt", ["sweep", k] =>
        match parseInt? k with
        | some k => if k < 0 then (st, "bad-op") else (st, "opt ok")
        | none => (st, "bad-op")
      | "locks", [] => (st, "locks")
      | "bulk", [a, n, s] =>
        match parseInt? a, parseInt? n, parseInt? s with
        | some a, some n, some s =>
          if n < 0 then (st, "bad-op") else
          match bulkInsert P st.ty a s n.toNat 0 t with
          | some t' => ({ st with tree := some t' }, "bulk ok")
          | none => fail
        | _, _, _ => (st, "bad-op")
      | "scand", [k, n] =>
        match parseKey? k, parseInt? n with
        | some k, some n =>
          let limit : Option Nat := if n < 0 then none else some n.toNat
          match scanDigest P st.vr t k limit with
          | .ok (d, true) => (st, d.show)
          | .ok (_, false) => (st, "scand-selfcheck-failed")
          | .error _ => fail
        | _, _ => (st, "bad-op")
      | _, _ => (st, "bad-op")
    | _, _ => (st, "no-tree")
  | [] => (st, "bad-op")

partial def loop (h : IO.FS.Stream) (out : IO.FS.Stream) (st : St) : IO Unit := do
  let line ← h.getLine
  if line.isEmpty then return ()
  let (st', o) := step st line
  out.putStrLn o
  loop h out st'

end Gobptree.Driver
