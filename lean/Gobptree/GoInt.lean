/-
  The little of Go's semantics the REGENERATED definitions (`Generated/SearchGen.lean`, written by
  harness/cmd/gen_search from the six source files on every run) refer to.
-/
namespace Gobptree

/-- `xs[i]` for a Go `int` index: a negative or too large index is a run-time panic (`none`). -/
def goIdx {α : Type} (xs : List α) (i : Int) : Option α :=
  if i < 0 then none else xs[i.toNat]?

/-- Go's `int` arithmetic on the supported (64-bit) targets: results wrap into `[-2^63, 2^63)`. -/
def w64 (x : Int) : Int := (x + 9223372036854775808) % 18446744073709551616 - 9223372036854775808

theorem w64_id (x : Int) (h1 : -9223372036854775808 ≤ x) (h2 : x < 9223372036854775808) : w64 x = x := by
  unfold w64; omega

end Gobptree
