/-
  The little of Go's semantics the REGENERATED definitions (`Generated/SearchGen.lean`, written by
  harness/cmd/gen_search from the six source files on every run) refer to.
-/
namespace Gobptree

/-- `xs[i]` for a Go `int` index: a negative or too large index is a run-time panic (`none`). -/
def goIdx {α : Type} (xs : List α) (i : Int) : Option α :=
  if i < 0 then none else xs[i.toNat]?

end Gobptree
