/-
  Small-step concurrent semantics of gobptree at lock-acquisition granularity.

  A thread is always parked at a `Lock()` call (enabled iff the mutex is free), at a
  client/callback `Yield` (always enabled), at its start, or finished. One `step` of a
  thread = it is granted what it waits for and runs up to its next park. The code
  between two parks mirrors int64.go (current /repo: rootMutex coupled into the root,
  Delete locking left sibling → child → right sibling, deferred unlocks).

  The tree is the same depth-indexed value as in the sequential model; nodes are
  addressed by their `id`, which doubles as the name of the node's mutex.
-/
import Gobptree.Ops

namespace Gobptree.Conc
open Gobptree

variable {K V : Type}

/-- mutex names -/
inductive Lk where
  | tree            -- `rootMutex`
  | node (id : Nat) -- a node's `mutex`
  deriving DecidableEq, Repr, Inhabited

/-- client operations of a thread's program -/
inductive COp (K V : Type) where
  | ins (k : K) (v : V)
  | upd (k : K) (f : Option V → V) (yields : Bool)
  | del (k : K)
  | get (k : K)
  | ns (k : K)
  | scan
  | pair
  | close
  | pause

inductive Res (K V : Type) where
  | ok
  | found (v : Option V)
  | bool (b : Bool)
  | pair (k : K) (v : V)
  | skip
  | panic

inductive Note (K V : Type) where
  | inv (idx : Nat)
  | ret (idx : Nat) (r : Res K V)
  | cb (arg : Option V)

inductive Ev (K V : Type) where
  | acq (t : Nat) (l : Lk)
  | rel (t : Nat) (l : Lk)
  | note (t : Nat) (n : Note K V)
  | dec (t : Nat) (enabled : List Nat)

/-! ### addressing nodes by id -/

/-- a node of some height -/
structure AnyNode (K V : Type) where
  d : Nat
  n : Node K V d

def findNode (id : Nat) : (d : Nat) → Node K V d → Option (AnyNode K V)
  | 0, (l : Leaf K V) => if l.id = id then some ⟨0, l⟩ else none
  | d + 1, (i : Inner K (Node K V d)) =>
    if i.id = id then some ⟨d + 1, i⟩
    else i.kids.findSome? (findNode id d)

/-- rewrite the node with the given id by a height-polymorphic function -/
def modifyNode (id : Nat) (f : (d : Nat) → Node K V d → Node K V d) : (d : Nat) → Node K V d → Node K V d
  | 0, (l : Leaf K V) => if l.id = id then f 0 l else l
  | d + 1, (i : Inner K (Node K V d)) =>
    if i.id = id then f (d + 1) i
    else ({ i with kids := i.kids.map (modifyNode id f d) } : Inner K (Node K V d))

def _root_.Gobptree.Tree.find (t : Tree K V) (id : Nat) : Option (AnyNode K V) := findNode id t.depth t.root

def _root_.Gobptree.Tree.modify (t : Tree K V) (id : Nat) (f : (d : Nat) → Node K V d → Node K V d) : Tree K V :=
  { t with root := modifyNode id f t.depth t.root }

def _root_.Gobptree.Tree.rootId (t : Tree K V) : Nat := Node.id t.root

/-! ### thread state -/

/-- one activation record of the recursive `deleteKey` -/
structure Frame where
  node  : Nat          -- the internal node this frame runs on (held)
  index : Nat
  left  : Option Nat   -- left sibling locked by this frame
  child : Nat
  deriving Repr, Inhabited

/-- where a parked thread resumes -/
inductive Kont (K V : Type) where
  /- Search / NewScanner: holding `hold`, waiting for node `want` -/
  | roTree (scanner : Bool) (key : K)
  | roNode (scanner : Bool) (key : K) (hold : Lk) (want : Nat)
  /- Insert / Update -/
  | upTree (key : K) (f : Option V → V) (yields : Option Bool)
  | upRoot (key : K) (f : Option V → V) (yields : Option Bool) (root : Nat)
  | upRootSib (key : K) (f : Option V → V) (yields : Option Bool) (root sib : Nat)
  | upChild (key : K) (f : Option V → V) (yields : Option Bool) (parent index child : Nat)
  | upSib (key : K) (f : Option V → V) (yields : Option Bool) (parent child sib : Nat)
  | upCallback (key : K) (f : Option V → V) (leaf : Nat) (arg : Option V)
  /- Delete -/
  | delTree (key : K)
  | delRoot (key : K) (root : Nat)
  | delLeft (key : K) (frames : List Frame) (node index left : Nat) (root : Nat)
  | delChild (key : K) (frames : List Frame) (node index : Nat) (left : Option Nat) (child : Nat) (root : Nat)
  | delRight (key : K) (frames : List Frame) (fr : Frame) (right : Nat) (root : Nat)
  /- cursor hop -/
  | hop (cur next : Nat)
  /- client pause -/
  | paused

inductive Park (K V : Type) where
  | start
  | want (l : Lk) (k : Kont K V)
  | yielded (k : Kont K V)
  | finished

structure Thread (K V : Type) where
  prog   : List (COp K V)
  pc     : Nat                       -- index of the current operation
  park   : Park K V
  held   : List Lk                   -- most recently acquired last
  cursor : Option (Option Nat × Int) -- `some (leaf?, i)`: a cursor object exists
  exhausted : Bool

structure Config (K V : Type) where
  P       : Params K
  tree    : Tree K V
  owner   : List (Lk × Nat)
  threads : List (Thread K V)
  log     : List (Ev K V)            -- newest first
  dead    : Bool                     -- a thread panicked

def Config.holder (c : Config K V) (l : Lk) : Option Nat :=
  (c.owner.find? (fun p => p.1 = l)).map (·.2)

def Thread.enabled (c : Config K V) (th : Thread K V) : Bool :=
  match th.park with
  | .start => true
  | .yielded _ => true
  | .finished => false
  | .want l _ => (c.holder l).isNone

def Config.enabledSet (c : Config K V) : List Nat :=
  (List.range c.threads.length).filter fun i =>
    match c.threads[i]? with
    | some th => th.enabled c
    | none => false

/-! ### the code between two parks -/

/-- result of running a thread until it parks again -/
inductive Flow (K V : Type) where
  | park (p : Park K V)              -- parked inside the current operation
  | done (r : Res K V)               -- the current operation returned
  | panic

structure St (K V : Type) where
  tree   : Tree K V
  owner  : List (Lk × Nat)
  held   : List Lk
  cursor : Option (Option Nat × Int)
  exhausted : Bool
  evs    : List (Ev K V)             -- newest first

def St.acq (s : St K V) (t : Nat) (l : Lk) : St K V :=
  { s with owner := (l, t) :: s.owner, held := s.held ++ [l], evs := Ev.acq t l :: s.evs }

/-- `Unlock`: drops one occurrence of the lock from the thread's held list and the
    owner table (a lock is never held twice, so this is "the" occurrence) -/
def St.rel (s : St K V) (t : Nat) (l : Lk) : St K V :=
  { s with owner := s.owner.erase (l, t), held := s.held.erase l, evs := Ev.rel t l :: s.evs }

def St.note (s : St K V) (t : Nat) (n : Note K V) : St K V :=
  { s with evs := Ev.note t n :: s.evs }

def leafOf? (a : AnyNode K V) : Option (Leaf K V) :=
  match a with
  | ⟨0, (l : Leaf K V)⟩ => some l
  | _ => none

def innerKidId? (a : AnyNode K V) (idx : Nat) : Option Nat :=
  match a with
  | ⟨0, _⟩ => none
  | ⟨_ + 1, (i : Inner K _)⟩ => (i.kids[idx]?).map Node.id

def innerRunts? (a : AnyNode K V) : Option (List K) :=
  match a with
  | ⟨0, _⟩ => none
  | ⟨_ + 1, (i : Inner K _)⟩ => some i.runts

/-- Search / NewScanner after acquiring node `n` (the previous lock `hold` is released first) -/
def roArrive (P : Params K) (t : Nat) (s : St K V) (scanner : Bool) (key : K) (hold : Lk) (n : Nat) :
    St K V × Flow K V :=
  let s := s.rel t hold
  match s.tree.find n with
  | none => (s, .panic)
  | some a =>
    match leafOf? a with
    | some l =>
      if scanner then
        let idx := startIndex P {} key l
        ({ s with cursor := some (some n, (idx : Int) - 1), exhausted := false }, .done .ok)
      else
        match Leaf.search P l key with
        | .ok v => (s.rel t (.node n), .done (.found v))
        | .error _ => (s, .panic)
    | none =>
      match innerRunts? a with
      | none => (s, .panic)
      | some runts =>
        match innerKidId? a (searchLE P.lt key runts) with
        | none => (s, .panic)
        | some c => (s, .park (.want (.node c) (.roNode scanner key (.node n) c)))

/-- write a leaf back -/
def putLeaf (tr : Tree K V) (l : Leaf K V) : Tree K V :=
  tr.modify l.id (fun d n => match d, n with
    | 0, _ => (l : Leaf K V)
    | _ + 1, n => n)

/-- write an inner node's own fields (`runts`, `kids`) back -/
def putInner {d : Nat} (tr : Tree K V) (i : Inner K (Node K V d)) : Tree K V :=
  tr.modify i.id (fun d' n => if h : d' = d + 1 then h ▸ (i : Node K V (d + 1)) else n)

/-- leaf part of Insert/Update, holding the leaf -/
def upLeaf (P : Params K) (t : Nat) (s : St K V) (key : K) (f : Option V → V) (yields : Option Bool) (n : Nat) (l : Leaf K V) :
    St K V × Flow K V :=
  -- the callback argument is what `Leaf.upsert` hands to the callback
  match Leaf.upsert P l key f with
  | .error _ => (s, .panic)
  | .ok (l', arg) =>
    match yields with
    | some true =>
      let s := s.note t (.cb arg)
      (s, .park (.yielded (.upCallback key f n arg)))
    | some false =>
      let s := s.note t (.cb arg)
      let s := { s with tree := putLeaf s.tree l' }
      (s.rel t (.node n), .done .ok)
    | none =>
      let s := { s with tree := putLeaf s.tree l' }
      (s.rel t (.node n), .done .ok)

/-- continue the Insert/Update descent at node `n`, which the thread holds -/
def upContinue (P : Params K) (t : Nat) (s : St K V) (key : K) (f : Option V → V) (yields : Option Bool) (n : Nat) :
    St K V × Flow K V :=
  match s.tree.find n with
  | none => (s, .panic)
  | some a =>
    match leafOf? a with
    | some l => upLeaf P t s key f yields n l
    | none =>
      match innerRunts? a with
      | none => (s, .panic)
      | some runts =>
        let index := searchLE P.lt key runts
        match innerKidId? a index with
        | none => (s, .panic)
        | some c => (s, .park (.want (.node c) (.upChild key f yields n index c)))

/-- after acquiring the child in the descent loop (int64.go 397-427) -/
def upChildArrive (P : Params K) (t : Nat) (s : St K V) (key : K) (f : Option V → V) (yields : Option Bool)
    (parent index child : Nat) : St K V × Flow K V :=
  match s.tree.find parent with
  | some ⟨d + 1, (p : Inner K (Node K V d))⟩ =>
    match p.kids[index]? with
    | none => (s, .panic)
    | some c =>
      match lowerFirst P key index p.runts c with
      | .error _ => (s, .panic)
      | .ok runts =>
        match Node.maybeSplit P.order s.tree.nextId c with
        | .error _ => (s, .panic)
        | .ok (left, none) =>
          let p' : Inner K (Node K V d) := { p with runts := runts, kids := p.kids.set index left }
          let s := { s with tree := putInner s.tree p' }
          let s := s.rel t (.node parent)
          upContinue P t s key f yields child
        | .ok (left, some right) =>
          match P.pad (some key), Node.smallest right with
          | some pad, .ok rs =>
            let runts' := insertIdiom pad runts (index + 1) rs
            let kids' := (insertIdiom right p.kids (index + 1) right).set index left
            let p' : Inner K (Node K V d) := { p with runts := runts', kids := kids' }
            let tr := putInner s.tree p'
            let s := { s with tree := { tr with nextId := tr.nextId + 1 } }
            if !P.lt key rs then
              (s, .park (.want (.node (Node.id right)) (.upSib key f yields parent child (Node.id right))))
            else
              let s := s.rel t (.node parent)
              upContinue P t s key f yields child
          | _, _ => (s, .panic)
  | _ => (s, .panic)

/-- after acquiring the root (int64.go 377-400) -/
def upRootArrive (P : Params K) (t : Nat) (s : St K V) (key : K) (f : Option V → V) (yields : Option Bool) (root : Nat) :
    St K V × Flow K V :=
  let tr := s.tree
  match Node.maybeSplit tr.order tr.nextId tr.root with
  | .error _ => (s, .panic)
  | .ok (_, none) =>
    let s := s.rel t .tree
    upContinue P t s key f yields root
  | .ok (left, some right) =>
    match Node.smallest left, Node.smallest right with
    | .ok ls, .ok rs =>
      let ls := if P.lt key ls then key else ls
      let newRoot : Inner K (Node K V tr.depth) := { id := tr.nextId + 1, runts := [ls, rs], kids := [left, right] }
      let tr' : Tree K V := { order := tr.order, depth := tr.depth + 1, root := newRoot, nextId := tr.nextId + 2 }
      let s := { s with tree := tr' }
      if !P.lt key rs then
        (s, .park (.want (.node (Node.id right)) (.upRootSib key f yields root (Node.id right))))
      else
        let s := s.rel t .tree
        upContinue P t s key f yields root
    | _, _ => (s, .panic)

/-! #### Delete -/

/-- the deferred unlocks of one `deleteKey` activation: right, child, left -/
def relOpt (t : Nat) (s : St K V) : Option Nat → St K V
  | some r => s.rel t (.node r)
  | none => s

def frameUnlock (t : Nat) (s : St K V) (fr : Frame) (right : Option Nat) : St K V :=
  relOpt t ((relOpt t s right).rel t (.node fr.child)) fr.left

/-- enter `deleteKey` on node `n` (held): either work on the leaf or ask for the
    first lock of the internal node's activation -/
def delEnter (P : Params K) (t : Nat) (s : St K V) (key : K) (frames : List Frame) (n : Nat) (rootWas : Nat) :
    St K V × Flow K V × Option (List Frame × Bool) :=
  match s.tree.find n with
  | none => (s, .panic, none)
  | some a =>
    match leafOf? a with
    | some l =>
      match Leaf.deleteKey P l (P.order >>> 1) key with
      | .error _ => (s, .panic, none)
      | .ok (l', small) =>
        ({ s with tree := putLeaf s.tree l' }, .done .ok, some (frames, small))
    | none =>
      match innerRunts? a with
      | none => (s, .panic, none)
      | some runts =>
        let index := searchLE P.lt key runts
        if index > 0 then
          match innerKidId? a (index - 1) with
          | none => (s, .panic, none)
          | some l => (s, .park (.want (.node l) (.delLeft key frames n index l rootWas)), none)
        else
          match innerKidId? a index with
          | none => (s, .panic, none)
          | some c => (s, .park (.want (.node c) (.delChild key frames n index none c rootWas)), none)

/-- the tail of `Delete` once the root's `deleteKey` has returned -/
def delFinish (t : Nat) (s : St K V) (small : Bool) (rootWas : Nat) : St K V × Flow K V :=
  let tr := s.tree
  let s :=
    if !small ∨ Node.count tr.root > 1 then s
    else
      match collapseRoot tr.order tr.nextId tr.depth tr.root with
      | .ok tr' => { s with tree := tr' }
      | .error _ => s
  -- deferred: root.unlock(), rootMutex.Unlock()
  let s := s.rel t (.node rootWas)
  (s.rel t .tree, .done .ok)

/-- unwind the activations after a callee returned `small` -/
def delUnwind (P : Params K) (t : Nat) (s : St K V) (key : K) (frames : List Frame) (small : Bool)
    (rootWas : Nat) : St K V × Flow K V :=
  match frames with
  | [] => delFinish t s small rootWas
  | fr :: rest =>
    if !small then
      delUnwind P t (frameUnlock t s fr none) key rest false rootWas
    else
      match s.tree.find fr.node with
      | some ⟨d + 1, (i : Inner K (Node K V d))⟩ =>
        if fr.index + 1 < i.runts.length then
          match (i.kids[fr.index + 1]?).map Node.id with
          | none => (s, .panic)
          | some r => (s, .park (.want (.node r) (.delRight key rest fr r rootWas)))
        else
          match i.kids[fr.index]? with
          | none => (s, .panic)
          | some child =>
            match rebalance P {} (P.order >>> 1) i fr.index child with
            | .error _ => (s, .panic)
            | .ok (i', small') =>
              let s := { s with tree := putInner s.tree i' }
              delUnwind P t (frameUnlock t s fr none) key rest small' rootWas
      | _ => (s, .panic)

/-- after acquiring the right sibling: rebalance, unlock, keep unwinding -/
def delRightArrive (P : Params K) (t : Nat) (s : St K V) (key : K) (rest : List Frame) (fr : Frame)
    (right : Nat) (rootWas : Nat) : St K V × Flow K V :=
  match s.tree.find fr.node with
  | some ⟨d + 1, (i : Inner K (Node K V d))⟩ =>
    match i.kids[fr.index]? with
    | none => (s, .panic)
    | some child =>
      match rebalance P {} (P.order >>> 1) i fr.index child with
      | .error _ => (s, .panic)
      | .ok (i', small') =>
        let s := { s with tree := putInner s.tree i' }
        delUnwind P t (frameUnlock t s fr (some right)) key rest small' rootWas
  | _ => (s, .panic)

/-- run `deleteKey` from node `n` downward, then unwind as far as possible -/
def delGo (P : Params K) (t : Nat) (s : St K V) (key : K) (frames : List Frame) (n : Nat) (rootWas : Nat) :
    St K V × Flow K V :=
  match delEnter P t s key frames n rootWas with
  | (s, fl, none) => (s, fl)
  | (s, _, some (frames, small)) => delUnwind P t s key frames small rootWas

/-! ### resuming a parked thread, starting an operation -/

def resume (P : Params K) (t : Nat) (s : St K V) : Kont K V → St K V × Flow K V
  | .roTree sc key =>
    let s := s.acq t .tree
    let r := s.tree.rootId
    (s, .park (.want (.node r) (.roNode sc key .tree r)))
  | .roNode sc key hold want =>
    roArrive P t (s.acq t (.node want)) sc key hold want
  | .upTree key f y =>
    let s := s.acq t .tree
    let r := s.tree.rootId
    (s, .park (.want (.node r) (.upRoot key f y r)))
  | .upRoot key f y r => upRootArrive P t (s.acq t (.node r)) key f y r
  | .upRootSib key f y root sib =>
    let s := s.acq t (.node sib)
    let s := s.rel t (.node root)
    let s := s.rel t .tree
    upContinue P t s key f y sib
  | .upChild key f y parent index child =>
    upChildArrive P t (s.acq t (.node child)) key f y parent index child
  | .upSib key f y parent child sib =>
    let s := s.acq t (.node sib)
    let s := s.rel t (.node child)
    let s := s.rel t (.node parent)
    upContinue P t s key f y sib
  | .upCallback key f leaf _ =>
    match s.tree.find leaf with
    | some a =>
      match leafOf? a with
      | some l =>
        match Leaf.upsert P l key f with
        | .ok (l', _) =>
          let s := { s with tree := putLeaf s.tree l' }
          (s.rel t (.node leaf), .done .ok)
        | .error _ => (s, .panic)
      | none => (s, .panic)
    | none => (s, .panic)
  | .delTree key =>
    let s := s.acq t .tree
    let r := s.tree.rootId
    (s, .park (.want (.node r) (.delRoot key r)))
  | .delRoot key r => delGo P t (s.acq t (.node r)) key [] r r
  | .delLeft key frames node index left root =>
    let s := s.acq t (.node left)
    match s.tree.find node with
    | some a =>
      match innerKidId? a index with
      | some c => (s, .park (.want (.node c) (.delChild key frames node index (some left) c root)))
      | none => (s, .panic)
    | none => (s, .panic)
  | .delChild key frames node index left child root =>
    let s := s.acq t (.node child)
    delGo P t s key ({ node := node, index := index, left := left, child := child } :: frames) child root
  | .delRight key rest fr right root =>
    delRightArrive P t (s.acq t (.node right)) key rest fr right root
  | .hop cur next =>
    let s := s.acq t (.node next)
    let s := s.rel t (.node cur)
    ({ s with cursor := some (some next, 0) }, .done (.bool true))
  | .paused => (s, .done .ok)

/-- the leaf lock an open cursor holds -/
def cursorLocks (cursor : Option (Option Nat × Int)) : List Lk :=
  match cursor with
  | some (some leaf, _) => [.node leaf]
  | _ => []

/-- client discipline (C06): a goroutine with an open cursor performs no other tree
    operation until the cursor is exhausted or closed. A program that violates it is
    not modelled further: the thread stops with `panic` (misuse). -/
def misuse (s : St K V) : Bool := !(cursorLocks s.cursor).isEmpty

/-- the code of a client operation up to its first park -/
def startOp (t : Nat) (s : St K V) : COp K V → St K V × Flow K V
  | .ins k v => if misuse s then (s, .panic) else (s, .park (.want .tree (.upTree k (fun _ => v) none)))
  | .upd k f y => if misuse s then (s, .panic) else (s, .park (.want .tree (.upTree k f (some y))))
  | .del k => if misuse s then (s, .panic) else (s, .park (.want .tree (.delTree k)))
  | .get k => if misuse s then (s, .panic) else (s, .park (.want .tree (.roTree false k)))
  | .ns k => if misuse s then (s, .panic) else (s, .park (.want .tree (.roTree true k)))
  | .pause => (s, .park (.yielded .paused))
  | .scan =>
    match s.cursor, s.exhausted with
    | some (some leaf, i), false =>
      match (s.tree.find leaf).bind leafOf? with
      | none => (s, .panic)
      | some l =>
        let i := i + 1
        if i = (l.keys.length : Int) then
          match l.next with
          | none =>
            let s := s.rel t (.node leaf)
            ({ s with cursor := some (none, i), exhausted := true }, .done (.bool false))
          | some n => ({ s with cursor := some (some leaf, i) }, .park (.want (.node n) (.hop leaf n)))
        else ({ s with cursor := some (some leaf, i) }, .done (.bool true))
    | _, _ => (s, .done .skip)
  | .pair =>
    match s.cursor, s.exhausted with
    | some (some leaf, i), false =>
      match (s.tree.find leaf).bind leafOf? with
      | none => (s, .panic)
      | some l =>
        if i < 0 then (s, .panic) else
        match l.keys[i.toNat]?, l.vals[i.toNat]? with
        | some k, some v => (s, .done (.pair k v))
        | _, _ => (s, .panic)
    | _, _ => (s, .done .skip)
  | .close =>
    match s.cursor with
    | none => (s, .done .skip)
    | some (leaf?, i) =>
      let s := match leaf? with
        | some leaf => s.rel t (.node leaf)
        | none => s
      ({ s with cursor := some (none, i), exhausted := true }, .done .ok)

/-- after a piece of code ended with `fl`: record returns, start the following
    operations, until the thread parks, finishes or panics -/
def threadLoop (t : Nat) (th : Thread K V) : Nat → St K V → Flow K V → Nat → Thread K V × St K V × Bool
  | fuel, s, fl, pc =>
    match fl with
    | .panic =>
      ({ th with pc := pc, park := .finished, held := s.held, cursor := s.cursor, exhausted := s.exhausted },
        s.note t (.ret pc .panic), true)
    | .park p =>
      ({ th with pc := pc, park := p, held := s.held, cursor := s.cursor, exhausted := s.exhausted }, s, false)
    | .done r =>
      let s := s.note t (.ret pc r)
      match fuel, th.prog[pc + 1]? with
      | fuel + 1, some op =>
        let s := s.note t (.inv (pc + 1))
        threadLoop t th fuel (startOp t s op).1 (startOp t s op).2 (pc + 1)
      | _, _ =>
        ({ th with pc := pc + 1, park := .finished, held := s.held, cursor := s.cursor, exhausted := s.exhausted }, s, false)

/-- run thread `t` from its park until it parks again (or finishes) -/
def runThread (P : Params K) (t : Nat) (th : Thread K V) (s : St K V) : Thread K V × St K V × Bool :=
  match th.park with
  | .start =>
    match th.prog[0]? with
    | none => ({ th with park := .finished }, s, false)
    | some op =>
      let s := s.note t (.inv 0)
      threadLoop t th th.prog.length (startOp t s op).1 (startOp t s op).2 0
  | .want _ k => threadLoop t th th.prog.length (resume P t s k).1 (resume P t s k).2 th.pc
  | .yielded k => threadLoop t th th.prog.length (resume P t s k).1 (resume P t s k).2 th.pc
  | .finished => (th, s, false)

/-- one scheduler decision; `none` if the thread is not enabled -/
def Config.step (c : Config K V) (t : Nat) : Option (Config K V) :=
  match c.threads[t]? with
  | none => none
  | some th =>
    if !th.enabled c then none else
    let s0 : St K V := { tree := c.tree, owner := c.owner, held := th.held, cursor := th.cursor,
                         exhausted := th.exhausted, evs := Ev.dec t c.enabledSet :: c.log }
    let (th', s, died) := runThread c.P t th s0
    some { c with tree := s.tree, owner := s.owner, threads := c.threads.set t th', log := s.evs, dead := c.dead || died }

def Config.init (P : Params K) (tree : Tree K V) (progs : List (List (COp K V))) : Config K V :=
  { P := P, tree := tree, owner := [],
    threads := progs.map fun p => { prog := p, pc := 0, park := .start, held := [], cursor := none, exhausted := false },
    log := [], dead := false }

def Config.run (c : Config K V) : List Nat → Config K V × Option Nat
  | [] => (c, none)
  | t :: ts =>
    match c.step t with
    | none => (c, some t)
    | some c' => c'.run ts

def Config.unfinished (c : Config K V) : Bool :=
  c.threads.any fun th => match th.park with | .finished => false | _ => true

end Gobptree.Conc
