/-
  Running a history of client operations on the model and on the specification.
-/
import Gobptree.Ops
import Gobptree.Spec

namespace Gobptree

variable {K V : Type}

/-- a single-threaded client operation -/
inductive Op (K V : Type) where
  | insert (k : K) (v : V)
  | update (k : K) (f : Option V → V)
  | delete (k : K)
  | search (k : K)

/-- what the client observes -/
inductive Out (V : Type) where
  | done                      -- Insert / Delete returned
  | callback (arg : Option V) -- Update returned; the callback was invoked once with `arg`
  | found (v : Option V)      -- Search returned `(v, true)` or absence

def Op.isDelete : Op K V → Bool
  | .delete _ => true
  | _ => false

/-- one operation on the model; `.error` is a Go panic -/
def Tree.step (P : Params K) (t : Tree K V) : Op K V → R (Tree K V × Out V)
  | .insert k v => do let t' ← t.insert P k v; pure (t', .done)
  | .update k f => do let (t', arg) ← t.update P k f; pure (t', .callback arg)
  | .delete k => do let t' ← t.delete P {} k; pure (t', .done)
  | .search k => do let v ← t.search P k; pure (t, .found v)

/-- a whole history on the model -/
def Tree.run (P : Params K) (t : Tree K V) : List (Op K V) → R (Tree K V × List (Out V))
  | [] => pure (t, [])
  | op :: ops => do
    let (t', o) ← t.step P op
    let (t'', os) ← t'.run P ops
    pure (t'', o :: os)

/-- one operation on the specification -/
def Spec.step (lt : K → K → Bool) (m : List (K × V)) : Op K V → List (K × V) × Out V
  | .insert k v => (Spec.insert lt m k v, .done)
  | .update k f => (Spec.update lt m k f, .callback (Spec.lookup lt m k))
  | .delete k => (Spec.erase lt m k, .done)
  | .search k => (m, .found (Spec.lookup lt m k))

def Spec.run (lt : K → K → Bool) (m : List (K × V)) : List (Op K V) → List (K × V) × List (Out V)
  | [] => (m, [])
  | op :: ops =>
    let (m', o) := Spec.step lt m op
    let (m'', os) := Spec.run lt m' ops
    (m'', o :: os)

end Gobptree
