/-
  The operations of gobptree as structurally recursive functions on the
  depth-indexed tree.  Each `match` arm mirrors a stretch of int64.go (line
  numbers in comments refer to the current /repo/int64.go); the other five
  tree files are the same template.
-/
import Gobptree.Node

namespace Gobptree

variable {K V : Type}

/-! ### Leaf level -/

/-- Leaf part of `Insert`/`Update` (int64.go `ln := n.(*int64LeafNode)` …).
    `f` maps the callback argument (`none` = `(nil,false)`, `some v` = `(v,true)`)
    to the value stored; for `Insert` it is constant.  Returns the new leaf and
    the argument the callback was invoked with. -/
def Leaf.upsert (P : Params K) (l : Leaf K V) (key : K) (f : Option V → V) :
    R (Leaf K V × Option V) :=
  -- `len(ln.runts) == 0 || key > ln.runts[len(ln.runts)-1]`
  let appendPath : Bool := match l.keys.getLast? with
    | none => true
    | some last => P.lt last key
  if appendPath then
    pure ({ l with keys := l.keys ++ [key], vals := l.vals ++ [f none] }, none)
  else
    let index := searchGE P.lt key l.keys
    match l.keys[index]? with
    | none => throw .indexOutOfRange
    | some k =>
      if eqv P.lt key k then
        -- replace
        match l.vals[index]? with
        | none => throw .indexOutOfRange
        | some old => pure ({ l with vals := l.vals.set index (f (some old)) }, some old)
      else
        match P.pad (some key) with
        | none => throw .indexOutOfRange
        | some pad =>
          if l.vals.length < index then throw .indexOutOfRange else
          let v := f none
          pure ({ l with keys := insertIdiom pad l.keys index key,
                         vals := insertIdiom v l.vals index v }, none)

/-- Leaf `deleteKey(minSize, key)`. -/
def Leaf.deleteKey (P : Params K) (l : Leaf K V) (minSize : Nat) (key : K) : R (Leaf K V × Bool) :=
  let index := searchGE P.lt key l.keys
  match l.keys[index]? with
  | none => pure (l, false)                         -- `index == len(l.runts)`
  | some k =>
    if !eqv P.lt key k then pure (l, false)
    else
      if l.vals.length ≤ index then throw .indexOutOfRange else
      let keys := deleteIdiom l.keys index
      let vals := deleteIdiom l.vals index
      pure ({ l with keys := keys, vals := vals }, decide (keys.length < minSize))

/-- Leaf part of `Search`. -/
def Leaf.search (P : Params K) (l : Leaf K V) (key : K) : R (Option V) :=
  if l.keys.length = 0 then pure none
  else
    let i := searchGE P.lt key l.keys
    match l.keys[i]? with
    | none => throw .indexOutOfRange
    | some k =>
      if eqv P.lt key k then
        match l.vals[i]? with
        | none => throw .indexOutOfRange
        | some v => pure (some v)
      else pure none

/-! ### Insert / Update descent -/

/-- "preemptively update smallest value" (int64.go 414-419 / 547-552): when the
    descent takes child 0 and the key is below the node's own first separator
    `parent.runts[0]`, that separator becomes the key. (Before repair F7 the comparison
    was against `child.smallest()`, which could RAISE the separator: defect D7.) -/
def lowerFirst (P : Params K) (key : K) (index : Nat) (runts : List K) {d : Nat} (_child : Node K V d) :
    R (List K) :=
  if index = 0 then
    match runts[0]? with
    | none => .error .indexOutOfRange
    | some smallest => .ok (if P.lt key smallest then runts.set 0 key else runts)
  else .ok runts

/-- One iteration of the `for n.isInternal()` loop of `Insert`/`Update`
    (int64.go 392-427 / 521-556), followed by the rest of the descent.
    Returns the rewritten node, the allocation counter and the callback
    argument. -/
def upsertNode (P : Params K) (key : K) (f : Option V → V) :
    (d : Nat) → Node K V d → Nat → R (Node K V d × Nat × Option V)
  | 0, (l : Leaf K V), nid => do
    let (l', cb) ← Leaf.upsert P l key f
    pure (l', nid, cb)
  | d + 1, (p : Inner K (Node K V d)), nid => do
    let index := searchLE P.lt key p.runts
    let some child := p.kids[index]? | throw .indexOutOfRange
    -- pre-emptive update of the smallest value (399-404)
    let runts ← lowerFirst P key index p.runts child
    -- split the child when required (407-422)
    let (left, right?) ← Node.maybeSplit P.order nid child
    match right? with
    | none =>
      let (c', nid', cb) ← upsertNode P key f d left nid
      pure (({ p with runts := runts, kids := p.kids.set index c' } : Inner K (Node K V d)), nid', cb)
    | some right =>
      let some pad := P.pad (some key) | throw .indexOutOfRange
      let rightSmallest ← Node.smallest right
      let runts' := insertIdiom pad runts (index + 1) rightSmallest
      let kids' := (insertIdiom right p.kids (index + 1) right).set index left
      if !P.lt key rightSmallest then
        let (c', nid', cb) ← upsertNode P key f d right (nid + 1)
        pure (({ p with runts := runts', kids := kids'.set (index + 1) c' } : Inner K (Node K V d)), nid', cb)
      else
        let (c', nid', cb) ← upsertNode P key f d left (nid + 1)
        pure (({ p with runts := runts', kids := kids'.set index c' } : Inner K (Node K V d)), nid', cb)

/-- `Insert`/`Update` at tree level: root split (374-390 / 503-519), then the
    descent. -/
def Tree.upsert (P : Params K) (t : Tree K V) (key : K) (f : Option V → V) : R (Tree K V × Option V) := do
  let (left, right?) ← Node.maybeSplit t.order t.nextId t.root
  match right? with
  | none =>
    let (r', nid, cb) ← upsertNode P key f t.depth left t.nextId
    pure ({ t with root := r', nextId := nid }, cb)
  | some right =>
    let leftSmallest ← Node.smallest left
    let leftSmallest := if P.lt key leftSmallest then key else leftSmallest
    let rightSmallest ← Node.smallest right
    let rootId := t.nextId + 1
    if !P.lt key rightSmallest then
      let (c', nid, cb) ← upsertNode P key f t.depth right (t.nextId + 2)
      let root : Inner K (Node K V t.depth) :=
        { id := rootId, runts := [leftSmallest, rightSmallest], kids := [left, c'] }
      pure ({ order := t.order, depth := t.depth + 1, root := root, nextId := nid }, cb)
    else
      let (c', nid, cb) ← upsertNode P key f t.depth left (t.nextId + 2)
      let root : Inner K (Node K V t.depth) :=
        { id := rootId, runts := [leftSmallest, rightSmallest], kids := [c', right] }
      pure ({ order := t.order, depth := t.depth + 1, root := root, nextId := nid }, cb)

def Tree.insert (P : Params K) (t : Tree K V) (key : K) (v : V) : R (Tree K V) := do
  let (t', _) ← t.upsert P key (fun _ => v)
  pure t'

def Tree.update (P : Params K) (t : Tree K V) (key : K) (f : Option V → V) : R (Tree K V × Option V) :=
  t.upsert P key f

/-! ### Delete -/

/-- The rebalancing half of the internal `deleteKey` (int64.go 126-180), run
    after the child at `index` reported it is too small. `child` is the
    already-rewritten child. -/
def rebalance (P : Params K) (vr : Variant) (minSize : Nat) {d : Nat}
    (i : Inner K (Node K V d)) (index : Nat) (child : Node K V d) : R (Inner K (Node K V d) × Bool) := do
  let hasRight := decide (index + 1 < i.runts.length)   -- `index < len(i.runts)-1`
  let right? : Option (Node K V d) := if hasRight then i.kids[index + 1]? else none
  if hasRight ∧ right?.isNone then throw .indexOutOfRange
  let rightCount := match right? with | some r => Node.count r | none => 0
  -- try right sibling first (129-139)
  match (if rightCount > minSize then right? else none) with
  | some right =>
    let (child', right') ← Node.adoptFromRight child right
    let s ← Node.smallest right'
    if i.runts.length ≤ index + 1 then throw .indexOutOfRange
    pure ({ i with runts := i.runts.set (index + 1) s,
                   kids := (i.kids.set index child').set (index + 1) right' }, false)
  | none =>
  -- try left sibling (142-151)
  let left? : Option (Node K V d) := if index > 0 then i.kids[index - 1]? else none
  if index > 0 ∧ left?.isNone then throw .indexOutOfRange
  let leftCount := match left? with | some l => Node.count l | none => 0
  match (if leftCount > minSize then left? else none) with
  | some left =>
    let (left', child') ← Node.adoptFromLeft P left child
    let runts ← (if vr.noRefreshLeft then pure i.runts else do
        let s ← Node.smallest child'
        if i.runts.length ≤ index then throw .indexOutOfRange
        pure (i.runts.set index s) : R (List K))
    pure ({ i with runts := runts,
                   kids := (i.kids.set (index - 1) left').set index child' }, false)
  | none =>
  -- merge (158-180)
  match (if leftCount > 0 then left? else none) with
  | some left =>
    let left' ← Node.absorbRight left child
    if i.runts.length ≤ index ∨ i.kids.length ≤ index then throw .indexOutOfRange
    let runts := deleteIdiom i.runts index
    let kids := deleteIdiom (i.kids.set (index - 1) left') index
    pure ({ i with runts := runts, kids := kids }, decide (runts.length < minSize))
  | none =>
    if rightCount = 0 then throw .bothSiblingsEmpty
    match right? with
    | none => throw .bothSiblingsEmpty
    | some right =>
      let child' ← Node.absorbRight child right
      if i.runts.length ≤ index + 1 ∨ i.kids.length ≤ index + 1 then throw .indexOutOfRange
      let runts := deleteIdiom i.runts (index + 1)
      let kids := deleteIdiom (i.kids.set index child') (index + 1)
      pure ({ i with runts := runts, kids := kids }, decide (runts.length < minSize))

/-- `deleteKey(minSize, key)` on a node of height `d`. -/
def deleteNode (P : Params K) (vr : Variant) (minSize : Nat) (key : K) :
    (d : Nat) → Node K V d → R (Node K V d × Bool)
  | 0, (l : Leaf K V) => Leaf.deleteKey P l minSize key
  | d + 1, (i : Inner K (Node K V d)) => do
    let index := searchLE P.lt key i.runts
    let some child := i.kids[index]? | throw .indexOutOfRange
    let (child', small) ← deleteNode P vr minSize key d child
    if !small then
      pure (({ i with kids := i.kids.set index child' } : Inner K (Node K V d)), false)
    else
      rebalance P vr minSize i index child'

/-- Root collapse (int64.go 358-363): called with the rewritten root when it
    reported "too small" and `count() <= 1`. -/
def collapseRoot (order nextId : Nat) : (d : Nat) → Node K V d → R (Tree K V)
  | 0, (l : Leaf K V) => pure { order := order, depth := 0, root := l, nextId := nextId }
  | d + 1, (r : Inner K (Node K V d)) =>
    match r.kids[0]? with
    | none => throw .indexOutOfRange
    | some c => pure { order := order, depth := d, root := c, nextId := nextId }

/-- `Delete` (int64.go 350-364). -/
def Tree.delete (P : Params K) (vr : Variant) (t : Tree K V) (key : K) : R (Tree K V) := do
  let minSize := if vr.minFull then t.order else t.order >>> 1
  let (root', small) ← deleteNode P vr minSize key t.depth t.root
  if !small ∨ Node.count root' > 1 then
    pure { t with root := root' }
  else
    collapseRoot t.order t.nextId t.depth root'

/-! ### Search -/

def searchNode (P : Params K) (key : K) : (d : Nat) → Node K V d → R (Option V)
  | 0, (l : Leaf K V) => Leaf.search P l key
  | d + 1, (p : Inner K (Node K V d)) =>
    match p.kids[searchLE P.lt key p.runts]? with
    | none => throw .indexOutOfRange
    | some child => searchNode P key d child

def Tree.search (P : Params K) (t : Tree K V) (key : K) : R (Option V) :=
  searchNode P key t.depth t.root

/-! ### Cursor -/

/-- Descent of `NewScanner`: the leaf the cursor lands on. -/
def scanLeaf (P : Params K) (key : K) : (d : Nat) → Node K V d → R (Leaf K V)
  | 0, (l : Leaf K V) => pure l
  | d + 1, (p : Inner K (Node K V d)) =>
    match p.kids[searchLE P.lt key p.runts]? with
    | none => throw .indexOutOfRange
    | some child => scanLeaf P key d child

/-- A cursor: the identity of the leaf it holds (`none` = `c.l == nil`) and the
    index `c.i` (an `Int`: it starts at `index - 1`). -/
structure Cursor where
  leaf : Option Nat
  i    : Int
  deriving Repr, Inhabited

/-- Initial index chosen by `NewScanner` on the landing leaf. -/
def startIndex (P : Params K) (vr : Variant) (key : K) (l : Leaf K V) : Nat :=
  let idx := searchGE P.lt key l.keys
  if vr.clampedStart then idx
  else match l.keys[idx]? with
    | some k => if P.lt k key then idx + 1 else idx
    | none => idx

def Tree.newScanner (P : Params K) (vr : Variant) (t : Tree K V) (key : K) : R Cursor := do
  let l ← scanLeaf P key t.depth t.root
  pure { leaf := some l.id, i := (startIndex P vr key l : Int) - 1 }

def Tree.findLeaf (t : Tree K V) (id : Nat) : Option (Leaf K V) :=
  (Node.leaves t.root).find? (fun l => l.id == id)

/-- `Scan()`; returns the new cursor and the boolean. -/
def Tree.scan (t : Tree K V) (c : Cursor) : R (Cursor × Bool) :=
  match c.leaf with
  | none => throw .nilDeref
  | some id =>
    match t.findLeaf id with
    | none => throw .nilDeref
    | some l =>
      let i := c.i + 1
      if i = (l.keys.length : Int) then
        match l.next with
        | none => pure ({ leaf := none, i := i }, false)
        | some n => pure ({ leaf := some n, i := 0 }, true)
      else pure ({ c with i := i }, true)

/-- `Pair()` -/
def Tree.pair (t : Tree K V) (c : Cursor) : R (K × V) :=
  match c.leaf with
  | none => throw .nilDeref
  | some id =>
    match t.findLeaf id with
    | none => throw .nilDeref
    | some l =>
      if c.i < 0 then throw .indexOutOfRange else
      match l.keys[c.i.toNat]?, l.vals[c.i.toNat]? with
      | some k, some v => pure (k, v)
      | _, _ => throw .indexOutOfRange

/-- `NewScanner(key)`, then `Scan`/`Pair` until `Scan` returns false or `limit`
    pairs were taken (then `Close`).  `fuel` bounds the number of `Scan` calls.
    Returns the pairs and whether the scan ran to exhaustion. -/
def Tree.scanFrom (P : Params K) (vr : Variant) (t : Tree K V) (key : K) (limit : Option Nat) (fuel : Nat) :
    R (List (K × V) × Bool) := do
  let c ← t.newScanner P vr key
  let rec go : Nat → Cursor → List (K × V) → R (List (K × V) × Bool)
    | 0, _, acc => pure (acc.reverse, false)
    | fuel + 1, c, acc => do
      if limit = some acc.length then pure (acc.reverse, false) else
      let (c', more) ← t.scan c
      if !more then pure (acc.reverse, true)
      else
        let kv ← t.pair c'
        go fuel c' (kv :: acc)
  go fuel c []

end Gobptree
