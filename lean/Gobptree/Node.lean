/-
  Tree representation.  Depth-indexed (all leaves at one depth is a typing
  fact of the *model*; the snapshot canonicaliser checks it for the
  implementation), parallel lists as in Go, explicit node identities and an
  explicit `next` field for the leaf chain.
-/
import Gobptree.Slice
import Gobptree.Search

namespace Gobptree

/-- Go run-time panics the code can raise. -/
inductive Panic where
  | indexOutOfRange      -- slice index out of range
  | noChildren           -- `smallest()` on an empty node
  | bothSiblingsEmpty    -- "both left and right siblings have no children"
  | badMerge             -- "cannot merge leaf with sibling other than next sibling"
  | nilDeref             -- nil pointer dereference (cursor misuse)
  deriving Repr, DecidableEq, Inhabited

abbrev R := Except Panic

structure Leaf (K V : Type) where
  id   : Nat
  keys : List K
  vals : List V
  next : Option Nat
  deriving Repr, Inhabited

structure Inner (K C : Type) where
  id    : Nat
  runts : List K
  kids  : List C
  deriving Repr, Inhabited

/-- A node of height `d` above the leaves. -/
def Node (K V : Type) : Nat → Type
  | 0     => Leaf K V
  | d + 1 => Inner K (Node K V d)

/-- Static parameters of one tree type. -/
structure Params (K : Type) where
  /-- `a < b` / `a.Less(b)` -/
  lt    : K → K → Bool
  /-- the padding expression (`0`, `""`, `x.ZeroValue()`), applied to the key it
      is derived from; `none` models the expression itself panicking
      (`right.runts[0].ZeroValue()` on an empty node in comparable.go). -/
  pad   : Option K → Option K
  order : Nat

/-- Behaviour switches: the all-`false` variant is the current code; the
    others are the as-found defects (kept for counter-example theorems and for
    the harness canaries). -/
structure Variant where
  /-- D1: `Delete` hands `order` (not `order>>1`) to `deleteKey`. -/
  minFull       : Bool := false
  /-- D2: no separator refresh after `adoptFromLeft`. -/
  noRefreshLeft : Bool := false
  /-- D3: `NewScanner` uses the clamped search result as is. -/
  clampedStart  : Bool := false
  deriving Repr, Inhabited

variable {K V : Type}

def eqv (lt : K → K → Bool) (a b : K) : Bool := !lt a b && !lt b a

namespace Node

def id : {d : Nat} → Node K V d → Nat
  | 0, (l : Leaf K V) => l.id
  | _ + 1, (i : Inner K _) => i.id

/-- `count()` -/
def count : {d : Nat} → Node K V d → Nat
  | 0, (l : Leaf K V) => l.keys.length
  | _ + 1, (i : Inner K _) => i.runts.length

/-- `smallest()` -/
def smallest : {d : Nat} → Node K V d → R K
  | 0, (l : Leaf K V) => match l.keys with
    | [] => throw .noChildren
    | k :: _ => pure k
  | _ + 1, (i : Inner K _) => match i.runts with
    | [] => throw .noChildren
    | k :: _ => pure k

/-- `maybeSplit(order)`; `fresh` is the identity of the sibling if one is made. -/
def maybeSplit (order fresh : Nat) : {d : Nat} → Node K V d → R (Node K V d × Option (Node K V d))
  | 0, (l : Leaf K V) =>
    if l.keys.length < order then pure (l, none)
    else
      let h := order >>> 1
      if l.keys.length < h + h ∨ l.vals.length < h + h then throw .indexOutOfRange
      else
        let sib : Leaf K V :=
          { id := fresh, keys := (l.keys.drop h).take h, vals := (l.vals.drop h).take h, next := l.next }
        let l' : Leaf K V :=
          { l with keys := l.keys.take h, vals := l.vals.take h, next := some fresh }
        pure (l', some sib)
  | d + 1, (i : Inner K (Node K V d)) =>
    if i.runts.length < order then pure (i, none)
    else
      let h := order >>> 1
      if i.runts.length < h + h ∨ i.kids.length < h + h then throw .indexOutOfRange
      else
        let sib : Inner K (Node K V d) :=
          { id := fresh, runts := (i.runts.drop h).take h, kids := (i.kids.drop h).take h }
        let i' : Inner K (Node K V d) :=
          { i with runts := i.runts.take h, kids := i.kids.take h }
        pure (i', some sib)

/-- `left.adoptFromRight(right)`; returns `(left', right')`. -/
def adoptFromRight : {d : Nat} → Node K V d → Node K V d → R (Node K V d × Node K V d)
  | 0, (left : Leaf K V), (right : Leaf K V) =>
    match right.keys[0]?, right.vals[0]? with
    | some k, some v =>
      pure ({ left with keys := left.keys ++ [k], vals := left.vals ++ [v] },
            { right with keys := popFrontIdiom right.keys, vals := popFrontIdiom right.vals })
    | _, _ => throw .indexOutOfRange
  | d + 1, (left : Inner K (Node K V d)), (right : Inner K (Node K V d)) =>
    match right.runts[0]?, right.kids[0]? with
    | some k, some c =>
      pure ({ left with runts := left.runts ++ [k], kids := left.kids ++ [c] },
            { right with runts := popFrontIdiom right.runts, kids := popFrontIdiom right.kids })
    | _, _ => throw .indexOutOfRange

/-- `right.adoptFromLeft(left)`; returns `(left', right')`. -/
def adoptFromLeft (P : Params K) : {d : Nat} → Node K V d → Node K V d → R (Node K V d × Node K V d)
  | 0, (left : Leaf K V), (right : Leaf K V) =>
    match P.pad right.keys[0]? with
    | none => throw .indexOutOfRange
    | some pad =>
      let index := left.keys.length - 1
      if left.keys.length = 0 then throw .indexOutOfRange else
      match left.keys[index]?, left.vals[index]? with
      | some k, some v =>
        pure ({ left with keys := left.keys.take index, vals := left.vals.take index },
              { right with keys := pushFrontIdiom pad right.keys k, vals := pushFrontIdiom v right.vals v })
      | _, _ => throw .indexOutOfRange
  | d + 1, (left : Inner K (Node K V d)), (right : Inner K (Node K V d)) =>
    match P.pad right.runts[0]? with
    | none => throw .indexOutOfRange
    | some pad =>
      let index := left.runts.length - 1
      if left.runts.length = 0 then throw .indexOutOfRange else
      match left.runts[index]?, left.kids[index]? with
      | some k, some c =>
        pure ({ left with runts := left.runts.take index, kids := left.kids.take index },
              { right with runts := pushFrontIdiom pad right.runts k, kids := pushFrontIdiom c right.kids c })
      | _, _ => throw .indexOutOfRange

/-- `left.absorbRight(right)`; returns `left'` (the right node is dropped). -/
def absorbRight : {d : Nat} → Node K V d → Node K V d → R (Node K V d)
  | 0, (left : Leaf K V), (right : Leaf K V) =>
    if left.next ≠ some right.id then throw .badMerge
    else pure { left with keys := left.keys ++ right.keys, vals := left.vals ++ right.vals, next := right.next }
  | d + 1, (left : Inner K (Node K V d)), (right : Inner K (Node K V d)) =>
    pure { left with runts := left.runts ++ right.runts, kids := left.kids ++ right.kids }

/-- In-order list of leaves. -/
def leaves : {d : Nat} → Node K V d → List (Leaf K V)
  | 0, (l : Leaf K V) => [l]
  | d + 1, (i : Inner K (Node K V d)) => i.kids.flatMap (leaves (d := d))

end Node

/-- The tree: order, height, root, allocation counter. -/
structure Tree (K V : Type) where
  order  : Nat
  depth  : Nat
  root   : Node K V depth
  nextId : Nat

/-- `New<T>Tree` after `checkOrder` succeeded. -/
def Tree.new (order : Nat) : Tree K V :=
  { order := order, depth := 0, root := ({ id := 0, keys := [], vals := [], next := none } : Leaf K V), nextId := 1 }

/-- the abstract contents: in-order key/value pairs -/
def Tree.abs (t : Tree K V) : List (K × V) :=
  (Node.leaves t.root).flatMap (fun l => l.keys.zip l.vals)

end Gobptree
