/-
  The abstract specification: a key→value map as an association list kept in
  strictly ascending key order, with every operation defined modulo the
  order-equivalence `eqv lt` (two keys denote the same entry exactly when
  neither is less than the other).  Short enough to read in two minutes.
-/
import Gobptree.Node

namespace Gobptree.Spec

variable {K V : Type}

/-- value stored for (a key equivalent to) `k` -/
def lookup (lt : K → K → Bool) (m : List (K × V)) (k : K) : Option V :=
  (m.find? (fun p => eqv lt k p.1)).map (·.2)

/-- insert or replace; an equivalent stored key is KEPT and only its value replaced -/
def insert (lt : K → K → Bool) : List (K × V) → K → V → List (K × V)
  | [], k, v => [(k, v)]
  | (k', v') :: rest, k, v =>
    if lt k k' then (k, v) :: (k', v') :: rest
    else if lt k' k then (k', v') :: insert lt rest k v
    else (k', v) :: rest

/-- remove the entry equivalent to `k`, if any -/
def erase (lt : K → K → Bool) (m : List (K × V)) (k : K) : List (K × V) :=
  m.filter (fun p => !eqv lt k p.1)

/-- the pairs with key ≥ `s`, in order: what a scan started at `s` must yield -/
def «from» (lt : K → K → Bool) (m : List (K × V)) (s : K) : List (K × V) :=
  m.filter (fun p => !lt p.1 s)

/-- `Update k f`: the callback sees the current value (or absence) and its result is stored -/
def update (lt : K → K → Bool) (m : List (K × V)) (k : K) (f : Option V → V) : List (K × V) :=
  insert lt m k (f (lookup lt m k))

end Gobptree.Spec
