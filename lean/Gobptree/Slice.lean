/-
  Go slice idioms used by gobptree, modelled literally on `List`.

  `goCopy l dst src` is `copy(l[dst:], l[src:])` (memmove semantics: the
  number of elements moved is `min (len - dst) (len - src)`).
-/
namespace Gobptree

variable {α : Type}

/-- `copy(l[dst:], l[src:])` on one backing list. -/
def goCopy (l : List α) (dst src : Nat) : List α :=
  let n := min (l.length - dst) (l.length - src)
  l.take dst ++ (l.drop src).take n ++ l.drop (dst + n)

/-- `x = append(x, pad); copy(x[i+1:], x[i:]); x[i] = v` -/
def insertIdiom (pad : α) (l : List α) (i : Nat) (v : α) : List α :=
  (goCopy (l ++ [pad]) (i + 1) i).set i v

/-- `copy(x[i:], x[i+1:]); x = x[:len(x)-1]` -/
def deleteIdiom (l : List α) (i : Nat) : List α :=
  (goCopy l i (i + 1)).take (l.length - 1)

/-- `x = append(x, pad); copy(x[1:], x[0:]); x[0] = v` (adoptFromLeft) -/
def pushFrontIdiom (pad : α) (l : List α) (v : α) : List α :=
  insertIdiom pad l 0 v

/-- `copy(x[0:], x[1:]); x = x[:len(x)-1]` (adoptFromRight) -/
def popFrontIdiom (l : List α) : List α :=
  deleteIdiom l 0

end Gobptree
