/-
  Line-protocol driver for the small-step model: same case files as
  harness/cmd/concrun (with `strategy replay …`), same canonical event log.
-/
import Gobptree.Conc
import Gobptree.ConcRank
import Gobptree.Driver

namespace Gobptree.ConcDriver
open Gobptree Gobptree.Conc Gobptree.Driver

structure Case where
  ty      : String := ""
  order   : Int := 0
  pre     : List String := []
  threads : List (List String) := []      -- op texts per thread
  sched   : List Nat := []
  stepsnap : Bool := false                -- `opt stepsnap`: print the structure before every decision

def parseCOp (s : String) : Option (COp DKey DVal) :=
  match (s.splitOn " ").filter (· ≠ "") with
  | ["ins", k, v] => do let k ← parseKey? k; let v ← parseVal? v; pure (.ins k v)
  | ["upd", k, cb] =>
    let (y, cb) := if cb.startsWith "y" then (true, (cb.drop 1).toString) else (false, cb)
    do let k ← parseKey? k; let f ← parseCb? cb; pure (.upd k f y)
  | ["del", k] => do let k ← parseKey? k; pure (.del k)
  | ["get", k] => do let k ← parseKey? k; pure (.get k)
  | ["ns", k] => do let k ← parseKey? k; pure (.ns k)
  | ["scan"] => some .scan
  | ["pair"] => some .pair
  | ["close"] => some .close
  | ["pause"] => some .pause
  | _ => none

def showRes : Res DKey DVal → String
  | .ok => "ok"
  | .found none => "absent"
  | .found (some v) => "val:" ++ showVal v
  | .bool true => "true"
  | .bool false => "false"
  | .pair k v => showKey k ++ "=" ++ showVal v
  | .skip => "skip"
  | .panic => "panic"

def showEnabled (l : List Nat) : String := "[" ++ " ".intercalate (l.map toString) ++ "]"

/-- apply the sequential prefix with the sequential model -/
def applyPre (P : Params DKey) (t : Tree DKey DVal) (l : String) : Option (Tree DKey DVal) :=
  match (l.splitOn " ").filter (· ≠ "") with
  | ["ins", k, v] => do
    let k ← parseKey? k; let v ← parseVal? v
    match t.insert P k v with | .ok t' => some t' | .error _ => none
  | ["del", k] => do
    let k ← parseKey? k
    match t.delete P {} k with | .ok t' => some t' | .error _ => none
  | ["upd", k, cb] => do
    let k ← parseKey? k; let f ← parseCb? cb
    match t.update P k f with | .ok (t', _) => some t' | .error _ => none
  | _ => none

/-- The structure the implementation exhibits in configuration `c` (what an unsynchronised
    snapshot of the Go tree shows while every goroutine is parked). It is `c.tree` except for
    threads parked INSIDE an Update callback (`upd k y…`, `Park.yielded (.upCallback …)`) whose
    key is absent and not beyond the leaf's last key: `Update` has then already made room in the
    leaf it holds and stored the key (`ln.runts = append(..); ln.values = append(.., nil);
    copy(..); copy(..); ln.runts[index] = key`), and only the store `ln.values[index] =
    callback(nil, false)` is still to come, so the slot shows the shifted neighbour's value.
    The model (`Conc.upLeaf`) writes the whole leaf when the callback returns; the leaf is held
    by the thread throughout, so no operation can observe the difference. In the append path
    (`key` beyond the last key, or empty leaf) and the replace path the code calls the callback
    before it writes, and the view is the identity. -/
def implTree (c : Config DKey DVal) : Tree DKey DVal :=
  c.threads.foldl (fun tr th =>
    match th.park with
    | .yielded (.upCallback key _ n none) =>
      match (tr.find n).bind leafOf? with
      | none => tr
      | some l =>
        let appendPath : Bool := match l.keys.getLast? with
          | none => true
          | some last => c.P.lt last key
        if appendPath then tr else
        let index := searchGE c.P.lt key l.keys
        match c.P.pad (some key) with
        | none => tr
        | some pad =>
          putLeaf tr { l with keys := insertIdiom pad l.keys index key,
                              vals := goCopy (l.vals ++ [none]) (index + 1) index }
    | _ => tr) c.tree

/-- `Config.run`, also counting the configurations passed through and those among them in
    which some waiting thread is not ranked (`rankedB`, the executable `Ranked levelRank`).
    With `snap` it also returns, for every step taken, the rendering of the tree of the
    configuration in which that step's decision is taken (the tree BEFORE the step), in order. -/
def runChecked (snap : Bool) (c : Config DKey DVal) (states bad : Nat) (snaps : List String) :
    List Nat → Config DKey DVal × Option Nat × Nat × Nat × List String
  | [] => (c, none, states + 1, (if rankedB c then bad else bad + 1), snaps.reverse)
  | t :: ts =>
    let bad := if rankedB c then bad else bad + 1
    match c.step t with
    | none => (c, some t, states + 1, bad, snaps.reverse)
    | some c' => runChecked snap c' (states + 1) bad (if snap then showTree (implTree c) :: snaps else snaps) ts

/-- puts `s <tree>` (the i-th of `snaps`) right before the i-th `d` line -/
def interleaveSnaps (acc : List String) : List String → List String → List String
  | [], _ => acc.reverse
  | l :: ls, snaps =>
    if l.startsWith "d " then
      match snaps with
      | sn :: rest => interleaveSnaps (l :: ("s " ++ sn) :: acc) ls rest
      | [] => interleaveSnaps (l :: acc) ls []
    else interleaveSnaps (l :: acc) ls snaps

def runCase (c : Case) : List String :=
  match paramsFor c.ty c.order.toNat with
  | none => ["error bad type"]
  | some P =>
    if !Generated.checkOrderGen (BitVec.ofInt 64 c.order) then ["error constructor"] else
    match c.pre.foldlM (applyPre P) (Tree.new c.order.toNat) with
    | none => ["error prefix"]
    | some tree =>
      let texts := c.threads
      match texts.mapM (fun ops => ops.mapM parseCOp) with
      | none => ["error program"]
      | some progs =>
        let cfg := Config.init P tree progs
        let (cfg', stuck, nstates, nbad, snaps) := runChecked c.stepsnap cfg 0 0 [] c.sched
        let evs := cfg'.log.reverse
        -- canonical mutex names by first acquisition
        let names : List Lk := evs.foldl (fun acc e => match e with
          | .acq _ l => if acc.contains l then acc else acc ++ [l]
          | _ => acc) []
        let nm (l : Lk) : String := match names.findIdx? (· == l) with
          | some i => "m" ++ toString i
          | none => "m?"
        let opText (t idx : Nat) : String := ((texts[t]?.getD [])[idx]?).getD "?"
        let lines := evs.map fun e => match e with
          | .dec t en => "d " ++ toString t ++ " " ++ showEnabled en
          | .acq t l => "a " ++ toString t ++ " " ++ nm l
          | .rel t l => "r " ++ toString t ++ " " ++ nm l
          | .note t (.inv idx) => "n " ++ toString t ++ " inv " ++ toString idx ++ " " ++ opText t idx
          | .note t (.ret _ .panic) => "n " ++ toString t ++ " panic"
          | .note t (.ret idx r) => "n " ++ toString t ++ " ret " ++ toString idx ++ " " ++ showRes r
          | .note t (.cb none) => "n " ++ toString t ++ " cb absent"
          | .note t (.cb (some v)) => "n " ++ toString t ++ " cb " ++ showVal v
        let tail :=
          match stuck with
          | some t => ["stuck " ++ toString t ++ " " ++ showEnabled cfg'.enabledSet]
          | none =>
            if cfg'.unfinished then
              (if cfg'.enabledSet.isEmpty then ["deadlock"] else ["incomplete " ++ showEnabled cfg'.enabledSet])
            else if cfg'.dead then []
            else ["final " ++ showTree cfg'.tree]
        let lines := if c.stepsnap then interleaveSnaps [] lines snaps else lines
        lines ++ ["# ranked " ++ toString nstates ++ " " ++ toString nbad] ++ tail

partial def loop (h : IO.FS.Stream) (out : IO.FS.Stream) (cur : Case) (n : Nat) : IO Unit := do
  let line ← h.getLine
  if line.isEmpty then return ()
  let l := line.trimAscii.toString
  let toks := (l.splitOn " ").filter (· ≠ "")
  match toks with
  | "cbegin" :: ty :: ord :: _ => loop h out { ty := ty, order := (ord.toInt?).getD 0 } n
  | "opt" :: rest =>
    loop h out { cur with stepsnap := (cur.stepsnap || rest.contains "stepsnap") && !rest.contains "nostepsnap" } n
  | "pre" :: rest => loop h out { cur with pre := cur.pre ++ [" ".intercalate rest] } n
  | "thread" :: _ :: rest =>
    let ops := ((" ".intercalate rest).splitOn ";").map (fun s => s.trimAscii.toString) |>.filter (· ≠ "")
    loop h out { cur with threads := cur.threads ++ [ops] } n
  | "strategy" :: "replay" :: rest => loop h out { cur with sched := rest.filterMap String.toNat? } n
  | ["cend"] =>
    out.putStrLn ("case " ++ toString n)
    for l in runCase cur do out.putStrLn l
    out.putStrLn "cend"
    loop h out {} (n + 1)
  | _ => loop h out cur n

end Gobptree.ConcDriver
