"""Concurrent checks: shadow copy + deterministic scheduler (implementation
side), Lean small-step model under the same schedule (tie), oracles, verdict."""
import json, os, random, re, subprocess, sys, time
from concurrent.futures import ThreadPoolExecutor
import vlib, genconc

KINDS = {
    "C03": {"linearizability", "panic"},
    "C04": {"linearizability", "panic"},
    "C05": {"callback", "linearizability"},
    "C06": {"deadlock", "livelock", "lockorder"},
    "C08": {"shape"},
    "C09": {"locks", "panic", "deadlock"},
    "C10": {"coupling", "resting"},
    # C07's write-frame oracle (concrun -writeframe): see writeframe_check, called by racecheck
    "C07": {"writeframe"},
}
PROFILES = {
    "C03": ["point", "point", "delete"],
    "C04": ["cursor", "cursor", "mixed"],
    "C05": ["update"],
    "C06": ["delete", "cursor", "mixed"],
    "C07": ["mixed", "delete", "update", "point", "cursor"],
    "C08": ["mixed", "delete"],
    "C09": ["mixed", "cursor", "point"],
    "C10": ["mixed", "point", "cursor"],
}
CORPUS = os.path.join(vlib.VERIF, "corpus", "conc")


def build_shadow(scratch):
    out = scratch.path("shadow")
    r = vlib.run([os.path.join(vlib.VERIF, "bin", "build-shadow"), vlib.REPO, out], env=vlib.GOENV)
    if r.returncode != 0:
        return None, r.stdout
    return os.path.join(out, "bin"), None


def load_corpus(pid):
    cases = []
    if os.path.isdir(CORPUS):
        for fn in sorted(os.listdir(CORPUS)):
            if not fn.endswith(".case"):
                continue
            props, lines = None, []
            for l in open(os.path.join(CORPUS, fn)):
                l = l.rstrip("\n")
                if l.startswith("# props:"):
                    props = l.split(":", 1)[1].split()
                elif l and not l.startswith("#"):
                    lines.append(l)
            if props is None or pid is None or pid in props:
                cur = []
                for l in lines:
                    cur.append(l)
                    if l == "cend":
                        cases.append(cur)
                        cur = []
    return cases


def parse_runs(text):
    """concrun output -> list of dict(case, sched, lines, oracles), plus dfs summaries"""
    runs, cur, dfs = [], None, []
    for l in text.splitlines():
        if l.startswith("case "):
            cur = dict(case=int(l.split()[1]), sched="", lines=[], oracles=[])
        elif l.startswith("dfs case"):
            dfs.append(l)
        elif cur is None:
            continue
        elif l.startswith("sched"):
            cur["sched"] = l[6:].strip()
        elif l.startswith("ORACLE "):
            k, _, d = l[7:].partition(" ")
            cur["oracles"].append((k, d))
        elif l == "cend":
            runs.append(cur)
            cur = None
        else:
            cur["lines"].append(l)
    return runs, dfs


def run_concrun(bindir, scratch, name, cases, dfs_max=20000, extra_args=()):
    f = scratch.path(name + ".cases")
    with open(f, "w") as fh:
        for c in cases:
            fh.write("\n".join(c) + "\n")
    with open(f) as fin:
        r = subprocess.run([os.path.join(bindir, "concrun"), "-dfs-max", str(dfs_max)] + list(extra_args), stdin=fin,
                           stdout=subprocess.PIPE, stderr=subprocess.PIPE, text=True)
    runs, dfs = parse_runs(r.stdout)
    return runs, dfs, (r.returncode, r.stderr[-2000:])


def run_parallel(bindir, scratch, name, cases, dfs_max=20000, extra_args=()):
    shards = min(vlib.NCPU, max(1, len(cases) // 4))
    parts = [cases[i::shards] for i in range(shards)]
    with ThreadPoolExecutor(max_workers=shards) as ex:
        futs = [ex.submit(run_concrun, bindir, scratch, "%s.%d" % (name, i), parts[i], dfs_max, extra_args) for i in range(shards)]
        res = [f.result() for f in futs]
    allruns, alldfs, errs = [], [], []
    for i, (runs, dfs, err) in enumerate(res):
        for r in runs:
            r["case_lines"] = parts[i][r["case"]]
            allruns.append(r)
        alldfs += dfs
        if err[0] != 0:
            errs.append(err)
    return allruns, alldfs, errs


def replay_case(run):
    c = [l for l in run["case_lines"] if not l.startswith("strategy") and l != "cend"]
    return c + ["strategy replay " + run["sched"], "cend"]


def gen_cases(pid, rng, n, nsched):
    cases = []
    for i in range(n):
        prof = rng.choice(PROFILES[pid])
        c = genconc.case(rng, prof)
        c.append("strategy random %d %d" % (rng.randrange(1 << 30), nsched))
        c.append("cend")
        cases.append(c)
    return cases


# Per-step structure comparison (`opt stepsnap`): concrun prints `s <tree>` (the canonical
# rendering of the `final` line) before every scheduling decision and the Lean driver does the
# same for the configuration in which the decision is taken, so the tie compares the WHOLE
# structure after every scheduler step, which pins the order of the writes relative to the
# parks. Share: every hand-written case (corpus, catalogues; dfs cases print the lines only for
# the runs they emit) up to STEPSNAP_MAX_PRE prefix operations, and every
# STEPSNAP_RANDOM_EVERY[tier]-th random case (an `s` line is ~0.8 kB, 4x the rest of a step's
# lines; the thorough tier has 33x the runs, hence the smaller share there).
STEPSNAP_MAX_PRE = 150
STEPSNAP_RANDOM_EVERY = {"quick": 4, "thorough": 16}


def with_stepsnap(case_lines):
    return [case_lines[0], "opt stepsnap"] + case_lines[1:]


def modest(case_lines):
    return sum(1 for l in case_lines if l.startswith("pre ")) <= STEPSNAP_MAX_PRE


def has_cursor(case_lines):
    return any(l.startswith("thread") and " ns " in l for l in case_lines)


def relevant(pid, run, known):
    out = []
    for k, d in run["oracles"]:
        if k not in KINDS[pid]:
            continue
        if pid == "C03" and k == "linearizability" and has_cursor(run["case_lines"]):
            continue  # cursor histories are C04's
        hdr = run["case_lines"][0].split()
        order = int(hdr[2])
        if k == "panic":
            # KF-1: order 2 + Delete panicking in deleteKey/adoptFromLeft
            f = dict(order=order, kind="panic", op="del ", site=d)
            if order == 2 and ("siblings have no children" in d or "index out of range" in d) and \
               any("del " in l for l in run["case_lines"] if l.startswith("thread") or l.startswith("pre")):
                if any(kf["id"] == "KF-1" for kf in known):
                    out.append(("known:KF-1", k, d))
                    continue
        if pid == "C08" and order == 2:
            continue
        out.append(("viol", k, d))
    return out


def check(pid, tier, sink=None):
    t0 = time.time()
    sc = vlib.Scratch()
    try:
        return _check(pid, tier, sc, t0, sink)
    finally:
        sc.cleanup()


def _check(pid, tier, sc, t0, sink=None):
    import seqcheck
    rng = random.Random(vlib.SEED * 1000003 + 100 + int(pid[1:]))
    known = vlib.load_known()
    bindir, err = build_shadow(sc)
    if bindir is None:
        p = vlib.write_replay(pid, "build", dict(property=pid, engine="conc", what="the shadow copy (sources with only the sync import swapped) no longer builds",
                                                  broken="correspondence: shadow build", log=err[-3000:]))
        print("VIOLATION property=%s replay=%s no-failing-input-found" % (pid, p))
        vlib.write_evidence(pid, tier, "proof", dict(obligations=1, discharged=0, checker_cmd="bin/check %s %s" % (pid, tier),
                            trusted_base=vlib.TRUSTED_BASE, explanation="shadow build failed"), time.time() - t0, 1, [])
        return 1
    proof = vlib.proof_step(pid, bindir)
    tie_broken = []
    if proof["problems"]:
        tie_broken.append(dict(kind="proof", detail=proof["problems"]))
    import factcheck
    facts = factcheck.run(bindir if os.path.exists(os.path.join(bindir, "factcheck")) else bindir, pid)
    if facts["problems"]:
        tie_broken.append(dict(kind="extracted-facts", detail=facts["problems"][:6]))
    ncases, nsched = {"quick": (900, 16), "thorough": (12000, 40)}[tier]
    corpus = load_corpus(pid)
    fixed = corpus + genconc.catalogue() + genconc.scaled_catalogue(full=(tier == "thorough")) + genconc.tall_catalogue(sizes=((9, 13, 17) if tier == "quick" else (9, 13, 17, 27, 41))) + genconc.spine_cases(nsched=(3 if tier == "quick" else 12))
    rnd = gen_cases(pid, rng, ncases, nsched)
    # the selection draws nothing from rng: the cases are the same with and without it
    cases = [with_stepsnap(c) if modest(c) else c for c in fixed] + \
            [with_stepsnap(c) if i % STEPSNAP_RANDOM_EVERY[tier] == 0 else c for i, c in enumerate(rnd)]
    runs, dfs, errs = run_parallel(bindir, sc, "main", cases)
    violations, known_hits = [], {}
    for e in errs:
        tie_broken.append(dict(kind="harness", detail="concrun exited %d: %s" % e))
    seen = set()
    for r in runs:
        for tag, k, d in relevant(pid, r, known):
            if tag.startswith("known:"):
                known_hits.setdefault(tag[6:], (k, d, r))
                continue
            key = (k, d[:30])
            if key in seen or len(violations) >= 3:
                continue
            seen.add(key)
            violations.append(dict(property=pid, engine="conc", kind=k, observed=d, case=replay_case(r),
                                   event_log=r["lines"][:400], seed=vlib.SEED, how="bin/check --replay <this file>"))
    # TIE: the Lean small-step model under the same schedules
    tie = model_tie(pid, sc, runs)
    if tie.get("mismatch"):
        tie_broken.append(dict(kind="correspondence", **tie["mismatch"]))
    if pid == "C06" and tie.get("unranked_states"):
        # the model reached a configuration that violates the hypothesis of ranked_not_deadlocked
        tie_broken.append(dict(kind="model-invariant", detail="the Lean model, replaying an implementation run, passes through %d configurations that are not Ranked(levelRank): the premise of C06_ranked_no_deadlock fails there" % tie["unranked_states"],
                               case=tie.get("unranked_case")))
    for kid, (k, d, r) in known_hits.items():
        print("KNOWN-FINDING: property=%s %s [%s: %s]" % (pid, kid, k, d[:160]))
    rc, nviol = 0, 0
    for v in violations:
        p = vlib.write_replay(pid, "conc%d" % nviol, v)
        print("VIOLATION property=%s replay=%s" % (pid, p))
        nviol += 1
        rc = 1
    if tie_broken and not violations:
        rep = dict(property=pid, engine="conc", what="the machine-checked link no longer checks and no failing input was found",
                   broken=tie_broken, seed=vlib.SEED, theorem_file="lean/Gobptree/Props/%s.lean" % pid)
        p = vlib.write_replay(pid, "tie", rep)
        print("VIOLATION property=%s replay=%s no-failing-input-found" % (pid, p))
        nviol += 1
        rc = 1
    # (the per-step structure lines are left out of the hash: the count stays comparable)
    distinct = len({vlib.trace_hash([l for l in r["lines"] if not l.startswith("s ")]) for r in runs if any(l.startswith("a ") for l in r["lines"])})
    stats = dict(runs=len(runs), cases=len(cases), dfs=dfs[:20],
                 threads={}, with_cursor=sum(1 for c in cases if has_cursor(c)),
                 stepsnap_cases=sum(1 for c in cases if "opt stepsnap" in c),
                 steps=sum(len(r["sched"].split()) for r in runs),
                 lockorder_states_checked=sum(int(l.split()[3]) for r in runs for l in r["lines"] if l.startswith("# lockorder states")))
    for c in cases:
        n = sum(1 for l in c if l.startswith("thread"))
        stats["threads"][str(n)] = stats["threads"].get(str(n), 0) + 1
    samples = [dict(case=r["case_lines"], sched=r["sched"]) for r in runs[:2]]
    cov = dict(obligations=proof["obligations"], discharged=proof["discharged"],
               checker_cmd="cd /verif/lean && lake build Gobptree.Props.%s && lake env lean Gobptree/Props/%s.lean  (#print axioms)" % (pid, pid),
               trusted_base=vlib.TRUSTED_BASE + ["vsync cooperative scheduler and the import rewrite that builds the shadow copy",
                                                "linearizability checker harness/lin (implementation-side oracle)"],
               theorems=proof["theorems"], evaluations=len(runs), distinct_nontrivial=distinct,
               rule="executions = (client programs x schedules) on the shadow copy under the deterministic scheduler; non-trivial = at least one lock acquisition; distinct = distinct SHA-1 of the canonical event log",
               samples=samples, traces_validated_against_impl=tie.get("compared", 0),
               disagreements_checked=tie.get("mismatches", 0),
               stepsnap_runs_compared=tie.get("stepsnap_runs", 0), stepsnap_lines_compared=tie.get("stepsnap_lines_compared", 0),
               distribution=stats,
               model_configurations_ranked=tie.get("ranked_states", 0), model_configurations_unranked=tie.get("unranked_states", 0),
               known_findings=sorted(known_hits), proof_problems=proof["problems"])
    assumptions = ["interleavings at lock-acquisition granularity are complete for race-free code (Go memory model, DRF-SC): assumed, not proved in Lean",
                   "callbacks are pure; a goroutine with an open cursor performs only cursor operations"]
    if sink is not None:
        sink.append((cov, nviol, assumptions))
    else:
        vlib.write_evidence(pid, tier, "proof", cov, time.time() - t0, nviol, assumptions)
    return rc


def writeframe_check(pid, tier, sc, rng):
    """C07, implementation side of the Lean theorem C07_write_frame: the catalogue and random
    cases of the other concurrent checks run on the shadow copy with the write-frame oracle
    (concrun -writeframe), once with scheduling points at Lock only and once with Unlock as a
    scheduling point too (a write placed after an unlock then falls into a later step, in which
    the mutex is no longer held). The engine options travel in the case (`opt` line), so a
    replay file is self-contained. Returns dict(violations, stats, errs, build_error)."""
    t0 = time.time()
    bindir, err = build_shadow(sc)
    if bindir is None:
        return dict(violations=[], stats={}, errs=[], build_error=err)
    ncases, nsched, dfs_lock, dfs_unlock = {"quick": (900, 12, 4000, 300), "thorough": (6000, 24, 20000, 4000)}[tier]
    base = load_corpus(None) + genconc.catalogue() + genconc.scaled_catalogue(full=(tier == "thorough")) + \
        genconc.tall_catalogue(sizes=((9, 13, 17) if tier == "quick" else (9, 13, 17, 27, 41))) + \
        genconc.spine_cases(nsched=(2 if tier == "quick" else 8)) + gen_cases(pid, rng, ncases, nsched)
    out = dict(violations=[], errs=[], build_error=None)
    stats = dict(cases=0, runs=0, steps_checked=0, snapshots_diffed=0, nodes_compared=0, modes={}, types={})
    seen = set()
    known = vlib.load_known()
    for mode, opts, dfs_max in (("lock", "writeframe", dfs_lock), ("lock+unlock", "writeframe yieldunlock", dfs_unlock)):
        cases = [[c[0], "opt " + opts] + c[1:] for c in base]
        runs, dfs, errs = run_parallel(bindir, sc, "wf_" + mode.replace("+", "_"), cases, dfs_max, extra_args=["-writeframe"])
        out["errs"] += errs
        steps = nodes = nruns = 0
        cands = []
        for r in runs:
            nruns += 1
            for l in r["lines"]:
                if l.startswith("# writeframe steps "):
                    f = l.split()
                    steps += int(f[3])
                    nodes += int(f[5])
            for tag, k, d in relevant(pid, r, known):
                if tag == "viol":
                    cands.append((len(r["sched"].split()), len(cands), k, d, r))
        # shortest schedule first; one replay per written field (runts / values / next / children /
        # membership / root) and yield mode
        for _, _, k, d, r in sorted(cands, key=lambda c: c[:2]):
            key = (k, d.split()[0], mode)
            if key in seen or len(out["violations"]) >= 3:
                continue
            seen.add(key)
            out["violations"].append(dict(property=pid, engine="conc", kind=k, observed=d, yield_points=mode, case=replay_case(r),
                                          event_log=r["lines"][:400], seed=vlib.SEED, how="bin/check --replay <this file>"))
        stats_viol = len(cands)
        for l in dfs:
            f = l.split()
            if "wfsteps" in f:        # counters over the runs of the dfs case that were not emitted
                nruns += int(f[f.index("quiet") + 1])
                steps += int(f[f.index("wfsteps") + 1])
                nodes += int(f[f.index("wfnodes") + 1])
        stats["modes"][mode] = dict(cases=len(cases), runs=nruns, steps_checked=steps, nodes_compared=nodes,
                                    reports=stats_viol, dfs_cases=len(dfs), dfs_exhaustive=sum(1 for l in dfs if "exhaustive true" in l), dfs_max=dfs_max)
        stats["cases"] += len(cases)
        stats["runs"] += nruns
        stats["steps_checked"] += steps
        stats["snapshots_diffed"] += steps    # one before/after pair of snapshots per step
        stats["nodes_compared"] += nodes
    for c in base:
        ty = c[0].split()[1]
        stats["types"][ty] = stats["types"].get(ty, 0) + 1
    stats["wall_s"] = round(time.time() - t0, 2)
    out["stats"] = stats
    return out


def model_tie(pid, sc, runs):
    """Feeds each run's case + schedule to the Lean small-step model and compares
    the canonical event logs. (Enabled once lean/Gobptree/Conc.lean is built.)"""
    if not os.path.exists(os.path.join(vlib.LEAN, "Gobptree", "Conc.lean")):
        return dict(compared=0, mismatches=0)
    import conctie
    return conctie.compare(sc, runs)


def replay(path):
    rep = json.load(open(path))
    sc = vlib.Scratch()
    try:
        bindir, err = build_shadow(sc)
        if bindir is None:
            print(err)
            return 2
        if "case" not in rep:
            print(json.dumps(rep, indent=1)[:4000])
            return 1
        runs, dfs, err = run_concrun(bindir, sc, "replay", [rep["case"]])
        bad = 0
        for r in runs:
            print("sched", r["sched"])
            print("\n".join(r["lines"]))
            for k, d in r["oracles"]:
                print("ORACLE", k, d)
                bad += 1
        return 1 if bad else 0
    finally:
        sc.cleanup()
