"""Concurrent checks: shadow copy + deterministic scheduler (implementation
side), Lean small-step model under the same schedule (tie), oracles, verdict."""
import json, os, random, re, subprocess, sys, time
from concurrent.futures import ThreadPoolExecutor
import vlib, genconc

KINDS = {
    "C03": {"linearizability", "panic"},
    "C04": {"linearizability", "panic"},
    "C05": {"callback", "linearizability"},
    "C06": {"deadlock", "livelock", "lockorder"},
    "C08": {"shape"},
    "C09": {"locks", "panic", "deadlock"},
    "C10": {"coupling", "resting"},
    # C07's write-frame oracle (concrun -writeframe): see writeframe_check, called by racecheck
    # and read-frame probe (`opt readframe`)
    "C07": {"writeframe", "readframe"},
}
PROFILES = {
    "C03": ["point", "point", "delete"],
    "C04": ["cursor", "cursor", "mixed"],
    "C05": ["update"],
    "C06": ["delete", "cursor", "mixed"],
    "C07": ["mixed", "delete", "update", "point", "cursor"],
    "C08": ["mixed", "delete"],
    "C09": ["mixed", "cursor", "point"],
    "C10": ["mixed", "point", "cursor"],
}
CORPUS = os.path.join(vlib.VERIF, "corpus", "conc")


def build_shadow(scratch):
    out = scratch.path("shadow")
    r = vlib.run([os.path.join(vlib.VERIF, "bin", "build-shadow"), vlib.REPO, out], env=vlib.GOENV)
    if r.returncode != 0:
        return None, r.stdout
    return os.path.join(out, "bin"), None


def load_corpus(pid):
    cases = []
    if os.path.isdir(CORPUS):
        for fn in sorted(os.listdir(CORPUS)):
            if not fn.endswith(".case"):
                continue
            props, lines = None, []
            for l in open(os.path.join(CORPUS, fn)):
                l = l.rstrip("\n")
                if l.startswith("# props:"):
                    props = l.split(":", 1)[1].split()
                elif l and not l.startswith("#"):
                    lines.append(l)
            if props is None or pid is None or pid in props:
                cur = []
                for l in lines:
                    cur.append(l)
                    if l == "cend":
                        cases.append(cur)
                        cur = []
    return cases


def parse_runs(text):
    """concrun output -> list of dict(case, sched, lines, oracles), plus dfs summaries"""
    runs, cur, dfs = [], None, []
    for l in text.splitlines():
        if l.startswith("case "):
            cur = dict(case=int(l.split()[1]), sched="", lines=[], oracles=[])
        elif l.startswith("dfs case"):
            dfs.append(l)
        elif cur is None:
            continue
        elif l.startswith("sched"):
            cur["sched"] = l[6:].strip()
        elif l.startswith("ORACLE "):
            k, _, d = l[7:].partition(" ")
            cur["oracles"].append((k, d))
        elif l == "cend":
            runs.append(cur)
            cur = None
        else:
            cur["lines"].append(l)
    return runs, dfs


def run_concrun(bindir, scratch, name, cases, dfs_max=20000, extra_args=()):
    f = scratch.path(name + ".cases")
    with open(f, "w") as fh:
        for c in cases:
            fh.write("\n".join(c) + "\n")
    with open(f) as fin:
        # one goroutine runs at a time under the cooperative scheduler: a single P makes every
        # hand-over a goroutine switch instead of a futex round trip between OS threads
        r = subprocess.run([os.path.join(bindir, "concrun"), "-dfs-max", str(dfs_max)] + list(extra_args), stdin=fin,
                           stdout=subprocess.PIPE, stderr=subprocess.PIPE, text=True, errors="replace", env=dict(os.environ, GOMAXPROCS="1"))
    runs, dfs = parse_runs(r.stdout)
    return runs, dfs, (r.returncode, r.stderr[-2000:])


def run_parallel(bindir, scratch, name, cases, dfs_max=20000, extra_args=(), solo=()):
    """`solo`: heavy cases (thousands of prefix operations, a long cursor session) that get a
    process of their own each, next to the shards of `cases`."""
    shards = min(vlib.NCPU, max(1, len(cases) // 4))
    # the heavy ones start first; a few more processes than CPUs, not one per heavy case
    parts = [[c] for c in solo] + [cases[i::shards] for i in range(shards)]
    parts = [p for p in parts if p] or [[]]
    shards = len(parts)
    with ThreadPoolExecutor(max_workers=min(shards, vlib.NCPU + 10)) as ex:
        futs = [ex.submit(run_concrun, bindir, scratch, "%s.%d" % (name, i), parts[i], dfs_max, extra_args) for i in range(shards)]
        res = [f.result() for f in futs]
    allruns, alldfs, errs = [], [], []
    for i, (runs, dfs, err) in enumerate(res):
        for r in runs:
            r["case_lines"] = parts[i][r["case"]]
            allruns.append(r)
        for l in dfs:
            # the summary of an exploration names its case by position in the shard: add the order
            k = int(l.split()[2])
            alldfs.append(l + (" order %s" % parts[i][k][0].split()[2] if k < len(parts[i]) else ""))
        if err[0] != 0:
            errs.append(err)
    return allruns, alldfs, errs


def replay_case(run):
    c = [l for l in run["case_lines"] if not l.startswith("strategy") and l != "cend"]
    return c + ["strategy replay " + run["sched"], "cend"]


def gen_cases(pid, rng, n, nsched):
    cases = []
    for i in range(n):
        prof = rng.choice(PROFILES[pid])
        c = genconc.case(rng, prof)
        c.append("strategy random %d %d" % (rng.randrange(1 << 30), nsched))
        c.append("cend")
        cases.append(c)
    return cases


# ---- wide orders, a root with more than 64 children, a long cursor session, unlock yields
WIDE_N = {"quick": 48, "thorough": 600}
WIDE_NSCHED = {"quick": 12, "thorough": 32}
UY_DFS_MAX = {"quick": 700, "thorough": 6000}
UY_RANDOM = {"quick": (120, 8), "thorough": (1500, 16)}
UY_PROPS = ("C03", "C04", "C05")
LONG_PROPS = ("C04", "C09")
def _pidnum(pid):
    return int(pid[1:3])


def wide_random_cases(pid, tier, n=None, nsched=None, allow_dfs=True):
    """random leaf-level shapes at orders 64/128/256 (thorough: 512); own random stream, so the
    cases of gen_cases stay what they were"""
    rng = random.Random(vlib.SEED * 1000003 + 7700 + _pidnum(pid))
    out = []
    for _ in range(WIDE_N[tier] if n is None else n):
        prof = rng.choice(PROFILES[pid])
        lines, small = genconc.wide_case(rng, prof, genconc.WIDE_ORDERS[tier])
        sseed = rng.randrange(1 << 30)
        if small and allow_dfs:
            out.append(lines + ["strategy dfs", "cend"])
        else:
            out.append(lines + ["strategy random %d %d" % (sseed, nsched or WIDE_NSCHED[tier]), "cend"])
    return out


def wide_fixed_cases(pid, tier):
    """wide_catalogue: order 128 for all six key types, orders 64 and 256 (thorough: 512 too)
    with the type rotating per configuration (thorough: all six)"""
    full = tier == "thorough"
    return genconc.wide_catalogue(orders=(128,), full=True) + \
        genconc.wide_catalogue(orders=((64, 256, 512) if full else (64, 256)), full=full)


def huge_cases(pid, tier, dfs=True):
    """a root (or internal node) with more than 64 children: per key type one two-goroutine
    case (Search against a split / merge / borrow of the leaf it heads for; variant rotating
    with the seed, thorough: all three), every schedule; plus one three-goroutine case under
    random schedules, type rotating with the seed"""
    rng = random.Random(vlib.SEED * 1000003 + 7800 + _pidnum(pid))
    variants = ["split", "merge", "borrow"]
    out = []
    for ti, ty in enumerate(genconc.genseq.TYPES):
        vs = variants if tier == "thorough" else [variants[(vlib.SEED + ti + _pidnum(pid)) % 3]]
        for v in vs:
            lines = genconc.huge_case(rng, ty, v)
            sseed = rng.randrange(1 << 30)
            out.append(lines + ["strategy dfs" if dfs else "strategy random %d 6" % sseed, "cend"])
    ty = genconc.genseq.TYPES[(vlib.SEED + _pidnum(pid)) % 6]
    nk = 9000 if rng.random() < 0.5 else rng.randrange(5400, 8100)
    lines = genconc.huge_case(rng, ty, "rand", nkeys=nk)
    out.append(lines + ["strategy random %d %d" % (rng.randrange(1 << 30), 8 if tier == "quick" else 24), "cend"])
    return out


def long_cursor_cases(pid, tier):
    """one cursor with more than 8300 steps over about 10 000 keys (order 16 or 32) and two
    writers working through the leaves it traverses in steps 8080..8310, paced by the
    cursor's progress; one case per scheduling mode (queue / ahead / rand, thorough: behind /
    cursor too; see concrun `strategy lead`), each a process of its own. Type rotating with the seed (seed 1: i32, 2: i64, ...), thorough: all six."""
    tys = genconc.genseq.TYPES if tier == "thorough" else [genconc.genseq.TYPES[(vlib.SEED - 1) % 6]]
    out = []
    for ti, ty in enumerate(tys):
        rng = random.Random(vlib.SEED * 1000003 + 7900 + _pidnum(pid) + 31 * ti)
        lines, lead, pace, steps = genconc.long_cursor_case(rng, ty, order=rng.choice([16, 32]))
        for mi, mode in enumerate(["queue", "ahead", "rand"] if tier == "quick" else ["queue", "ahead", "rand", "behind", "cursor"]):
            out.append(lines + ["strategy lead 0 %d %s %d %d pace %s" % (lead, mode, rng.randrange(1 << 30), 1 if tier == "quick" else 2, pace), "cend"])
    return out


def with_yieldunlock(case_lines, strategy=None):
    c = [l for l in case_lines if not l.startswith("opt ")]
    if strategy is not None:
        c = [strategy if l.startswith("strategy") else l for l in c]
    return [c[0], "opt yieldunlock"] + c[1:]


def is_unlock_yield(case_lines):
    return any(l.startswith("opt ") and "yieldunlock" in l.split() for l in case_lines[:4])


def unlock_yield_cases(pid, tier, rnd, wide_rnd, huge):
    """The share of cases that run with Unlock as a scheduling point too (`opt yieldunlock`):
    judged by the implementation-side oracles only (linearizability, cursor successor,
    callback count, panics); the Lean model has no unlock yields, so these runs are not tied.
    An unlock-yield schedule of race-free code is an interleaving like any other, so the
    oracles must stay silent on them; an access that moved out of its critical section makes
    them speak."""
    tys = genconc.genseq.TYPES
    cat_types = tys if tier == "thorough" else [tys[(vlib.SEED + _pidnum(pid) + d) % 6] for d in (0, 3)]
    out = [with_yieldunlock(c) for c in genconc.catalogue(types=cat_types)]
    # the CURSOR configurations of the catalogue for the other four key types too: a cursor hop
    # that re-reads `next` after releasing its leaf (R7-C04-a, string.go only) shows only when the
    # scheduler switches at that Unlock, to a writer parked on that leaf, on a tree of that type
    if tier != "thorough":
        rest = [t for t in tys if t not in cat_types]
        out += [with_yieldunlock(c) for c in genconc.catalogue(types=rest)
                if any((" ns " in l or l.endswith(" scan") or " scan " in l) for l in c if l.startswith("thread"))]
    # wide_catalogue at order 128: the point-operation configurations (a few hundred schedules
    # each: explored exhaustively, or nearly so, within UY_DFS_MAX) for all six key types, the
    # cursor configurations for one type each (thorough: everything, orders 64 and 256 too)
    if tier == "thorough":
        wf = genconc.wide_catalogue(orders=(128, 64, 256), full=True)
    else:
        rot = tys[(vlib.SEED + _pidnum(pid)) % 6:] + tys[:(vlib.SEED + _pidnum(pid)) % 6]
        wf = genconc.wide_catalogue(orders=(128,), full=True, select=lambda n: not n.startswith("cursor")) + \
            genconc.wide_catalogue(types=rot, orders=(128,), full=False, select=lambda n: n.startswith("cursor"))
    out += [with_yieldunlock(c) for c in wf]
    n, nsched = UY_RANDOM[tier]
    for c in rnd[:n]:
        st = [l for l in c if l.startswith("strategy")][0].split()
        out.append(with_yieldunlock(c, "strategy random %s %d" % (st[2], nsched)))
    for c in wide_rnd:
        st = [l for l in c if l.startswith("strategy")][0].split()
        out.append(with_yieldunlock(c, None if st[1] == "dfs" else "strategy random %s %d" % (st[2], nsched)))
    for i, c in enumerate(huge):
        out.append(with_yieldunlock(c, "strategy random %d %d" % (vlib.SEED * 131 + i, 6 if tier == "quick" else 16)))
    return out


# Per-step structure comparison (`opt stepsnap`): concrun prints `s <tree>` (the canonical
# rendering of the `final` line) before every scheduling decision and the Lean driver does the
# same for the configuration in which the decision is taken, so the tie compares the WHOLE
# structure after every scheduler step, which pins the order of the writes relative to the
# parks. Share: every hand-written case (corpus, catalogues; dfs cases print the lines only for
# the runs they emit) up to STEPSNAP_MAX_PRE prefix operations, and every
# STEPSNAP_RANDOM_EVERY[tier]-th random case (an `s` line is ~0.8 kB, 4x the rest of a step's
# lines; the thorough tier has 33x the runs, hence the smaller share there).
STEPSNAP_MAX_PRE = 150
STEPSNAP_RANDOM_EVERY = {"quick": 4, "thorough": 16}


STEPSNAP_MAX_PRE_WIDE = 420


def npre(case_lines):
    return sum(1 for l in case_lines if l.startswith("pre "))


def trim_log(lines, n=400):
    """the event log of a replay file: the first and the last lines of a long log"""
    lines = [l if len(l) < 2000 else l[:2000] + " ..." for l in lines]
    if len(lines) <= n:
        return lines
    return lines[:n // 4] + ["... (%d lines)" % (len(lines) - n)] + lines[-(n - n // 4):]


def with_stepsnap(case_lines):
    return [case_lines[0], "opt stepsnap"] + case_lines[1:]


def modest(case_lines):
    return sum(1 for l in case_lines if l.startswith("pre ")) <= STEPSNAP_MAX_PRE


def has_cursor(case_lines):
    return any(l.startswith("thread") and " ns " in l for l in case_lines)


def relevant(pid, run, known):
    out = []
    for k, d in run["oracles"]:
        if k not in KINDS[pid]:
            continue
        if pid == "C03" and k == "linearizability" and has_cursor(run["case_lines"]):
            continue  # cursor histories are C04's
        hdr = run["case_lines"][0].split()
        order = int(hdr[2])
        if k == "panic":
            # KF-1: order 2 + Delete panicking in deleteKey/adoptFromLeft
            f = dict(order=order, kind="panic", op="del ", site=d)
            if order == 2 and ("siblings have no children" in d or "index out of range" in d) and \
               any("del " in l for l in run["case_lines"] if l.startswith("thread") or l.startswith("pre")):
                if any(kf["id"] == "KF-1" for kf in known):
                    out.append(("known:KF-1", k, d))
                    continue
        if pid == "C08" and order == 2:
            continue
        out.append(("viol", k, d))
    return out


def check(pid, tier, sink=None):
    t0 = time.time()
    sc = vlib.Scratch()
    try:
        return _check(pid, tier, sc, t0, sink)
    finally:
        sc.cleanup()


def _check(pid, tier, sc, t0, sink=None):
    import seqcheck
    rng = random.Random(vlib.SEED * 1000003 + 100 + int(pid[1:]))
    known = vlib.load_known()
    bindir, err = build_shadow(sc)
    if bindir is None:
        where = ("the HARNESS (verifharness/…) does not compile against it — a defect of the checker, not of the library"
                 if "verifharness/" in (err or "") and "github.com/karrick/gobptree\n" not in (err or "") else
                 "the library sources do not compile with the sync import swapped")
        p = vlib.write_replay(pid, "build", dict(property=pid, engine="conc", what="the shadow copy (sources with only the sync import swapped) no longer builds: " + where,
                                                  broken="correspondence: shadow build", log=err[-3000:]))
        print("VIOLATION property=%s replay=%s no-failing-input-found" % (pid, p))
        vlib.write_evidence(pid, tier, "proof", dict(obligations=1, discharged=0, checker_cmd="bin/check %s %s" % (pid, tier),
                            trusted_base=vlib.TRUSTED_BASE, explanation="shadow build failed"), time.time() - t0, 1, [])
        return 1
    proof = vlib.proof_step(pid, bindir)
    tie_broken = []
    if proof["problems"]:
        tie_broken.append(dict(kind="proof", detail=proof["problems"]))
    import factcheck
    facts = factcheck.run(bindir if os.path.exists(os.path.join(bindir, "factcheck")) else bindir, pid)
    if facts["problems"]:
        tie_broken.append(dict(kind="extracted-facts", detail=facts["problems"][:6]))
    ncases, nsched = {"quick": (900, 16), "thorough": (12000, 40)}[tier]
    corpus = load_corpus(pid)
    fixed = corpus + genconc.catalogue() + genconc.scaled_catalogue(full=(tier == "thorough")) + genconc.tall_catalogue(sizes=((9, 13, 17) if tier == "quick" else (9, 13, 17, 27, 41))) + genconc.spine_cases(nsched=(3 if tier == "quick" else 12))
    rnd = gen_cases(pid, rng, ncases, nsched)
    # wide orders (own random streams: the cases above are what they were without them)
    wide_fixed = wide_fixed_cases(pid, tier)
    wide_rnd = wide_random_cases(pid, tier)
    huge = huge_cases(pid, tier)
    longc = long_cursor_cases(pid, tier) if pid in LONG_PROPS else []
    fixed = fixed + wide_fixed
    # the selection draws nothing from rng: the cases are the same with and without it
    cases = [with_stepsnap(c) if modest(c) else c for c in fixed] + \
            [with_stepsnap(c) if i % STEPSNAP_RANDOM_EVERY[tier] == 0 else c for i, c in enumerate(rnd)] + \
            [with_stepsnap(c) if i % STEPSNAP_RANDOM_EVERY[tier] == 0 and npre(c) <= STEPSNAP_MAX_PRE_WIDE else c for i, c in enumerate(wide_rnd)]
    solo = huge + longc
    # unlock yields: implementation-side oracles only, never tied to the model. They run in the
    # background, next to the main run and the model's replay of it.
    uy_runs, uy_dfs, uy_cases, uy_wall = [], [], [], [0.0]
    uy_future = uy_pool = None
    if pid in UY_PROPS:
        uy_cases = unlock_yield_cases(pid, tier, rnd, wide_rnd, huge)
        def uy_job():
            t = time.time()
            res = run_parallel(bindir, sc, "uy", uy_cases, dfs_max=UY_DFS_MAX[tier])
            uy_wall[0] = time.time() - t
            return res
        uy_pool = ThreadPoolExecutor(max_workers=1)
        uy_future = uy_pool.submit(uy_job)
    t_run = time.time()
    runs, dfs, errs = run_parallel(bindir, sc, "main", cases, solo=solo)
    cases = cases + solo
    t_run = time.time() - t_run
    # TIE: the Lean small-step model under the same schedules (the unlock-yield runs are not
    # among them: the model's scheduling points are the lock acquisitions)
    t_tie = time.time()
    tie = model_tie(pid, sc, runs)
    t_tie = time.time() - t_tie
    if uy_future is not None:
        uy_runs, uy_dfs, uy_errs = uy_future.result()
        uy_pool.shutdown()
        errs = errs + uy_errs
    t_uy = uy_wall[0]
    violations, known_hits = [], {}
    for e in errs:
        tie_broken.append(dict(kind="harness", detail="concrun exited %d: %s" % e))
    seen = set()
    for r in runs + uy_runs:
        for tag, k, d in relevant(pid, r, known):
            if tag.startswith("known:"):
                known_hits.setdefault(tag[6:], (k, d, r))
                continue
            key = (k, d[:30])
            if key in seen or len(violations) >= 3:
                continue
            seen.add(key)
            violations.append(dict(property=pid, engine="conc", kind=k, observed=d, case=replay_case(r),
                                   yield_points=("lock+unlock" if is_unlock_yield(r["case_lines"]) else "lock"),
                                   event_log=trim_log(r["lines"]), seed=vlib.SEED, how="bin/check --replay <this file>"))
    if tie.get("mismatch"):
        tie_broken.append(dict(kind="correspondence", **tie["mismatch"]))
    if pid == "C06" and tie.get("unranked_states"):
        # the model reached a configuration that violates the hypothesis of ranked_not_deadlocked
        tie_broken.append(dict(kind="model-invariant", detail="the Lean model, replaying an implementation run, passes through %d configurations that are not Ranked(levelRank): the premise of C06_ranked_no_deadlock fails there" % tie["unranked_states"],
                               case=tie.get("unranked_case")))
    for kid, (k, d, r) in known_hits.items():
        print("KNOWN-FINDING: property=%s %s [%s: %s]" % (pid, kid, k, d[:160]))
    rc, nviol = 0, 0
    for v in violations:
        p = vlib.write_replay(pid, "conc%d" % nviol, v)
        print("VIOLATION property=%s replay=%s" % (pid, p))
        nviol += 1
        rc = 1
    if tie_broken and not violations:
        rep = dict(property=pid, engine="conc", what="the machine-checked link no longer checks and no failing input was found",
                   broken=tie_broken, seed=vlib.SEED, theorem_file="lean/Gobptree/Props/%s.lean" % pid)
        p = vlib.write_replay(pid, "tie", rep)
        print("VIOLATION property=%s replay=%s no-failing-input-found" % (pid, p))
        nviol += 1
        rc = 1
    # (the per-step structure lines are left out of the hash: the count stays comparable)
    distinct = len({vlib.trace_hash([l for l in r["lines"] if not l.startswith("s ")]) for r in runs + uy_runs if any(l.startswith("a ") for l in r["lines"])})
    stats = dict(runs=len(runs), cases=len(cases), dfs=dfs[:20],
                 threads={}, with_cursor=sum(1 for c in cases if has_cursor(c)),
                 stepsnap_cases=sum(1 for c in cases if "opt stepsnap" in c),
                 steps=sum(len(r["sched"].split()) for r in runs),
                 lockorder_states_checked=sum(int(l.split()[3]) for r in runs for l in r["lines"] if l.startswith("# lockorder states")))
    for c in cases:
        n = sum(1 for l in c if l.startswith("thread"))
        stats["threads"][str(n)] = stats["threads"].get(str(n), 0) + 1
    # wide orders / a root with more than 64 children / long cursor sessions / unlock yields
    def dfs_total(dfs_lines):
        return sum(int(l.split()[4]) for l in dfs_lines)
    def by_order(cs):
        d = {}
        for c in cs:
            o = c[0].split()[2]
            if int(o) >= 64:
                d[o] = d.get(o, 0) + 1
        return dict(sorted(d.items(), key=lambda kv: int(kv[0])))
    long_ids = {id(c) for c in longc}
    long_runs = [r for r in runs if id(r["case_lines"]) in long_ids]
    stats["wide"] = dict(
        cases_per_order=by_order(cases), catalogue_cases=len(wide_fixed), random_cases=len(wide_rnd),
        types=sorted({c[0].split()[1] for c in cases if int(c[0].split()[2]) >= 64}),
        huge_cases=[dict(type=c[0].split()[1], order=int(c[0].split()[2]), prefix_ops=npre(c),
                         strategy=[l for l in c if l.startswith("strategy")][0].split()[1]) for c in huge],
        schedules_explored=dfs_total([l for l in dfs if " order " in l and int(l.split()[-1]) >= 64]) + sum(1 for r in runs if int(r["case_lines"][0].split()[2]) >= 64 and "dfs" not in [l for l in r["case_lines"] if l.startswith("strategy")][0]))
    stats["long_cursor"] = dict(
        cases=len(longc), runs=len(long_runs),
        types=sorted({c[0].split()[1] for c in longc}),
        cursor_steps=sum(1 for r in long_runs for l in r["lines"] if l.startswith("n 0 ret ") and l.endswith(" true")),
        max_steps_one_cursor=max([sum(1 for l in r["lines"] if l.startswith("n 0 ret ") and l.endswith(" true")) for r in long_runs] or [0]),
        writer_ops=sum(1 for r in long_runs for l in r["lines"] if l.startswith(("n 1 ret ", "n 2 ret "))),
        modes=[[l for l in c if l.startswith("strategy")][0].split()[4] for c in longc])
    stats["interval_oracle"] = dict(
        runs=sum(1 for r in runs + uy_runs for l in r["lines"] if l.startswith("# interval oracle ops")),
        ops_judged=sum(int(l.split()[4]) for r in runs + uy_runs for l in r["lines"] if l.startswith("# interval oracle ops")))
    stats["unlock_yield"] = dict(
        cases=len(uy_cases), runs_emitted=len(uy_runs),
        unlock_yield_runs=dfs_total(uy_dfs) + sum(1 for r in uy_runs if "dfs" not in [l for l in r["case_lines"] if l.startswith("strategy")][0]),
        dfs_cases=len(uy_dfs), dfs_exhaustive=sum(1 for l in uy_dfs if "exhaustive true" in l), dfs_max=UY_DFS_MAX[tier],
        steps=sum(len(r["sched"].split()) for r in uy_runs), cases_per_order=by_order(uy_cases),
        tied_to_model=0, judged_by="implementation-side oracles: " + ", ".join(sorted(KINDS[pid])))
    stats["wall_s"] = dict(run=round(t_run, 2), unlock_yield=round(t_uy, 2), tie=round(t_tie, 2))
    samples = [dict(case=r["case_lines"], sched=r["sched"]) for r in runs[:2]]
    cov = dict(obligations=proof["obligations"], discharged=proof["discharged"],
               checker_cmd="cd /verif/lean && lake build Gobptree.Props.%s && lake env lean Gobptree/Props/%s.lean  (#print axioms)" % (pid, pid),
               trusted_base=vlib.TRUSTED_BASE + ["vsync cooperative scheduler and the import rewrite that builds the shadow copy",
                                                "linearizability checker harness/lin (implementation-side oracle)"],
               theorems=proof["theorems"], evaluations=len(runs) + len(uy_runs), distinct_nontrivial=distinct,
               rule="executions = (client programs x schedules) on the shadow copy under the deterministic scheduler; non-trivial = at least one lock acquisition; distinct = distinct SHA-1 of the canonical event log",
               samples=samples, traces_validated_against_impl=tie.get("compared", 0),
               disagreements_checked=tie.get("mismatches", 0),
               stepsnap_runs_compared=tie.get("stepsnap_runs", 0), stepsnap_lines_compared=tie.get("stepsnap_lines_compared", 0),
               unlock_yield_runs=stats["unlock_yield"]["unlock_yield_runs"], unlock_yield_runs_tied=0,
               wide_cases_per_order=stats["wide"]["cases_per_order"], long_cursor_steps=stats["long_cursor"]["cursor_steps"],
               distribution=stats,
               model_configurations_ranked=tie.get("ranked_states", 0), model_configurations_unranked=tie.get("unranked_states", 0),
               known_findings=sorted(known_hits), proof_problems=proof["problems"])
    assumptions = ["interleavings at lock-acquisition granularity are complete for race-free code (Go memory model, DRF-SC): assumed, not proved in Lean",
                   "callbacks are pure; a goroutine with an open cursor performs only cursor operations"]
    if sink is not None:
        sink.append((cov, nviol, assumptions))
    else:
        vlib.write_evidence(pid, tier, "proof", cov, time.time() - t0, nviol, assumptions)
    return rc


def writeframe_check(pid, tier, sc, rng):
    """C07, implementation side of the Lean theorem C07_write_frame: the catalogue and random
    cases of the other concurrent checks run on the shadow copy with the write-frame oracle
    (concrun -writeframe), once with scheduling points at Lock only and once with Unlock as a
    scheduling point too (a write placed after an unlock then falls into a later step, in which
    the mutex is no longer held). Every run also carries the read-frame probe (`opt readframe`,
    see concrun's rfState): the keys and values of the nodes the stepping task does not hold -
    and of a node from the moment the task releases it - are scrambled for the rest of the
    step; a run whose log or verdicts differ from the same schedule without the probe shows a
    read outside the critical section (oracle `readframe`). The engine options travel in the case (`opt` line), so a
    replay file is self-contained. Returns dict(violations, stats, errs, build_error)."""
    t0 = time.time()
    bindir, err = build_shadow(sc)
    if bindir is None:
        return dict(violations=[], stats={}, errs=[], build_error=err)
    ncases, nsched, dfs_lock, dfs_unlock = {"quick": (900, 12, 4000, 300), "thorough": (6000, 24, 20000, 4000)}[tier]
    base = load_corpus(None) + genconc.catalogue() + genconc.scaled_catalogue(full=(tier == "thorough")) + \
        genconc.tall_catalogue(sizes=((9, 13, 17) if tier == "quick" else (9, 13, 17, 27, 41))) + \
        genconc.spine_cases(nsched=(2 if tier == "quick" else 8)) + gen_cases(pid, rng, ncases, nsched)
    # wide orders: the leaf-level catalogue at order 128 (one key type per configuration,
    # thorough: all six and orders 64/256 too), the random leaf-level shapes, and the trees whose
    # root has more than 64 children (random schedules only: a step's diff costs the whole tree)
    wide = (genconc.wide_catalogue(orders=(128, 64, 256), full=True) if tier == "thorough" else
            genconc.wide_catalogue(types=genconc.genseq.TYPES[vlib.SEED % 6:] + genconc.genseq.TYPES[:vlib.SEED % 6], orders=(128,), full=False)) + \
        wide_random_cases(pid, tier, nsched=(6 if tier == "quick" else 16)) + huge_cases(pid, tier, dfs=False)
    base = base + wide
    out = dict(violations=[], errs=[], build_error=None)
    stats = dict(cases=0, runs=0, steps_checked=0, snapshots_diffed=0, nodes_compared=0, modes={}, types={})
    seen = set()
    known = vlib.load_known()
    for mode, opts, dfs_max in (("lock", "writeframe readframe", dfs_lock), ("lock+unlock", "writeframe readframe yieldunlock", dfs_unlock)):
        cases = [[c[0], "opt " + opts] + c[1:] for c in base]
        runs, dfs, errs = run_parallel(bindir, sc, "wf_" + mode.replace("+", "_"), cases, dfs_max, extra_args=["-writeframe"])
        out["errs"] += errs
        steps = nodes = nruns = rfsteps = rfnodes = 0
        cands = []
        for r in runs:
            nruns += 1
            for l in r["lines"]:
                if l.startswith("# writeframe steps "):
                    f = l.split()
                    steps += int(f[3])
                    nodes += int(f[5])
                elif l.startswith("# readframe steps "):
                    f = l.split()
                    rfsteps += int(f[3])
                    rfnodes += int(f[5]) + int(f[7])
            for tag, k, d in relevant(pid, r, known):
                if tag == "viol":
                    cands.append((len(r["sched"].split()), len(cands), k, d, r))
        # shortest schedule first; one replay per written field (runts / values / next / children /
        # membership / root) and yield mode
        for _, _, k, d, r in sorted(cands, key=lambda c: c[:2]):
            key = (k, d.split()[0], mode)
            if key in seen or len(out["violations"]) >= 3:
                continue
            seen.add(key)
            out["violations"].append(dict(property=pid, engine="conc", kind=k, observed=d, yield_points=mode, case=replay_case(r),
                                          event_log=trim_log(r["lines"]), seed=vlib.SEED, how="bin/check --replay <this file>"))
        stats_viol = len(cands)
        for l in dfs:
            f = l.split()
            if "wfsteps" in f:        # counters over the runs of the dfs case that were not emitted
                nruns += int(f[f.index("quiet") + 1])
                steps += int(f[f.index("wfsteps") + 1])
                nodes += int(f[f.index("wfnodes") + 1])
        stats["modes"][mode] = dict(cases=len(cases), runs=nruns, steps_checked=steps, nodes_compared=nodes,
                                    readframe_steps_emitted_runs=rfsteps, readframe_nodes_scrambled_emitted_runs=rfnodes,
                                    reports=stats_viol, dfs_cases=len(dfs), dfs_exhaustive=sum(1 for l in dfs if "exhaustive true" in l), dfs_max=dfs_max)
        stats["cases"] += len(cases)
        stats["runs"] += nruns
        stats["steps_checked"] += steps
        stats["snapshots_diffed"] += steps    # one before/after pair of snapshots per step
        stats["nodes_compared"] += nodes
    stats["wide_cases_per_order"] = {}
    for c in base:
        ty = c[0].split()[1]
        stats["types"][ty] = stats["types"].get(ty, 0) + 1
        o = c[0].split()[2]
        if int(o) >= 64:
            stats["wide_cases_per_order"][o] = stats["wide_cases_per_order"].get(o, 0) + 1
    stats["readframe_rule"] = ("every run of both modes also carries the read-frame probe (`opt readframe`): when a task is picked, the keys of every node "
                               "it neither holds nor is about to acquire are reversed and the values replaced by sentinels, likewise a node the moment the task "
                               "releases it; all is put back before the next decision. Runs made by `random`/`replay` strategies are repeated under the same "
                               "schedule without the probe and compared line by line; a run of an exhaustive exploration is repeated when an oracle objects to it. "
                               "A difference is a read of a node outside its critical section (oracle `readframe`, a C07 violation replayed by bin/check --replay). "
                               "Implementation-side oracle; the Lean development proves the write frame only.")
    stats["wall_s"] = round(time.time() - t0, 2)
    out["stats"] = stats
    return out


def model_tie(pid, sc, runs):
    """Feeds each run's case + schedule to the Lean small-step model and compares
    the canonical event logs. (Enabled once lean/Gobptree/Conc.lean is built.)"""
    if not os.path.exists(os.path.join(vlib.LEAN, "Gobptree", "Conc.lean")):
        return dict(compared=0, mismatches=0)
    import conctie
    return conctie.compare(sc, runs)


def replay(path):
    rep = json.load(open(path))
    sc = vlib.Scratch()
    try:
        bindir, err = build_shadow(sc)
        if bindir is None:
            print(err)
            return 2
        if "case" not in rep:
            print(json.dumps(rep, indent=1)[:4000])
            return 1
        runs, dfs, err = run_concrun(bindir, sc, "replay", [rep["case"]])
        bad = 0
        for r in runs:
            print("sched", r["sched"])
            print("\n".join(r["lines"]))
            for k, d in r["oracles"]:
                print("ORACLE", k, d)
                bad += 1
        return 1 if bad else 0
    finally:
        sc.cleanup()
