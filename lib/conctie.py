"""Tie for the concurrent engine: replays each implementation run (client programs +
the schedule the deterministic scheduler took) on the Lean small-step model and
compares the canonical event logs line by line. Cases that carry `opt stepsnap` also
print, on both sides, an `s <tree>` line before every `d` line: the canonical rendering of
the whole structure in the state in which that scheduling decision is taken. These lines
are compared like any other line, so the ORDER of the writes relative to the parks is
pinned at every step and not only through the final structure."""
import os, re, subprocess
from concurrent.futures import ThreadPoolExecutor
import vlib

CMODEL = os.path.join(vlib.LEAN, ".lake", "build", "bin", "cmodel")


def norm(lines):
    out = []
    for l in lines:
        if l.startswith("#"):
            continue
        m = re.match(r"^(n \d+ panic)\b", l)
        if m:
            l = m.group(1)
        # a replayed schedule that names a task which is not enabled: the scheduler says
        # "aborted schedule names task T which is not enabled (enabled [..]) at step N",
        # the model says "stuck T [..]"
        m = re.match(r"^aborted schedule names task (\d+) which is not enabled \(enabled (\[[^\]]*\])\)", l)
        if m:
            l = "stuck %s %s" % (m.group(1), m.group(2))
        out.append(l)
    return out


def compare(sc, runs, limit=None):
    runs = [r for r in runs if r.get("sched") is not None]
    # runs with Unlock as a scheduling point have no counterpart in the model (its scheduling
    # points are the lock acquisitions): they are judged by the implementation-side oracles only
    nskip = len(runs)
    runs = [r for r in runs if not any(l.startswith("opt ") and "yieldunlock" in l.split() for l in r["case_lines"][:4])]
    nskip -= len(runs)
    if limit:
        runs = runs[:limit]
    # the model is a sequential filter (one case after the other): shard the runs over the
    # CPUs. The cost of a run is dominated by the replay of its prefix and by its length, so
    # the runs are dealt heaviest first onto the currently lightest shard (a run with a
    # 9000-operation prefix costs as much as a thousand small ones); `runs` is reordered to the
    # concatenation of the shards, so that the concatenated outputs are in the order of `runs`.
    shards = min(vlib.NCPU, max(1, len(runs) // 256))
    def cost(r):
        return 40 + sum(1 for l in r["case_lines"] if l.startswith("pre ")) + len(r["sched"]) // 2
    load = [0] * shards
    blocks = [[] for _ in range(shards)]
    for r in sorted(runs, key=cost, reverse=True):
        i = load.index(min(load))
        blocks[i].append(r)
        load[i] += cost(r)
    runs = [r for b in blocks for r in b]

    def one(i):
        f = sc.path("tie.%d.cases" % i)
        with open(f, "w") as fh:
            for r in blocks[i]:
                c = [l for l in r["case_lines"] if not l.startswith("strategy") and l != "cend"]
                fh.write("\n".join(c + ["strategy replay " + r["sched"], "cend"]) + "\n")
        with open(f) as fin:
            return subprocess.run([CMODEL], stdin=fin, stdout=subprocess.PIPE, stderr=subprocess.PIPE, text=True, errors="replace")

    with ThreadPoolExecutor(max_workers=len(blocks)) as ex:
        procs = list(ex.map(one, range(len(blocks))))
    outs, cur = [], None
    for p in procs:
        cur = None
        for l in p.stdout.splitlines():
            if l.startswith("case "):
                cur = []
            elif l == "cend":
                outs.append(cur)
                cur = None
            elif cur is not None:
                cur.append(l)
    bad = [p for p in procs if p.returncode != 0]
    res = dict(compared=0, mismatches=0, mismatch=None, ranked_states=0, unranked_states=0, unranked_case=None,
               stepsnap_runs=0, stepsnap_lines_compared=0, skipped_unlock_yield=nskip)
    if bad or len(outs) != len(runs):
        res["mismatch"] = dict(detail="cmodel produced %d cases for %d runs (exit %s): %s" % (
            len(outs), len(runs), [p.returncode for p in procs], (bad[0] if bad else procs[0]).stderr[-500:]))
        res["mismatches"] = 1
        return res
    for r, mo in zip(runs, outs):
        for l in mo:
            if l.startswith("# ranked "):
                f = l.split()
                res["ranked_states"] += int(f[2])
                res["unranked_states"] += int(f[3])
                if int(f[3]) and res["unranked_case"] is None:
                    res["unranked_case"] = [l2 for l2 in r["case_lines"] if not l2.startswith("strategy") and l2 != "cend"] + ["strategy replay " + r["sched"], "cend"]
        io = norm(r["lines"])
        mo = norm(mo)
        res["compared"] += 1
        if io == mo:
            ns = sum(1 for l in io if l.startswith("s "))
            res["stepsnap_lines_compared"] += ns
            res["stepsnap_runs"] += 1 if ns else 0
        else:
            res["mismatches"] += 1
            j = 0
            while j < min(len(io), len(mo)) and io[j] == mo[j]:
                j += 1
            ns = sum(1 for l in io[:j] if l.startswith("s "))
            res["stepsnap_lines_compared"] += ns
            res["stepsnap_runs"] += 1 if ns else 0
            if res["mismatch"] is None:
                kind = (io[j] if j < len(io) else (mo[j] if j < len(mo) else "?")).split(" ", 1)[0]
                res["mismatch"] = dict(line_kind=kind, case=[l for l in r["case_lines"] if not l.startswith("strategy") and l != "cend"] + ["strategy replay " + r["sched"], "cend"],
                                       at=j, impl=io[max(0, j - 3): j + 3], model=mo[max(0, j - 3): j + 3],
                                       oracles=r.get("oracles"))
    return res
