"""Tie for the concurrent engine: replays each implementation run (client programs +
the schedule the deterministic scheduler took) on the Lean small-step model and
compares the canonical event logs line by line. Cases that carry `opt stepsnap` also
print, on both sides, an `s <tree>` line before every `d` line: the canonical rendering of
the whole structure in the state in which that scheduling decision is taken. These lines
are compared like any other line, so the ORDER of the writes relative to the parks is
pinned at every step and not only through the final structure."""
import os, re, subprocess
from concurrent.futures import ThreadPoolExecutor
import vlib

CMODEL = os.path.join(vlib.LEAN, ".lake", "build", "bin", "cmodel")


def norm(lines):
    out = []
    for l in lines:
        if l.startswith("#"):
            continue
        m = re.match(r"^(n \d+ panic)\b", l)
        if m:
            l = m.group(1)
        # a replayed schedule that names a task which is not enabled: the scheduler says
        # "aborted schedule names task T which is not enabled (enabled [..]) at step N",
        # the model says "stuck T [..]"
        m = re.match(r"^aborted schedule names task (\d+) which is not enabled \(enabled (\[[^\]]*\])\)", l)
        if m:
            l = "stuck %s %s" % (m.group(1), m.group(2))
        out.append(l)
    return out


def compare(sc, runs, limit=None):
    runs = [r for r in runs if r.get("sched") is not None]
    if limit:
        runs = runs[:limit]
    # the model is a sequential filter (one case after the other): shard the runs over the
    # CPUs, contiguous blocks so that the concatenated outputs are in the order of `runs`
    shards = min(vlib.NCPU, max(1, len(runs) // 256))
    size = -(-len(runs) // shards) if runs else 1
    blocks = [runs[i:i + size] for i in range(0, len(runs), size)] or [[]]

    def one(i):
        f = sc.path("tie.%d.cases" % i)
        with open(f, "w") as fh:
            for r in blocks[i]:
                c = [l for l in r["case_lines"] if not l.startswith("strategy") and l != "cend"]
                fh.write("\n".join(c + ["strategy replay " + r["sched"], "cend"]) + "\n")
        with open(f) as fin:
            return subprocess.run([CMODEL], stdin=fin, stdout=subprocess.PIPE, stderr=subprocess.PIPE, text=True)

    with ThreadPoolExecutor(max_workers=len(blocks)) as ex:
        procs = list(ex.map(one, range(len(blocks))))
    outs, cur = [], None
    for p in procs:
        cur = None
        for l in p.stdout.splitlines():
            if l.startswith("case "):
                cur = []
            elif l == "cend":
                outs.append(cur)
                cur = None
            elif cur is not None:
                cur.append(l)
    bad = [p for p in procs if p.returncode != 0]
    res = dict(compared=0, mismatches=0, mismatch=None, ranked_states=0, unranked_states=0, unranked_case=None,
               stepsnap_runs=0, stepsnap_lines_compared=0)
    if bad or len(outs) != len(runs):
        res["mismatch"] = dict(detail="cmodel produced %d cases for %d runs (exit %s): %s" % (
            len(outs), len(runs), [p.returncode for p in procs], (bad[0] if bad else procs[0]).stderr[-500:]))
        res["mismatches"] = 1
        return res
    for r, mo in zip(runs, outs):
        for l in mo:
            if l.startswith("# ranked "):
                f = l.split()
                res["ranked_states"] += int(f[2])
                res["unranked_states"] += int(f[3])
                if int(f[3]) and res["unranked_case"] is None:
                    res["unranked_case"] = [l2 for l2 in r["case_lines"] if not l2.startswith("strategy") and l2 != "cend"] + ["strategy replay " + r["sched"], "cend"]
        io = norm(r["lines"])
        mo = norm(mo)
        res["compared"] += 1
        if io == mo:
            ns = sum(1 for l in io if l.startswith("s "))
            res["stepsnap_lines_compared"] += ns
            res["stepsnap_runs"] += 1 if ns else 0
        else:
            res["mismatches"] += 1
            j = 0
            while j < min(len(io), len(mo)) and io[j] == mo[j]:
                j += 1
            ns = sum(1 for l in io[:j] if l.startswith("s "))
            res["stepsnap_lines_compared"] += ns
            res["stepsnap_runs"] += 1 if ns else 0
            if res["mismatch"] is None:
                kind = (io[j] if j < len(io) else (mo[j] if j < len(mo) else "?")).split(" ", 1)[0]
                res["mismatch"] = dict(line_kind=kind, case=[l for l in r["case_lines"] if not l.startswith("strategy") and l != "cend"] + ["strategy replay " + r["sched"], "cend"],
                                       at=j, impl=io[max(0, j - 3): j + 3], model=mo[max(0, j - 3): j + 3],
                                       oracles=r.get("oracles"))
    return res
