"""Tie for the concurrent engine: replays each implementation run (client programs +
the schedule the deterministic scheduler took) on the Lean small-step model and
compares the canonical event logs line by line."""
import os, re, subprocess
import vlib

CMODEL = os.path.join(vlib.LEAN, ".lake", "build", "bin", "cmodel")


def norm(lines):
    out = []
    for l in lines:
        if l.startswith("#"):
            continue
        m = re.match(r"^(n \d+ panic)\b", l)
        if m:
            l = m.group(1)
        # a replayed schedule that names a task which is not enabled: the scheduler says
        # "aborted schedule names task T which is not enabled (enabled [..]) at step N",
        # the model says "stuck T [..]"
        m = re.match(r"^aborted schedule names task (\d+) which is not enabled \(enabled (\[[^\]]*\])\)", l)
        if m:
            l = "stuck %s %s" % (m.group(1), m.group(2))
        out.append(l)
    return out


def compare(sc, runs, limit=None):
    runs = [r for r in runs if r.get("sched") is not None]
    if limit:
        runs = runs[:limit]
    f = sc.path("tie.cases")
    with open(f, "w") as fh:
        for r in runs:
            c = [l for l in r["case_lines"] if not l.startswith("strategy") and l != "cend"]
            fh.write("\n".join(c + ["strategy replay " + r["sched"], "cend"]) + "\n")
    with open(f) as fin:
        p = subprocess.run([CMODEL], stdin=fin, stdout=subprocess.PIPE, stderr=subprocess.PIPE, text=True)
    outs, cur = [], None
    for l in p.stdout.splitlines():
        if l.startswith("case "):
            cur = []
        elif l == "cend":
            outs.append(cur)
            cur = None
        elif cur is not None:
            cur.append(l)
    res = dict(compared=0, mismatches=0, mismatch=None, ranked_states=0, unranked_states=0, unranked_case=None)
    if p.returncode != 0 or len(outs) != len(runs):
        res["mismatch"] = dict(detail="cmodel produced %d cases for %d runs (exit %d): %s" % (len(outs), len(runs), p.returncode, p.stderr[-500:]))
        res["mismatches"] = 1
        return res
    for r, mo in zip(runs, outs):
        for l in mo:
            if l.startswith("# ranked "):
                f = l.split()
                res["ranked_states"] += int(f[2])
                res["unranked_states"] += int(f[3])
                if int(f[3]) and res["unranked_case"] is None:
                    res["unranked_case"] = [l2 for l2 in r["case_lines"] if not l2.startswith("strategy") and l2 != "cend"] + ["strategy replay " + r["sched"], "cend"]
        io = norm(r["lines"])
        mo = norm(mo)
        res["compared"] += 1
        if io != mo:
            res["mismatches"] += 1
            if res["mismatch"] is None:
                j = 0
                while j < min(len(io), len(mo)) and io[j] == mo[j]:
                    j += 1
                res["mismatch"] = dict(case=[l for l in r["case_lines"] if not l.startswith("strategy") and l != "cend"] + ["strategy replay " + r["sched"], "cend"],
                                       at=j, impl=io[max(0, j - 3): j + 3], model=mo[max(0, j - 3): j + 3],
                                       oracles=r.get("oracles"))
    return res
