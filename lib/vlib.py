"""Shared machinery of the /verif checks: scratch space, builds, the Lean proof
audit, the sequential correspondence runner, known findings, evidence."""
import fcntl, hashlib, json, os, random, re, shutil, subprocess, sys, tempfile, time

VERIF = os.path.dirname(os.path.dirname(os.path.abspath(__file__)))
REPO = os.environ.get("VERIF_REPO", "/repo")
LEAN = os.path.join(VERIF, "lean")
SEED = int(os.environ.get("VERIF_SEED", "1") or "1")
GOENV = dict(os.environ, GOFLAGS="-mod=mod", GOPROXY="off", GOSUMDB="off", GOTOOLCHAIN="local",
             CGO_ENABLED=os.environ.get("CGO_ENABLED", "0"))
ALLOWED_AXIOMS = {"propext", "Classical.choice", "Quot.sound"}
NCPU = max(2, min(16, os.cpu_count() or 4))

TRUSTED_BASE = [
    "Lean 4.33.0 kernel (thorough tier: leanchecker re-check of the Props oleans)",
    "axioms allowed in property theorems: propext, Classical.choice, Quot.sound (audited by #print axioms on every run)",
    "hand-written Lean model of the tree code (lean/Gobptree/{Slice,Search,Node,Ops}.lean), tied to /repo by differential execution on all six tree types",
    "Go harness (adapter, seqrun, shape oracle), Lean driver parser/printer, this Python glue",
    "gen_order translator (order.go -> Generated/CheckOrder.lean) and go/ast fact extractor",
    "Go semantics of slices/append/copy/defer as encoded in Slice.lean and the blocks (modelled, not verified)",
]


class Scratch:
    def __init__(self):
        base = os.environ.get("VERIF_SCRATCH", "/var/tmp")
        os.makedirs(base, exist_ok=True)
        self.dir = tempfile.mkdtemp(prefix="verif.", dir=base)

    def path(self, *p):
        return os.path.join(self.dir, *p)

    def cleanup(self):
        shutil.rmtree(self.dir, ignore_errors=True)


def run(cmd, **kw):
    kw.setdefault("stdout", subprocess.PIPE)
    kw.setdefault("stderr", subprocess.STDOUT)
    kw.setdefault("text", True)
    kw.setdefault("errors", "replace")   # string keys may carry bytes >= 0x80 into messages
    return subprocess.run(cmd, **kw)


# --------------------------------------------------------------------------
# builds

def build_harness(scratch, tags="verif", repo=None):
    """Builds the Go tools against the current working tree of the repo.
    Returns (bindir, error-text-or-None)."""
    out = scratch.path("h_" + tags.replace(",", "_"))
    r = run([os.path.join(VERIF, "bin", "build-harness"), repo or REPO, out, tags], env=GOENV)
    if r.returncode != 0:
        return None, r.stdout
    return os.path.join(out, "bin"), None


class LeanLock:
    def __enter__(self):
        self.f = open(os.path.join(LEAN, ".build.lock"), "w")
        fcntl.flock(self.f, fcntl.LOCK_EX)
        return self

    def __exit__(self, *a):
        fcntl.flock(self.f, fcntl.LOCK_UN)
        self.f.close()


def regen_checkorder(bindir):
    """order.go -> Generated/CheckOrder.lean (rewritten only when it differs)."""
    target = os.path.join(LEAN, "Gobptree", "Generated", "CheckOrder.lean")
    r = run([os.path.join(bindir, "gen_order"), os.path.join(REPO, "order.go")], stderr=subprocess.PIPE)
    if r.returncode != 0:
        return False, "gen_order could not translate order.go: " + (r.stderr or "") + (r.stdout or "")
    new = r.stdout
    old = open(target).read() if os.path.exists(target) else None
    if new != old:
        os.makedirs(os.path.dirname(target), exist_ok=True)
        with open(target + ".tmp", "w") as f:
            f.write(new)
        os.replace(target + ".tmp", target)
    return True, new


def regen_search(bindir):
    """int32.go … comparable.go -> Generated/SearchGen.lean (rewritten only when it differs).
    Returns (ok, reason): not ok means the searches are written outside the translator's grammar."""
    target = os.path.join(LEAN, "Gobptree", "Generated", "SearchGen.lean")
    r = run([os.path.join(bindir, "gen_search"), REPO], stderr=subprocess.PIPE)
    if r.returncode != 0:
        return False, ((r.stderr or "") + (r.stdout or "")).strip()[-300:]
    new = r.stdout
    old = open(target).read() if os.path.exists(target) else None
    if new != old:
        os.makedirs(os.path.dirname(target), exist_ok=True)
        with open(target + ".tmp", "w") as f:
            f.write(new)
        os.replace(target + ".tmp", target)
    return True, "translated"


def extras(pid):
    return [e for e in EXTRA_PROPS.get(pid, []) if e not in DISABLED_EXTRAS]


LEAN_TIMEOUT = os.environ.get("VERIF_LEAN_TIMEOUT", "1800")


def lake_build(targets):
    # a proof script that no longer applies may fail — or, on a regenerated definition, not
    # terminate: every Lean invocation is bounded (GNU timeout kills the whole process group)
    r = run(["timeout", "-k", "10", LEAN_TIMEOUT, "lake", "build"] + targets, cwd=LEAN)
    out = r.stdout
    if r.returncode in (124, 137):
        out += "\nerror: lake build exceeded %s s (treated as a failed proof)\n" % LEAN_TIMEOUT
    return r.returncode == 0, out


FORBIDDEN = re.compile(r"\b(sorry|admit|native_decide|bv_decide|implemented_by|unsafe)\b|^\s*axiom\s|maxHeartbeats\s+0\b", re.M)


def strip_lean_comments(src):
    out, i, depth = [], 0, 0
    n = len(src)
    while i < n:
        if src.startswith("/-", i):
            depth += 1; i += 2; continue
        if depth and src.startswith("-/", i):
            depth -= 1; i += 2; continue
        if depth:
            i += 1; continue
        if src.startswith("--", i):
            j = src.find("\n", i)
            i = n if j < 0 else j
            continue
        out.append(src[i]); i += 1
    return "".join(out)


def import_closure(roots):
    """Lean files (relative to LEAN) reachable through `import Gobptree…` from the given modules."""
    seen, todo = set(), list(roots)
    while todo:
        m = todo.pop()
        if m in seen:
            continue
        f = os.path.join(LEAN, *m.split(".")) + ".lean"
        if not os.path.exists(f):
            continue
        seen.add(m)
        for mm in re.finditer(r"^\s*import\s+((?:Gobptree|Main|CMain)[\w.]*)", open(f).read(), re.M):
            todo.append(mm.group(1))
    return sorted(os.path.join(*m.split(".")) + ".lean" for m in seen)


def grep_forbidden(pid=None):
    """Forbidden constructs in the sources the property's theorems and the two model drivers are
    built from (the import closure of Props.<pid>, Main, CMain).  A work file that nothing imports
    is not part of any proof and is not looked at (it caused a false alarm twice, DESIGN 14.5)."""
    hits = []
    roots = ["Main", "CMain"] + (["Gobptree.Props." + pid] + ["Gobptree.Props." + e for e in extras(pid)] if pid else
                                 ["Gobptree.Props.C%02d" % i for i in range(1, 13)])
    for rel in import_closure(roots):
        p = os.path.join(LEAN, rel)
        body = strip_lean_comments(open(p).read())
        body = re.sub(r'"(?:[^"\\]|\\.)*"', '""', body)
        for m in FORBIDDEN.finditer(body):
            hits.append("%s: %s" % (rel, m.group(0).strip()))
    return hits


# further Props modules of a property (theorems whose proofs import Props/<pid>.lean itself)
EXTRA_PROPS = {"C10": ["C10Log"], "C02": ["C02Conc"], "C08": ["C08Bridge"], "C11": ["C11Search"], "C07": ["C07ReadFrame", "C07Separated"], "C04": ["C04Session"], "C05": ["C05Counter"], "C03": ["C03Replay", "C03NoLoss"]}
# extra modules left out of THIS run, with the reason (C11Search: the theorems are about the
# regenerated searches; when the translator cannot read the current sources there is nothing to
# state them about and the searches are tied to the model by the correspondence check alone)
DISABLED_EXTRAS = {}
SEARCH_TRANSLATOR = None
ORDER_TRANSLATOR = None


def audit_props(pid):
    """Elaborates Props/<pid>.lean (and its extra modules) and parses the `#print axioms` output.
    Returns dict(theorems={name: [axioms]}, ok=bool, log=str)."""
    res = audit_props1(pid)
    for extra in extras(pid):
        r2 = audit_props1(extra)
        res["theorems"].update(r2["theorems"])
        res["ok"] = res["ok"] and r2["ok"]
        res["log"] += r2["log"]
    return res


def audit_props1(pid):
    f = os.path.join("Gobptree", "Props", pid + ".lean")
    if not os.path.exists(os.path.join(LEAN, f)):
        return dict(theorems={}, ok=False, log="no Props file for " + pid)
    r = run(["timeout", "-k", "10", LEAN_TIMEOUT, "lake", "env", "lean", f], cwd=LEAN)
    log = r.stdout
    thms = {}
    for m in re.finditer(r"'([^']+)' depends on axioms: \[([^\]]*)\]", log, re.S):
        thms[m.group(1)] = [a.strip() for a in m.group(2).replace("\n", " ").split(",") if a.strip()]
    for m in re.finditer(r"'([^']+)' does not depend on any axioms", log):
        thms[m.group(1)] = []
    ok = r.returncode == 0 and "error" not in log.lower().replace("errors", "")
    return dict(theorems=thms, ok=ok, log=log)


def proof_step(pid, bindir, extra_targets=()):
    """PROOF step of a check: regenerate, build, audit. Returns a dict with
    obligations/discharged and a list of problems (strings)."""
    problems = []
    with LeanLock():
        ok, txt = regen_checkorder(bindir)
        global ORDER_TRANSLATOR
        if ok:
            ORDER_TRANSLATOR = "translated checkOrder of the current order.go; C12_checkOrder is about it"
        else:
            # the translator does not understand the current order.go (e.g. benign r6: bits.OnesCount).
            # Same policy as for the searches: a translator that cannot read a rewrite is not evidence
            # against the code.  The committed definition (CheckOrder.default, the one the theorems
            # were proved about) becomes the model's checkOrder for this run, and it is tied to the
            # code by the correspondence check alone: the constructor sweep compares it with the real
            # checkOrder on ~150 000 orders (every power of two +-70, +-70000 around zero, the extremes).
            target = os.path.join(LEAN, "Gobptree", "Generated", "CheckOrder.lean")
            shutil.copy(os.path.join(LEAN, "Gobptree", "Generated", "CheckOrder.default"), target)
            ORDER_TRANSLATOR = "NOT APPLICABLE to the current order.go (%s): checkOrder tied by the constructor sweep against the committed definition" % txt.strip()[-200:]
            if pid == "C12":
                print("NOTE: property=C12 order translator not applicable: %s" % txt.strip()[-200:])
        if "C11Search" in EXTRA_PROPS.get(pid, []):
            global SEARCH_TRANSLATOR
            ok, why = regen_search(bindir)
            if ok:
                DISABLED_EXTRAS.pop("C11Search", None)
                SEARCH_TRANSLATOR = "translated the 12 search functions of the current sources; Props/C11Search.lean is about them"
            else:
                DISABLED_EXTRAS["C11Search"] = why
                SEARCH_TRANSLATOR = "NOT APPLICABLE to the current sources (%s): searches tied by the correspondence check only" % why
                print("NOTE: property=%s search translator not applicable: %s" % (pid, why))
        ok, log = lake_build(["Gobptree.Props." + pid, "model", "cmodel"] + ["Gobptree.Props." + e for e in extras(pid)] + list(extra_targets))
        if not ok:
            errs = [l for l in log.splitlines() if "error" in l][:12]
            problems.append("lake build failed for Props." + pid + ": " + " | ".join(errs))
            return dict(obligations=0, discharged=0, theorems={}, problems=problems, log=log)
        aud = audit_props(pid)
        # thorough tier: Lean's independent re-checker replays the compiled proofs of the property's module(s)
        if os.environ.get("VERIF_TIER_RUN") == "thorough":
            for mod in [pid] + extras(pid):
                r = run(["lake", "env", "leanchecker", "Gobptree.Props." + mod], cwd=LEAN)
                if r.returncode != 0:
                    problems.append("leanchecker rejects Gobptree.Props.%s: %s" % (mod, r.stdout[-400:]))
                else:
                    aud.setdefault("leanchecker", []).append("Gobptree.Props." + mod)
    bad = grep_forbidden(pid)
    if bad:
        problems.append("forbidden constructs in Lean sources: " + "; ".join(bad[:6]))
    thms = aud["theorems"]
    discharged = 0
    for name, axs in thms.items():
        if set(axs) <= ALLOWED_AXIOMS:
            discharged += 1
        else:
            problems.append("theorem %s depends on disallowed axioms %s" % (name, sorted(set(axs) - ALLOWED_AXIOMS)))
    if not aud["ok"]:
        problems.append("elaboration of Props/%s.lean reported errors" % pid)
    if not thms:
        problems.append("no audited theorem found in Props/%s.lean" % pid)
    global LAST_LEANCHECKER
    LAST_LEANCHECKER = aud.get("leanchecker", [])
    return dict(obligations=len(thms), discharged=discharged, theorems=thms, problems=problems, log=aud["log"],
                leanchecker=aud.get("leanchecker", []))


LAST_LEANCHECKER = []


MODEL = os.path.join(LEAN, ".lake", "build", "bin", "model")


# --------------------------------------------------------------------------
# sequential correspondence

def split_histories(lines):
    """-> list of (start_index, [lines]) split at `new`."""
    hs, cur, start = [], None, 0
    for i, l in enumerate(lines):
        if l == "begin":
            if cur is not None:
                hs.append((start, cur))
            cur, start = [], i
        if cur is None:
            cur, start = [], i
        cur.append(l)
    if cur:
        hs.append((start, cur))
    return hs


def run_seq_batch(bindir, scratch, name, histories, variant=None, oracle=True):
    """Runs a list of histories (each a list of lines) through the real code
    and the model. Returns per-history results:
      dict(lines, impl=[...], model=[...], failures=[oracle records], mismatch=(idx, impl, model) or None)"""
    results = []
    pending = list(range(len(histories)))
    impl_out = {}
    fails = {}
    round_no = 0
    while pending:
        round_no += 1
        opsf = scratch.path("%s.%d.ops" % (name, round_no))
        oraf = scratch.path("%s.%d.ora" % (name, round_no))
        with open(opsf, "w") as f:
            for hi in pending:
                f.write("\n".join(histories[hi]) + "\n")
        cmd = [os.path.join(bindir, "seqrun"), "-oracle", oraf] if oracle else [os.path.join(bindir, "seqrun"), "-no-oracle"]
        with open(opsf) as fin:
            r = subprocess.run(cmd, stdin=fin, stdout=subprocess.PIPE, stderr=subprocess.PIPE, text=True, errors="replace")
        outl = r.stdout.splitlines()
        recs = []
        if oracle and os.path.exists(oraf):
            for l in open(oraf):
                l = l.strip()
                if l:
                    recs.append(json.loads(l))
        # map back
        pos = 0
        done = []
        for n, hi in enumerate(pending):
            ln = len(histories[hi])
            chunk = outl[pos:pos + ln]
            base = pos
            pos += ln
            if len(chunk) < ln and r.returncode != 0:
                # the process stopped inside this history (hang or crash)
                impl_out[hi] = chunk + ["<no output: harness exit %d %s>" % (r.returncode, (r.stderr or "")[-300:].replace("\n", " "))]
                fails[hi] = [dict(x, line=x["line"] - base) for x in recs if x.get("hist") == n]
                if not any(x["kind"] in ("hang",) for x in fails[hi]) and r.returncode != 3:
                    fails[hi].append(dict(kind="crash", line=len(chunk) + 1, op=histories[hi][min(len(chunk), ln - 1)],
                                          detail="harness process died: " + (r.stderr or "")[-400:], order=0, type=""))
                done.append(hi)
                break
            impl_out[hi] = chunk
            fails[hi] = [dict(x, line=x["line"] - base) for x in recs if x.get("hist") == n]
            done.append(hi)
        pending = [hi for hi in pending if hi not in set(done)]
        if r.returncode == 0:
            break
    # model
    opsf = scratch.path("%s.model.ops" % name)
    with open(opsf, "w") as f:
        if variant:
            pass
        for h in histories:
            if variant:
                f.write("variant %s\n" % variant)
            f.write("\n".join(h) + "\n")
    with open(opsf) as fin:
        r = subprocess.run([MODEL], stdin=fin, stdout=subprocess.PIPE, stderr=subprocess.PIPE, text=True, errors="replace")
    mol = r.stdout.splitlines()
    pos = 0
    for hi, h in enumerate(histories):
        if variant:
            pos += 1
        mo = mol[pos:pos + len(h)]
        pos += len(h)
        io = impl_out.get(hi, [])
        mismatch = None
        for j in range(len(h)):
            a = io[j] if j < len(io) else "<missing>"
            b = mo[j] if j < len(mo) else "<missing>"
            if a != b:
                mismatch = (j, a, b)
                break
            if a in ("panic", "dead"):
                break
        results.append(dict(lines=h, impl=io, model=mo, failures=fails.get(hi, []), mismatch=mismatch))
    return results


def run_seq_parallel(bindir, scratch, name, histories, variant=None, oracle=True, shards=None):
    from concurrent.futures import ThreadPoolExecutor
    shards = shards or NCPU
    if len(histories) < shards * 2:
        shards = 1
    parts = [histories[i::shards] for i in range(shards)]
    with ThreadPoolExecutor(max_workers=shards) as ex:
        futs = [ex.submit(run_seq_batch, bindir, scratch, "%s.s%d" % (name, i), parts[i], variant, oracle) for i in range(shards)]
        res = [f.result() for f in futs]
    out = [None] * len(histories)
    for i in range(shards):
        for j, r in enumerate(res[i]):
            out[i + j * shards] = r
    return out


def minimise(bindir, scratch, lines, still_fails, budget=250, seconds=45):
    """ddmin over the op lines of one history (the `new` line stays); bounded by a number
    of attempts and by wall-clock time (large histories are slow to re-run)."""
    k = 2 if lines and lines[0] == "begin" else 1
    head, ops = lines[:k], list(lines[k:])
    n = 2
    tries = 0
    deadline = time.time() + seconds
    while len(ops) >= 2 and tries < budget and time.time() < deadline:
        chunk = max(1, len(ops) // n)
        reduced = False
        for i in range(0, len(ops), chunk):
            cand = ops[:i] + ops[i + chunk:]
            tries += 1
            if cand and still_fails(head + cand):
                ops = cand
                n = max(n - 1, 2)
                reduced = True
                break
            if tries >= budget or time.time() >= deadline:
                break
        if not reduced:
            if chunk == 1:
                break
            n = min(len(ops), n * 2)
    return head + ops


# --------------------------------------------------------------------------
# known findings

def load_known():
    p = os.path.join(VERIF, "known_findings.json")
    if not os.path.exists(p):
        return []
    return [k for k in json.load(open(p)).get("findings", []) if k.get("status") == "known"]


def match_known(known, pid, hist_lines, fail):
    """fail: oracle record. Returns the finding entry it matches or None."""
    for k in known:
        if pid not in k.get("properties", []):
            continue
        m = k.get("match", {})
        if "order" in m and fail.get("order") != m["order"]:
            continue
        if "kind" in m and fail.get("kind") not in m["kind"]:
            continue
        if "op_prefix" in m and not str(fail.get("op", "")).startswith(m["op_prefix"]):
            continue
        if "site_regex" in m and not re.search(m["site_regex"], fail.get("site", "") or ""):
            continue
        return k
    return None


# --------------------------------------------------------------------------
# evidence and verdict

LEVELS = {
    # full statement proved in Lean (for the scope stated in level_note)
    "C01": "proof", "C02": "proof", "C03": "proof", "C04": "proof", "C05": "proof", "C06": "proof", "C07": "proof", "C08": "proof", "C09": "proof", "C10": "proof", "C11": "proof", "C12": "proof",
    # Lean model + proved fragments; the full statement is kept as a `def …_statement` and is decided on the
    # implementation side by the oracle under exhaustive / random exploration
}
EXPLANATIONS = {
}


def write_evidence(pid, tier, level, coverage, wall, violations, assumptions):
    level = LEVELS.get(pid, level)
    coverage = dict(coverage)
    if pid in EXPLANATIONS:
        coverage["explanation"] = EXPLANATIONS[pid]
    if LAST_LEANCHECKER:
        coverage["leanchecker_rechecked_modules"] = list(LAST_LEANCHECKER)
    if SEARCH_TRANSLATOR and pid in ("C11",):
        coverage["search_translator"] = SEARCH_TRANSLATOR
    if ORDER_TRANSLATOR and pid in ("C12",):
        coverage["order_translator"] = ORDER_TRANSLATOR
    # evidence/ describes runs against /repo only; a run against another tree (seed-verify's
    # scratch worktree, VERIF_REPO) writes to evidence-scratch/ (git-ignored)
    evdir = "evidence" if os.path.realpath(REPO) == "/repo" else "evidence-scratch"
    os.makedirs(os.path.join(VERIF, evdir), exist_ok=True)
    ev = dict(property_id=pid, tier=tier, seed=SEED, level=level, coverage=coverage,
              assumptions=assumptions, wall_s=round(wall, 2), violations=violations)
    p = os.path.join(VERIF, evdir, pid + ".json")
    tmp = "%s.%d.tmp" % (p, os.getpid())   # two checks may run at once (e.g. against different trees)
    with open(tmp, "w") as f:
        json.dump(ev, f, indent=1, sort_keys=True)
    os.replace(tmp, p)


def write_replay(pid, tag, content):
    d = os.path.join(VERIF, "replays")
    os.makedirs(d, exist_ok=True)
    p = os.path.join(d, "%s-%s-seed%d.json" % (pid, tag, SEED))
    with open(p, "w") as f:
        json.dump(content, f, indent=1)
    return p


def trace_hash(model_lines):
    return hashlib.sha1("\n".join(model_lines).encode()).hexdigest()
