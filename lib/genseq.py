"""Generators of sequential histories (protocol lines). Every random choice
comes from the random.Random instance handed in, so a seed replays exactly."""

I64MIN, I64MAX = -(2**63), 2**63 - 1
I32MIN, I32MAX = -(2**31), 2**31 - 1
U64MAX, U32MAX = 2**64 - 1, 2**32 - 1

TYPES = ["i32", "i64", "u32", "u64", "str", "cmp"]

EXTREMES = {
    "i64": [I64MIN, I64MIN + 1, I64MIN + 2, -2, -1, 0, 1, 2, I64MAX - 2, I64MAX - 1, I64MAX],
    "i32": [I32MIN, I32MIN + 1, I32MIN + 2, -2, -1, 0, 1, 2, I32MAX - 2, I32MAX - 1, I32MAX],
    "u64": [0, 1, 2, 3, 2**63 - 1, 2**63, 2**63 + 1, U64MAX - 2, U64MAX - 1, U64MAX],
    "u32": [0, 1, 2, 3, 2**31 - 1, 2**31, 2**31 + 1, U32MAX - 2, U32MAX - 1, U32MAX],
}

STR_EXTREMES = ["_", "0", "0.0", "0.0.0", "97", "97.0", "97.98", "97.98.99", "97.99", "98", "127", "128",
                "128.0", "255", "255.255", "255.255.255", "254.255", "1", "65", "65.66"]


def str_key(rng, width):
    n = rng.choice([0, 1, 1, 2, 2, 3])
    if n == 0:
        return "_"
    alpha = [0, 1, 65, 66, 97, 98, 99, 127, 128, 200, 255][:max(2, width)]
    return ".".join(str(rng.choice(alpha)) for _ in range(n))


def key_pool(rng, ty, klass, size):
    """klass: small | wide | extreme"""
    if ty == "str":
        if klass == "extreme":
            pool = list(STR_EXTREMES)
            rng.shuffle(pool)
            return pool[:max(4, size)]
        pool = set()
        tries = 0
        while len(pool) < size and tries < size * 20:
            pool.add(str_key(rng, 4 if klass == "small" else 11))
            tries += 1
        return sorted(pool)
    if ty == "cmp":
        if klass == "extreme":
            cls = [I64MIN, I64MIN + 1, -1, 0, 1, I64MAX - 1, I64MAX, -999998, -1000000]
            return ["%d#%d" % (c, t) if t else str(c) for c in cls for t in (0, 1)]
        ncls = max(2, size // 2)
        base = rng.randrange(-50, 50)
        pool = []
        for c in range(ncls):
            for t in range(rng.choice([1, 2, 3])):
                pool.append(("%d#%d" % (base + c * rng.choice([1, 1, 3]), t)) if t else str(base + c))
        return pool
    lo, hi = {"i64": (I64MIN, I64MAX), "i32": (I32MIN, I32MAX), "u64": (0, U64MAX), "u32": (0, U32MAX)}[ty]
    if klass == "extreme":
        pool = list(EXTREMES[ty])
        return [str(k) for k in pool]
    if klass == "small":
        base = rng.choice([0, 0, 1, -size // 2 if lo < 0 else 0, hi - size, lo])
        base = max(lo, min(base, hi - size))
        step = rng.choice([1, 1, 2, 3])
        return [str(min(hi, base + i * step)) for i in range(size)]
    return sorted({str(rng.randrange(lo, hi + 1)) for _ in range(size)}, key=int)


def rand_val(rng):
    r = rng.random()
    if r < 0.15:
        return "nil"
    return str(rng.randrange(-5, 100))


def rand_cb(rng):
    r = rng.random()
    if r < 0.5:
        return "a%d" % rng.choice([1, 1, 1, 2, -3, 10])
    return "c" + rand_val(rng)


ORDER_WEIGHTS = [(4, 40), (8, 20), (16, 10), (2, 12), (32, 5), (64, 3), (256, 1), (1024, 1)]


def pick_order(rng, orders=None):
    ws = ORDER_WEIGHTS if orders is None else [(o, w) for o, w in ORDER_WEIGHTS if o in orders] or [(o, 1) for o in orders]
    tot = sum(w for _, w in ws)
    x = rng.randrange(tot)
    for o, w in ws:
        if x < w:
            return o
        x -= w
    return ws[-1][0]


def history(rng, ty, order, profile, allow_delete=True, nops=None):
    """One history: list of lines, beginning with `new`. profile selects the op
    mix: map | scan | update | shape | extreme | drain"""
    klass = "extreme" if profile == "extreme" else rng.choice(["small", "small", "small", "wide"])
    if nops is None:
        nops = rng.choice([8, 15, 30, 30, 60, 60, 120, 200])
    psize = rng.choice([6, 12, 12, 24, 48, 100]) if klass != "extreme" else 12
    if order >= 16:
        psize = max(psize, order * 3)
        nops = max(nops, order * 4) if rng.random() < 0.6 else nops
    pool = key_pool(rng, ty, klass, psize)
    if profile == "extreme" and rng.random() < 0.5:
        pool = pool + key_pool(rng, ty, "small", 8)
    lines = ["begin", "new %s %d" % (ty, order)]
    snap_every = 1 if nops <= 60 else rng.choice([4, 8, 16])
    w = {
        "map": dict(ins=40, upd=15, dele=25, get=20, scan=3),
        "scan": dict(ins=40, upd=5, dele=20, get=3, scan=30),
        "update": dict(ins=15, upd=50, dele=15, get=15, scan=3),
        "shape": dict(ins=45, upd=10, dele=40, get=3, scan=2),
        "extreme": dict(ins=35, upd=15, dele=20, get=20, scan=10),
        "drain": dict(ins=30, upd=5, dele=55, get=8, scan=2),
    }[profile]
    if not allow_delete:
        w = dict(w)
        w["dele"] = 0
    # phases: some histories start with an ascending / descending / shuffled bulk load
    phase = rng.choice(["none", "asc", "desc", "shuf", "none"])
    present = []
    def keyorder(k):
        return k
    if phase != "none":
        load = list(pool)
        if phase == "desc":
            load.reverse()
        elif phase == "shuf":
            rng.shuffle(load)
        load = load[:rng.randrange(1, len(load) + 1)]
        for k in load:
            lines.append("ins %s %s" % (k, rand_val(rng)))
            present.append(k)
        lines.append("snap")
    kinds = [k for k, v in w.items() for _ in range(v)]
    mode = "mix"
    for i in range(nops):
        if rng.random() < 0.03:
            mode = rng.choice(["mix", "mix", "drain", "fill"])
        kind = rng.choice(kinds)
        if mode == "drain" and allow_delete and rng.random() < 0.7:
            kind = "dele"
        if mode == "fill" and rng.random() < 0.7:
            kind = "ins"
        if kind in ("dele", "get", "upd") and present and rng.random() < 0.75:
            k = rng.choice(present)
        else:
            k = rng.choice(pool)
        if kind == "ins":
            lines.append("ins %s %s" % (k, rand_val(rng)))
            present.append(k)
        elif kind == "upd":
            lines.append("upd %s %s" % (k, rand_cb(rng)))
            present.append(k)
        elif kind == "dele":
            lines.append("del %s" % k)
            if k in present:
                present = [p for p in present if p != k]
        elif kind == "get":
            lines.append("get %s" % k)
        elif kind == "scan":
            lim = rng.choice([-1, -1, -1, 0, 1, 2, 5])
            lines.append("scan %s %d" % (k, lim))
        if kind in ("ins", "upd", "dele") and (i % snap_every == 0):
            lines.append("snap")
    lines.append("snap")
    # closing sweep: look every pool key up, scan from a few starts
    sweep = list(pool)
    rng.shuffle(sweep)
    for k in sweep[:40]:
        lines.append("get %s" % k)
    starts = sweep[:6]
    for k in starts:
        lines.append("scan %s -1" % k)
    return lines


# (order, keys) pairs that push a tree of that order to three levels (more than
# order*order/2 keys) or at least to a root with many wide children
LARGE_QUICK = [(64, 2200), (128, 8400), (32, 1300), (256, 3000)]
LARGE_THOROUGH = LARGE_QUICK + [(256, 33500), (512, 20000), (1024, 12000), (16, 5000), (8, 3000)]


def asc_keys(ty, n, rng):
    """n ascending key tokens of the given type"""
    if ty == "str":
        # string keys are written as dot-separated byte values: three base-200 "digits"
        return ["%d.%d.%d" % (i // 40000 + 33, (i // 200) % 200 + 33, i % 200 + 33) for i in range(n)]
    if ty == "cmp":
        return [("%d#%d" % (i, i % 3)) if i % 5 == 1 else str(i) for i in range(n)]
    lo = {"i64": -n // 2, "i32": -n // 2, "u64": 0, "u32": 0}[ty]
    step = rng.choice([1, 1, 2, 7])
    return [str(lo + i * step) for i in range(n)]


def large_history(rng, ty, order, n):
    """Bulk load of n keys (ascending, descending, shuffled or alternating ends), a lookup of
    every key (so keys equal to separators are all probed), removal of a third (scattered or
    one contiguous range, which merges nodes at every level), re-insertion of some; snapshots
    and a full scan in between."""
    keys = asc_keys(ty, n, rng)
    load = list(keys)
    mode = rng.choice(["asc", "desc", "shuf", "ends"])
    if mode == "desc":
        load.reverse()
    elif mode == "shuf":
        rng.shuffle(load)
    elif mode == "ends":
        load = [keys[i // 2] if i % 2 == 0 else keys[n - 1 - i // 2] for i in range(n)]
    lines = ["begin", "new %s %d" % (ty, order)]
    for i, k in enumerate(load):
        lines.append("ins %s %d" % (k, i % 89))
    lines.append("snap")
    for k in keys:
        lines.append("get %s" % k)
    if rng.random() < 0.5:
        a = rng.randrange(0, n - n // 3)
        dels = keys[a: a + n // 3]
        if rng.random() < 0.5:
            dels.reverse()
    else:
        dels = rng.sample(keys, n // 3)
    for k in dels:
        lines.append("del %s" % k)
    lines.append("snap")
    for k in rng.sample(keys, min(n, 400)):
        lines.append("get %s" % k)
    lines.append("scan %s -1" % keys[0])
    for k in rng.sample(dels, min(len(dels), n // 10)):
        lines.append("upd %s a1" % k)
    lines.append("snap")
    lines.append("scan %s 50" % keys[n // 2])
    return lines
