"""Generators of sequential histories (protocol lines). Every random choice
comes from the random.Random instance handed in, so a seed replays exactly."""

I64MIN, I64MAX = -(2**63), 2**63 - 1
I32MIN, I32MAX = -(2**31), 2**31 - 1
U64MAX, U32MAX = 2**64 - 1, 2**32 - 1

TYPES = ["i32", "i64", "u32", "u64", "str", "cmp"]

EXTREMES = {
    "i64": [I64MIN, I64MIN + 1, I64MIN + 2, -2, -1, 0, 1, 2, I64MAX - 2, I64MAX - 1, I64MAX],
    "i32": [I32MIN, I32MIN + 1, I32MIN + 2, -2, -1, 0, 1, 2, I32MAX - 2, I32MAX - 1, I32MAX],
    "u64": [0, 1, 2, 3, 2**63 - 1, 2**63, 2**63 + 1, U64MAX - 2, U64MAX - 1, U64MAX],
    "u32": [0, 1, 2, 3, 2**31 - 1, 2**31, 2**31 + 1, U32MAX - 2, U32MAX - 1, U32MAX],
}

STR_EXTREMES = ["_", "0", "0.0", "0.0.0", "97", "97.0", "97.98", "97.98.99", "97.99", "98", "127", "128",
                "128.0", "255", "255.255", "255.255.255", "254.255", "1", "65", "65.66"]


def str_key(rng, width):
    n = rng.choice([0, 1, 1, 2, 2, 3])
    if n == 0:
        return "_"
    alpha = [0, 1, 65, 66, 97, 98, 99, 127, 128, 200, 255][:max(2, width)]
    return ".".join(str(rng.choice(alpha)) for _ in range(n))


def key_pool(rng, ty, klass, size):
    """klass: small | wide | extreme"""
    if ty == "str":
        if klass == "extreme":
            pool = list(STR_EXTREMES)
            rng.shuffle(pool)
            return pool[:max(4, size)]
        pool = set()
        tries = 0
        while len(pool) < size and tries < size * 20:
            pool.add(str_key(rng, 4 if klass == "small" else 11))
            tries += 1
        return sorted(pool)
    if ty == "cmp":
        if klass == "extreme":
            cls = [I64MIN, I64MIN + 1, -1, 0, 1, I64MAX - 1, I64MAX, -999998, -1000000]
            return ["%d#%d" % (c, t) if t else str(c) for c in cls for t in (0, 1)]
        ncls = max(2, size // 2)
        base = rng.randrange(-50, 50)
        pool = []
        for c in range(ncls):
            for t in range(rng.choice([1, 2, 3])):
                pool.append(("%d#%d" % (base + c * rng.choice([1, 1, 3]), t)) if t else str(base + c))
        return pool
    lo, hi = {"i64": (I64MIN, I64MAX), "i32": (I32MIN, I32MAX), "u64": (0, U64MAX), "u32": (0, U32MAX)}[ty]
    if klass == "extreme":
        pool = list(EXTREMES[ty])
        return [str(k) for k in pool]
    if klass == "small":
        base = rng.choice([0, 0, 1, -size // 2 if lo < 0 else 0, hi - size, lo])
        base = max(lo, min(base, hi - size))
        step = rng.choice([1, 1, 2, 3])
        return [str(min(hi, base + i * step)) for i in range(size)]
    return sorted({str(rng.randrange(lo, hi + 1)) for _ in range(size)}, key=int)


def slice_val(rng):
    """a []int64 value: `[]`, `[7]`, `[1,2,3]` (no blanks). Slices make the stored interface
    values uncomparable in Go: `==` on two of them panics."""
    return "[" + ",".join(str(rng.randrange(-5, 100)) for _ in range(rng.choice([0, 1, 1, 2, 2, 3]))) + "]"


def rand_val(rng):
    r = rng.random()
    if r < 0.15:
        return "nil"
    if r < 0.27:
        return slice_val(rng)
    return str(rng.randrange(-5, 100))


def rand_cb(rng):
    """c<v>: constant; a<d>: add d; ap<i>: append i to the stored slice (absent or not a slice:
    the one-element slice [i])"""
    r = rng.random()
    if r < 0.42:
        return "a%d" % rng.choice([1, 1, 1, 2, -3, 10])
    if r < 0.58:
        return "ap%d" % rng.randrange(0, 9)
    return "c" + rand_val(rng)


ORDER_WEIGHTS = [(4, 40), (8, 20), (16, 10), (2, 12), (32, 5), (64, 3), (256, 1), (1024, 1)]


def pick_order(rng, orders=None):
    ws = ORDER_WEIGHTS if orders is None else [(o, w) for o, w in ORDER_WEIGHTS if o in orders] or [(o, 1) for o in orders]
    tot = sum(w for _, w in ws)
    x = rng.randrange(tot)
    for o, w in ws:
        if x < w:
            return o
        x -= w
    return ws[-1][0]


def history(rng, ty, order, profile, allow_delete=True, nops=None):
    """One history: list of lines, beginning with `new`. profile selects the op
    mix: map | scan | update | shape | extreme | drain"""
    klass = "extreme" if profile == "extreme" else rng.choice(["small", "small", "small", "wide"])
    if nops is None:
        nops = rng.choice([8, 15, 30, 30, 60, 60, 120, 200])
    psize = rng.choice([6, 12, 12, 24, 48, 100]) if klass != "extreme" else 12
    if order >= 16:
        psize = max(psize, order * 3)
        nops = max(nops, order * 4) if rng.random() < 0.6 else nops
    pool = key_pool(rng, ty, klass, psize)
    if profile == "extreme" and rng.random() < 0.5:
        pool = pool + key_pool(rng, ty, "small", 8)
    lines = ["begin", "new %s %d" % (ty, order)]
    snap_every = 1 if nops <= 60 else rng.choice([4, 8, 16])
    w = {
        "map": dict(ins=40, upd=15, dele=25, get=20, scan=3),
        "scan": dict(ins=40, upd=5, dele=20, get=3, scan=30),
        "update": dict(ins=15, upd=50, dele=15, get=15, scan=3),
        "shape": dict(ins=45, upd=10, dele=40, get=3, scan=2),
        "extreme": dict(ins=35, upd=15, dele=20, get=20, scan=10),
        "drain": dict(ins=30, upd=5, dele=55, get=8, scan=2),
    }[profile]
    if not allow_delete:
        w = dict(w)
        w["dele"] = 0
    # phases: some histories start with an ascending / descending / shuffled bulk load
    phase = rng.choice(["none", "asc", "desc", "shuf", "none"])
    present = []
    def keyorder(k):
        return k
    if phase != "none":
        load = list(pool)
        if phase == "desc":
            load.reverse()
        elif phase == "shuf":
            rng.shuffle(load)
        load = load[:rng.randrange(1, len(load) + 1)]
        # the load goes through Insert, through Update (its own copy of the descent and of the root
        # split: a new global minimum that splits the root through Update was out of reach of an
        # Insert-only load, R6-C08-d) or through both; the structure is compared after every
        # operation of a short load, so that a later operation cannot repair what one left behind
        loadkind = rng.choice(["ins", "ins", "upd", "mix"])
        lsnap = 1 if len(load) <= 80 else rng.choice([4, 8])
        for j, k in enumerate(load):
            if loadkind == "upd" or (loadkind == "mix" and rng.random() < 0.5):
                lines.append("upd %s %s" % (k, rand_cb(rng)))
            else:
                lines.append("ins %s %s" % (k, rand_val(rng)))
            present.append(k)
            if j % lsnap == 0:
                lines.append("snap")
        lines.append("snap")
    kinds = [k for k, v in w.items() for _ in range(v)]
    mode = "mix"
    for i in range(nops):
        if rng.random() < 0.03:
            mode = rng.choice(["mix", "mix", "drain", "fill"])
        kind = rng.choice(kinds)
        if mode == "drain" and allow_delete and rng.random() < 0.7:
            kind = "dele"
        if mode == "fill" and rng.random() < 0.7:
            kind = "ins"
        if kind in ("dele", "get", "upd") and present and rng.random() < 0.75:
            k = rng.choice(present)
        else:
            k = rng.choice(pool)
        if kind == "ins":
            lines.append("ins %s %s" % (k, rand_val(rng)))
            present.append(k)
        elif kind == "upd":
            lines.append("upd %s %s" % (k, rand_cb(rng)))
            present.append(k)
        elif kind == "dele":
            lines.append("del %s" % k)
            if k in present:
                present = [p for p in present if p != k]
        elif kind == "get":
            lines.append("get %s" % k)
        elif kind == "scan":
            lim = rng.choice([-1, -1, -1, 0, 1, 2, 5])
            # one scan in eight is compared as a digest (`scand`: what the long leaf chains use)
            lines.append("%s %s %d" % ("scand" if rng.random() < 0.125 else "scan", k, lim))
        if kind in ("ins", "upd", "dele") and (i % snap_every == 0):
            lines.append("snap")
    lines.append("snap")
    # closing sweep: look every pool key up, scan from a few starts
    sweep = list(pool)
    rng.shuffle(sweep)
    for k in sweep[:40]:
        lines.append("get %s" % k)
    starts = sweep[:6]
    for k in starts:
        lines.append("scan %s -1" % k)
    return lines


# (order, keys) pairs that push a tree of that order to three levels (more than
# order*order/2 keys) or at least to a root with many wide children
LARGE_QUICK = [(64, 2200), (128, 8400), (32, 1300), (256, 3000)]
LARGE_THOROUGH = LARGE_QUICK + [(256, 33500), (512, 20000), (1024, 12000), (16, 5000), (8, 3000)]


def asc_keys(ty, n, rng):
    """n ascending key tokens of the given type"""
    if ty == "str":
        # string keys are written as dot-separated byte values: three base-200 "digits"
        return ["%d.%d.%d" % (i // 40000 + 33, (i // 200) % 200 + 33, i % 200 + 33) for i in range(n)]
    if ty == "cmp":
        return [("%d#%d" % (i, i % 3)) if i % 5 == 1 else str(i) for i in range(n)]
    lo = {"i64": -n // 2, "i32": -n // 2, "u64": 0, "u32": 0}[ty]
    step = rng.choice([1, 1, 2, 7])
    return [str(lo + i * step) for i in range(n)]


def large_history(rng, ty, order, n):
    """Bulk load of n keys (ascending, descending, shuffled or alternating ends), a lookup of
    every key (so keys equal to separators are all probed), removal of a third (scattered or
    one contiguous range, which merges nodes at every level), re-insertion of some; snapshots
    and a full scan in between."""
    keys = asc_keys(ty, n, rng)
    load = list(keys)
    mode = rng.choice(["asc", "desc", "shuf", "ends"])
    if mode == "desc":
        load.reverse()
    elif mode == "shuf":
        rng.shuffle(load)
    elif mode == "ends":
        load = [keys[i // 2] if i % 2 == 0 else keys[n - 1 - i // 2] for i in range(n)]
    lines = ["begin", "new %s %d" % (ty, order)]
    if n > 3000:
        # beyond 3000 keys seqrun makes no per-op shape check anyway; the per-op lock sweep costs
        # a snapshot of the whole tree (most of a quick check's CPU time went there): every
        # fourth op is enough, a leaked mutex stays locked until the next sweep finds it
        # a sweep walks (and snapshots) the whole tree: keep the total sweep work about linear in
        # the history — every 4th op up to ~16 000 keys, proportionally sparser beyond
        lines.append("opt sweep %d" % max(4, n // 4000))
    for i, k in enumerate(load):
        lines.append("ins %s %d" % (k, i % 89))
    lines.append("snap")
    for k in keys:
        lines.append("get %s" % k)
    if rng.random() < 0.5:
        a = rng.randrange(0, n - n // 3)
        dels = keys[a: a + n // 3]
        if rng.random() < 0.5:
            dels.reverse()
    else:
        dels = rng.sample(keys, n // 3)
    for k in dels:
        lines.append("del %s" % k)
    lines.append("snap")
    for k in rng.sample(keys, min(n, 400)):
        lines.append("get %s" % k)
    lines.append("scan %s -1" % keys[0])
    for k in rng.sample(dels, min(len(dels), n // 10)):
        lines.append("upd %s a1" % k)
    lines.append("snap")
    lines.append("scan %s 50" % keys[n // 2])
    return lines


# --------------------------------------------------------------------------
# very wide nodes (orders 2048 and up) and very long leaf chains
#
# Both generators take an integer seed (not an rng), so a replay file can name
# the call that regenerates the history: see `regen`.

HUGE_ORDERS_QUICK = [2048, 4096, 8192]
HUGE_ORDERS_THOROUGH = [2048, 4096, 8192, 16384]
INT_TYPES = ["i32", "i64", "u32", "u64"]
PTR_TYPES = ["str", "cmp"]

# Shape of a huge history as multiples of the order: keys loaded, descending inserts into the
# left of the leftmost leaf, scrambled inserts elsewhere, length of the contiguous range
# removed, scattered removals. The model is a list model: an operation on a node costs time
# proportional to its width (about 0.1 ms per 1000 entries and insert), so a history costs
# about order^2 and the widest trees are kept just large enough to split, borrow and merge.
HUGE_SHAPES = {
    "full": (2.5, 0.6, 0.33, 0.8, 0.25),
    "medium": (1.3, 0.15, 0.1, 0.3, 0.08),
    "lean": (1.04, 0.02, 0.04, 0.05, 0.02),
}


def huge_class(order, tier):
    if tier == "quick":
        return "full" if order <= 2048 else ("medium" if order <= 4096 else "lean")
    return "full" if order <= 4096 else ("medium" if order <= 8192 else "lean")


def huge_plan(seed, tier):
    """(type, order) pairs of one run. Every type gets a tree of order 2048; both
    pointer-carrying types and one integer type (rotating with the seed) one of order
    4096; one pointer-carrying and one integer type (both rotating) the larger orders."""
    plan = [(ty, 2048) for ty in TYPES]
    plan += [("str", 4096), ("cmp", 4096), (INT_TYPES[seed % 4], 4096)]
    big = [8192] if tier == "quick" else [8192, 16384]
    for j, o in enumerate(big):
        plan.append((PTR_TYPES[(seed + j) % 2], o))
        plan.append((INT_TYPES[(seed + 1 + j) % 4], o))
    return plan


def huge_history(seed, ty, order, tier="quick"):
    """A tree whose nodes hold more than 1024 entries and split. Bulk loads (ascending,
    descending, scrambled; which part of the key range gets which mode is drawn from the seed)
    fill the root leaf to exactly `order` keys; then a burst of descending keys below all of
    them: the first one splits the root leaf and goes into the LEFT half. The rest of the
    load; descending inserts into the left half of the leftmost leaf (in the "full" shape until
    that leaf splits too), scrambled inserts into the middle of wide nodes; a lookup of every
    stored key; updates (slice values too); scans from a few starts (printed and as digests);
    removal of a contiguous range and of scattered keys; snapshots at a few points.
    `opt sweep` thins the per-op structural sweeps out (each costs a snapshot of the tree)."""
    import random
    rng = random.Random("huge/%d/%s/%d/%s" % (seed, ty, order, tier))
    shape = huge_class(order, tier)
    f_load, f_left, f_mid, f_range, f_scat = HUGE_SHAPES[shape]
    nburst = 48
    m = int(order * f_load) + nburst    # base keys
    univ = asc_keys(ty, 3 * m, rng)     # base keys are univ[1::3]; two gap keys per base key
    base = univ[1::3]
    lines = ["begin", "new %s %d" % (ty, order), "opt sweep 16"]
    present = {}
    cnt = [0]

    def ins(k):
        i = cnt[0]
        cnt[0] += 1
        r = rng.random()
        v = slice_val(rng) if r < 0.04 else ("nil" if r < 0.07 else str(i % 89))
        lines.append("ins %s %s" % (k, v))
        present[k] = True

    burst, rest = base[:nburst], base[nburst:]
    if shape == "lean":
        # mostly ascending (appends are the cheapest way to fill a wide node in the model)
        cut = len(rest) // 25
        phases = [("asc", rest[cut:]), (rng.choice(["desc", "shuf"]), rest[:cut])]
    else:
        a, b = len(rest) // 3, 2 * len(rest) // 3
        parts = [rest[:a], rest[a:b], rest[b:]]
        modes = ["asc", "desc", "shuf"]
        rng.shuffle(parts)
        rng.shuffle(modes)
        phases = list(zip(modes, parts))
    load = []
    for mode, part in phases:
        part = list(part)
        if mode == "desc":
            part.reverse()
        elif mode == "shuf":
            rng.shuffle(part)
        load += part
    for k in load[:order]:
        ins(k)
    for k in reversed(burst):
        ins(k)
    for k in load[order:]:
        ins(k)
    lines.append("snap")
    # left: gap keys of rank < order/2 in the leftmost leaf, descending: each lands in the left
    # half of that leaf (which splits after at most order/2+1 of them)
    ucut = int(1.5 * f_left * order)
    for u in range(ucut - 1, -1, -1):
        if u % 3 != 1:
            ins(univ[u])
    # middle: scrambled gap keys anywhere (positions beyond 1023 of wide nodes)
    gaps = [univ[u] for u in range(ucut, 3 * m) if u % 3 != 1]
    for k in rng.sample(gaps, min(len(gaps), int(f_mid * order))):
        ins(k)
    lines.append("snap")
    for k in univ:
        if k in present:
            lines.append("get %s" % k)
    for k in rng.sample([k for k in gaps if k not in present], 40):
        lines.append("get %s" % k)
    cbs = ["a1", "a-3", "ap%d" % rng.randrange(9), "ap%d" % rng.randrange(9), "c" + slice_val(rng), "c7", "cnil"]
    for k in rng.sample(univ, max(60, order // 32)):
        lines.append("upd %s %s" % (k, rng.choice(cbs)))
        present[k] = True
    stored = [k for k in univ if k in present]
    lines.append("scan %s -1" % univ[0])
    for _ in range(2):
        lines.append("scand %s %d" % (rng.choice(univ), rng.choice([-1, -1, order, 7])))
    lines.append("scan %s 50" % rng.choice(stored))
    # removal: a contiguous range (borrows and merges between wide nodes), then scattered keys
    n = len(stored)
    ln = min(n // 2, int(order * f_range))
    s0 = rng.randrange(0, n - ln)
    dels = stored[s0: s0 + ln]
    if rng.random() < 0.5:
        dels.reverse()
    keep = stored[:s0] + stored[s0 + ln:]
    scattered = rng.sample(keep, min(len(keep) // 3, int(order * f_scat)))
    for k in dels + scattered:
        lines.append("del %s" % k)
        present.pop(k, None)
    lines.append("snap")
    stored = [k for k in univ if k in present]
    for k in (stored if shape != "lean" else rng.sample(stored, len(stored) // 8)):
        lines.append("get %s" % k)
    for k in rng.sample(dels + scattered, 60):
        lines.append("get %s" % k)
    for k in rng.sample(dels, 30):
        lines.append("upd %s ap%d" % (k, rng.randrange(9)))
    lines.append("scan %s -1" % univ[0])
    lines.append("scand %s -1" % rng.choice(univ))
    lines.append("locks")
    lines.append("snap")
    return lines


CHAIN_TYPES = ["i32", "i64", "u32", "u64", "str"]


def chain_history(seed, ty, nkeys=300000, order=4):
    """A leaf chain of about nkeys/2 leaves: one `bulk` line loads nkeys ascending keys into a
    tree of order 4; a scan over the whole chain and some shorter ones are compared as digests;
    after the cursors are closed every mutex must be free (`locks`) and operations on the last
    keys of the chain (and on the first) must return."""
    import random
    rng = random.Random("chain/%d/%s/%d/%d" % (seed, ty, nkeys, order))
    lo = {"i64": -1000, "i32": -1000}.get(ty, 0)
    step = 1 if ty == "str" else rng.choice([1, 1, 2, 3])
    if ty == "str":
        lo = 0
    n = nkeys + rng.randrange(0, 5000)

    def key(j):
        if ty == "str":
            return "%d.%d.%d" % (j // 40000 + 33, (j // 200) % 200 + 33, j % 200 + 33)
        return str(j)
    first, last = lo, lo + (n - 1) * step
    lines = ["begin", "new %s %d" % (ty, order), "opt sweep 0", "bulk %d %d %d" % (lo, n, step),
             "scand %s -1" % key(first)]
    tail = [last - i * step for i in range(6)]
    lines += ["get %s" % key(tail[0]), "upd %s a1" % key(tail[1]), "upd %s ap2" % key(tail[0]),
              "ins %s 5" % key(last + step), "del %s" % key(tail[2]), "get %s" % key(tail[2]),
              "get %s" % key(first), "del %s" % key(first), "upd %s c[4]" % key(tail[3])]
    mid = lo + (n // 2) * step
    lines += ["scand %s -1" % key(mid + (1 if step > 1 else 0)), "scand %s 100000" % key(first + step),
              "scan %s -1" % key(tail[4]),
              "get %s" % key(last + step), "del %s" % key(last + step), "get %s" % key(tail[1]), "locks"]
    return lines


def regen(spec):
    """spec: the `generator` entry of a replay file -> the full history it came from"""
    if spec["fn"] == "huge_history":
        return huge_history(spec["seed"], spec["type"], spec["order"], spec.get("tier", "quick"))
    if spec["fn"] == "chain_history":
        return chain_history(spec["seed"], spec["type"], spec.get("nkeys", 300000), spec.get("order", 4))
    raise ValueError("unknown generator " + str(spec.get("fn")))
