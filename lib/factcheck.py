"""Static facts extracted from the current sources by harness/cmd/factcheck."""
import json, os, subprocess
import vlib


def run(bindir, pid):
    exe = os.path.join(bindir, "factcheck")
    if not os.path.exists(exe):
        return dict(problems=[], summary="factcheck not built")
    r = subprocess.run([exe, vlib.REPO, os.path.join(vlib.VERIF, "harness", "factcheck_expected.json")],
                       stdout=subprocess.PIPE, stderr=subprocess.PIPE, text=True, errors="replace")
    if r.returncode not in (0, 1):
        return dict(problems=["factcheck failed to run: " + r.stderr[-500:]], summary=None)
    try:
        out = json.loads(r.stdout)
    except Exception as e:
        return dict(problems=["factcheck output unreadable: " + r.stdout[-300:]], summary=None)
    probs = [p["msg"] for p in (out.get("problems") or []) if pid in p.get("props", [])]
    return dict(problems=probs, summary=out.get("summary"))
