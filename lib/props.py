"""Dispatch: which engines decide which property."""
import genseq, seqcheck


def c12_histories(rng, tier):
    hs = []
    # 1. validation sweep through checkOrder itself
    vals = list(range(-70000, 70001))
    for k in range(1, 63):
        for d in range(-70, 71):
            vals.append(2 ** k + d)
            vals.append(-(2 ** k) + d)
    vals += [-(2 ** 63), -(2 ** 63) + 1, 2 ** 63 - 1, 2 ** 63 - 2]
    vals = [v for v in vals if -(2 ** 63) <= v <= 2 ** 63 - 1]
    for i in range(0, len(vals), 20000):
        hs.append(["begin"] + ["chk %d" % v for v in vals[i:i + 20000]])
    # 1b. independence under concurrency: a Delete on one tree waiting for a cursor's leaf must not
    #     hold up operations on another tree of the same type (real goroutines; `indep`)
    hs.append(["begin"] + ["indep %s" % ty for ty in genseq.TYPES])
    # 2. the six constructors: around zero, around small powers (valid ones are
    #    constructed), and invalid orders next to every large power of two
    for ty in genseq.TYPES:
        cv = list(range(-300, 301))
        for k in range(1, 17):
            cv += [2 ** k + d for d in (-3, -2, -1, 0, 1, 2, 3)]
        for k in range(17, 63):
            cv += [2 ** k + d for d in (-2, -1, 1, 2, 3)] + [-(2 ** k)]
        cv += [-(2 ** 63), 2 ** 63 - 1]
        hs.append(["begin"] + ["new %s %d" % (ty, v) for v in cv])
    # 3. every accepted order up to 2^16, two trees interleaved, used through C01/C02 ops
    for ty in genseq.TYPES:
        for k in range(1, 17):
            o1 = 2 ** k
            o2 = 2 ** rng.randrange(1, 9)
            n = min(o1 * 2 + 10, 500 if tier == "quick" else 3000)
            h = ["begin", "slot 0", "new %s %d" % (ty, o1), "slot 1", "new %s %d" % (ty, o2)]
            pool = genseq.key_pool(rng, ty, "small", max(8, min(n, 4000)))
            for i in range(n):
                s = rng.randrange(2)
                h.append("slot %d" % s)
                k1 = rng.choice(pool)
                r = rng.random()
                allow_del = (o1 if s == 0 else o2) > 2
                if r < 0.7 or not allow_del:
                    h.append("ins %s %d" % (k1, i))
                elif r < 0.8:
                    h.append("upd %s a1" % k1)
                elif r < 0.9:
                    h.append("del %s" % k1)
                else:
                    h.append("get %s" % k1)
            for s in (0, 1):
                h += ["slot %d" % s, "snap"] + ["get %s" % q for q in pool[:30]] + ["scan %s -1" % pool[0], "scan %s 5" % pool[len(pool) // 2]]
            hs.append(h)
    return hs


def run(pid, tier):
    if pid == "C12":
        return seqcheck.check(pid, tier, extra_hook=c12_histories)
    if pid in ("C01", "C02", "C11"):
        return seqcheck.check(pid, tier)
    if pid in ("C05", "C08", "C09"):
        return both(pid, tier)
    if pid in ("C03", "C04", "C06", "C10"):
        import conccheck
        return conccheck.check(pid, tier)
    if pid == "C07":
        import racecheck
        return racecheck.check(pid, tier)
    print("no check for " + pid)
    return 2


def both(pid, tier):
    """sequential half + concurrent half, one evidence file"""
    import time, conccheck, vlib
    t0 = time.time()
    sink = []
    rc1 = seqcheck.check(pid, tier, sink=sink)
    rc2 = conccheck.check(pid, tier, sink=sink)
    if len(sink) == 2:
        (c1, v1, a1), (c2, v2, a2) = sink
        cov = dict(c2)
        cov["trusted_base"] = sorted(set(c1["trusted_base"]) | set(c2["trusted_base"]))
        cov["evaluations"] = c1["evaluations"] + c2["evaluations"]
        cov["distinct_nontrivial"] = c1["distinct_nontrivial"] + c2["distinct_nontrivial"]
        cov["rule"] = "sequential: " + c1["rule"] + " || concurrent: " + c2["rule"]
        cov["samples"] = c1["samples"][:1] + c2["samples"][:1]
        cov["traces_validated_against_impl"] = c1["traces_validated_against_impl"] + c2["traces_validated_against_impl"]
        cov["disagreements_checked"] = c1["disagreements_checked"] + c2["disagreements_checked"]
        cov["sequential_distribution"] = c1.get("distribution")
        cov["concurrent_distribution"] = c2.get("distribution")
        cov.pop("distribution", None)
        vlib.write_evidence(pid, tier, "proof", cov, time.time() - t0, v1 + v2, a1 + a2)
    return max(rc1, rc2)
