"""Generators of concurrent cases for concrun / the Lean small-step model."""
import genseq


def rand_val(rng):
    """the value domain of the concurrent engine (concrun and the small-step model's driver):
    nil or a decimal int64. (genseq.rand_val also draws slice values, which only the
    sequential harness parses.)"""
    r = rng.random()
    if r < 0.15:
        return "nil"
    return str(rng.randrange(-5, 100))


def prefix(rng, ty, order, pool, allow_delete):
    n = rng.choice([0, 3, order, order + 1, 2 * order, 3 * order, 5 * order, 8 * order, 12 * order])
    n = min(n, 120)
    lines = []
    present = []
    keys = list(pool)
    rng.shuffle(keys)
    mode = rng.choice(["asc", "desc", "shuf", "shuf"])
    load = sorted(keys[:n], key=lambda k: pool.index(k)) if mode != "shuf" else keys[:n]
    if mode == "desc":
        load.reverse()
    for k in load:
        lines.append("pre ins %s %s" % (k, rand_val(rng)))
        present.append(k)
    if allow_delete and present and rng.random() < 0.6:
        # thin the tree out so that nodes sit at minimum occupancy
        m = rng.randrange(0, max(1, len(present) // 2))
        for k in rng.sample(present, m):
            lines.append("pre del %s" % k)
            present.remove(k)
    return lines, present


# the key a client passes to NewScanner to enumerate everything / the extremes of the key type
FULL_SCAN_KEYS = {
    "i64": [str(genseq.I64MIN), str(genseq.I64MAX), "0"],
    "i32": [str(genseq.I32MIN), str(genseq.I32MAX), "0"],
    "u64": ["0", str(genseq.U64MAX)],
    "u32": ["0", str(genseq.U32MAX)],
    "str": ["_"],
    "cmp": [str(genseq.I64MIN), str(genseq.I64MAX)],
}


def thread_prog(rng, pool, focus, profile, allow_delete, nops, ty=None):
    ops = []
    def key():
        if rng.random() < 0.7:
            return rng.choice(focus)
        return rng.choice(pool)
    w = {
        "point": dict(ins=35, upd=15, dele=30, get=20, cur=0),
        "cursor": dict(ins=25, upd=5, dele=30, get=5, cur=35),
        "update": dict(ins=10, upd=60, dele=10, get=15, cur=5),
        "delete": dict(ins=25, upd=5, dele=45, get=5, cur=20),
        "mixed": dict(ins=30, upd=10, dele=25, get=15, cur=20),
    }[profile]
    if not allow_delete:
        w = dict(w, dele=0)
    kinds = [k for k, v in w.items() for _ in range(v)]
    while len(ops) < nops:
        kind = rng.choice(kinds)
        if kind == "ins":
            ops.append("ins %s %d" % (key(), rng.randrange(100)))
        elif kind == "upd":
            y = "y" if rng.random() < 0.25 else ""
            ops.append("upd %s %sa1" % (key(), y))
        elif kind == "dele":
            ops.append("del %s" % key())
        elif kind == "get":
            ops.append("get %s" % key())
        else:
            # a quarter of the scans start at an extreme of the key type (the "enumerate everything" idiom)
            if ty in FULL_SCAN_KEYS and rng.random() < 0.25:
                ops.append("ns %s" % rng.choice(FULL_SCAN_KEYS[ty]))
            else:
                ops.append("ns %s" % key())
            steps = rng.choice([0, 1, 2, 3, 5, 9])
            for _ in range(steps):
                ops.append("scan")
                ops.append("pair")
                if rng.random() < 0.3:
                    ops.append("pause")
            if rng.random() < 0.4:
                # run to exhaustion instead of closing early
                for _ in range(rng.choice([4, 12, 40])):
                    ops.append("scan")
                    ops.append("pair")
            ops.append("close")
    return ops


def deep_case(rng, profile, types=None):
    """Tall trees (order 4, four to six levels) and wide nodes (order 16/32 with more than
    eight children or pairs per node): the shapes depth- and width-dependent code needs.
    Operations concentrate on the edges of the key range and on the boundaries between
    subtrees, where descents take the first or last child at every level."""
    ty = rng.choice(types or genseq.TYPES)
    order, n = rng.choice([(4, 40), (4, 70), (4, 110), (4, 130), (16, 90), (16, 140), (32, 150), (8, 120)])
    keys = genseq.asc_keys(ty, 2 * n + 8, rng)
    main = keys[4:2 * n + 4:2]           # fillers exist between and outside the loaded keys
    load = list(main)
    mode = rng.choice(["asc", "asc", "desc", "shuf"])
    if mode == "desc":
        load.reverse()
    elif mode == "shuf":
        rng.shuffle(load)
    lines = ["cbegin %s %d" % (ty, order)] + ["pre ins %s %d" % (k, i % 50) for i, k in enumerate(load)]
    present = list(main)
    if rng.random() < 0.5:
        # thin out so that nodes sit at minimum occupancy
        for k in rng.sample(main, rng.randrange(0, n // 3)):
            lines.append("pre del %s" % k)
            present.remove(k)
    edge = keys[:6] + keys[-6:] + present[:4] + present[-4:]
    f0 = rng.randrange(len(present))
    focus = rng.choice([edge, edge, present[max(0, f0 - 3): f0 + 4], keys[2 * f0: 2 * f0 + 8] or edge])
    nthreads = rng.choice([2, 2, 3])
    for t in range(nthreads):
        nops = rng.choice([1, 2, 2, 3])
        lines.append("thread %d %s" % (t, " ; ".join(thread_prog(rng, keys, focus, profile, True, nops, ty))))
    return lines


def case(rng, profile, types=None, orders=(4, 4, 4, 8, 2, 16)):
    if rng.random() < 0.2:
        return deep_case(rng, profile, types)
    ty = rng.choice(types or genseq.TYPES)
    order = rng.choice(orders)
    allow_delete = order != 2
    psize = rng.choice([8, 12, 20, 40, 80])
    if order >= 16:
        psize = max(psize, rng.choice([3, 6, 10]) * order)
    pool = genseq.key_pool(rng, ty, rng.choice(["small", "small", "wide", "extreme"]), psize)
    pre, present = prefix(rng, ty, order, pool, allow_delete)
    nthreads = rng.choice([2, 2, 2, 3, 3, 4])
    focus_src = present if (present and rng.random() < 0.7) else pool
    f0 = rng.randrange(len(focus_src))
    focus = focus_src[max(0, f0 - 2): f0 + 3]
    lines = ["cbegin %s %d" % (ty, order)] + pre
    for t in range(nthreads):
        nops = rng.choice([1, 1, 2, 2, 3, 4])
        lines.append("thread %d %s" % (t, " ; ".join(thread_prog(rng, pool, focus, profile, allow_delete, nops, ty))))
    return lines


def scaled_catalogue(types=None, shapes=((16, 10), (8, 5)), full=False):
    """The cursor-next-to-Delete and point-op-next-to-Delete configurations of `catalogue`
    at larger orders: a root with `nl` leaves at minimum occupancy (order/2 pairs), leaf j
    under-flowing while a cursor crosses it from the left, rests on it, or readers and
    writers work beside it; neighbours at minimum or one above. Explored under EVERY
    schedule. By default each configuration is generated for one key type (rotating);
    `full` generates all six."""
    cases = []
    tys = types or genseq.TYPES
    ci = 0
    for (o, nl) in shapes:
        h = o // 2
        for j in (1, nl // 2, nl - 2):
            for rich in ("none", "left", "right"):
                for cur_on in ("left", "child", "right"):
                    for ty in (tys if full else [tys[ci % len(tys)]]):
                        keys = genseq.asc_keys(ty, 2 * (nl * h + 1) + 4, __import__("random").Random(7))
                        k = keys[2::2][:nl * h + 1]      # loaded keys; odd positions are fillers
                        fill = keys[3::2]
                        pre = ["pre ins %s %d" % (x, i % 50) for i, x in enumerate(k)] + ["pre del %s" % k[-1]]
                        if rich == "left":
                            pre.append("pre ins %s 0" % fill[(j - 1) * h])
                        elif rich == "right":
                            pre.append("pre ins %s 0" % fill[(j + 1) * h])
                        start = {"left": k[(j - 1) * h], "child": k[j * h], "right": k[(j + 1) * h]}[cur_on]
                        steps = " ; ".join(["scan ; pair"] * (h + 3))
                        cur = "ns %s ; %s ; close" % (start, steps)
                        cases.append(["cbegin %s %d" % (ty, o)] + pre + ["thread 0 " + cur, "thread 1 del %s" % k[j * h + 1], "strategy dfs", "cend"])
                    ci += 1
                for ty in (tys if full else [tys[ci % len(tys)]]):
                    keys = genseq.asc_keys(ty, 2 * (nl * h + 1) + 4, __import__("random").Random(7))
                    k = keys[2::2][:nl * h + 1]
                    fill = keys[3::2]
                    pre = ["pre ins %s %d" % (x, i % 50) for i, x in enumerate(k)] + ["pre del %s" % k[-1]]
                    if rich == "left":
                        pre.append("pre ins %s 0" % fill[(j - 1) * h])
                    elif rich == "right":
                        pre.append("pre ins %s 0" % fill[(j + 1) * h])
                    cases.append(["cbegin %s %d" % (ty, o)] + pre + ["thread 0 get %s ; ins %s 5" % (k[(j + 1) * h], fill[j * h]),
                                                                    "thread 1 del %s" % k[j * h], "strategy dfs", "cend"])
                ci += 1
    return cases


def tall_catalogue(types=None, full=False, sizes=(9, 13, 17, 27)):
    """Three- and four-level trees at order 4, explored under EVERY schedule: a Delete that
    under-flows an internal node (borrow / merge one level above the leaves) and an Insert
    that splits an internal node, each next to a reader, a cursor start or a writer heading
    for the first or the last child."""
    cases = []
    tys = types or genseq.TYPES
    ci = 0
    for n in sizes:
        for variant in range(6 if n <= 13 else 5):
            ty = tys[ci % len(tys)]
            ci += 1
            keys = genseq.asc_keys(ty, 2 * n + 6, __import__("random").Random(7))
            k = keys[2::2][:n]
            fill = keys[3::2]
            pre = ["pre ins %s %d" % (x, i % 50) for i, x in enumerate(k)]
            last, first, mid = k[-1], k[0], k[n // 2]
            beyond = keys[2 * n + 4]
            if variant == 0:
                th = ["thread 0 del %s" % k[1], "thread 1 get %s ; get %s" % (last, first)]
            elif variant == 1:
                th = ["thread 0 del %s" % k[n // 2 + 1], "thread 1 ns %s ; scan ; pair ; scan ; pair ; close" % mid]
            elif variant == 2:
                th = ["thread 0 ins %s 1 ; ins %s 2" % (beyond, fill[n - 1]), "thread 1 get %s ; get %s" % (last, k[n - 2])]
            elif variant == 3:
                th = ["thread 0 del %s ; del %s" % (last, k[n - 2]), "thread 1 ns %s ; scan ; pair ; close" % k[n - 3]]
            elif variant == 4:
                th = ["thread 0 upd %s ya1" % last, "thread 1 upd %s a1 ; get %s" % (last, last)]
            else:
                th = ["thread 0 ins %s 1" % fill[0], "thread 1 del %s" % first, "thread 2 get %s" % k[1]]
            cases.append(["cbegin %s 4" % ty] + pre + th + ["strategy dfs", "cend"])
    return cases


def spine_cases(types=None, sizes=range(40, 140), nsched=3):
    """Order-4 trees loaded with n ascending (or descending) keys for EVERY n in a range, so
    that every combination of full / non-full nodes along the right (left) spine of a four-
    to six-level tree occurs; an Update, an Insert and a yielding Update then extend the
    spine while a reader and a cursor work at the same edge. A few random schedules each:
    the per-acquisition oracles and the event-log tie see every descent."""
    cases = []
    tys = types or genseq.TYPES
    for n in sizes:
        for side in ("right", "left"):
            ty = tys[(n + (side == "left")) % len(tys)]
            keys = genseq.asc_keys(ty, n + 12, __import__("random").Random(7))
            k = keys[6:n + 6]
            load = k if side == "right" else list(reversed(k))
            out = keys[n + 6:n + 12] if side == "right" else list(reversed(keys[:6]))
            edge = load[-1]
            pre = ["pre ins %s %d" % (x, i % 50) for i, x in enumerate(load)]
            cases.append(["cbegin %s 4" % ty] + pre + [
                "thread 0 upd %s a1 ; ins %s 1 ; upd %s ya1 ; upd %s a1" % (out[0], out[1], out[2], out[3]),
                "thread 1 get %s ; ns %s ; scan ; pair ; close ; upd %s a1" % (edge, load[-3], out[4]),
                "strategy random %d %d" % (1000 + n, nsched), "cend"])
    return cases


def _keys18(ty):
    """eighteen ascending key tokens; even positions are the main keys k[0..8],
    odd positions are fillers between them"""
    if ty == "str":
        return [str(48 + i) for i in range(18)]
    if ty in ("i32", "i64"):
        return [str(i - 4) for i in range(18)]
    if ty == "cmp":
        return ["%d#%d" % (i, i % 3) if i % 3 else str(i) for i in range(18)]
    return [str(i) for i in range(18)]


def catalogue(types=None):
    """Small hand-shaped configurations (order 4) explored under EVERY schedule:
    a writer that splits / borrows / merges next to a reader, cursor or writer."""
    cases = []
    for ty in (types or genseq.TYPES):
        kk = _keys18(ty)
        k = kk[0::2]
        fill = kk[1::2]
        load17 = ["pre ins %s %d" % (k[i], i) for i in range(1, 8)]      # {1,2}{3,4}{5,6,7}
        shapes = {
            "min-min-min": load17 + ["pre del %s" % k[7]],                            # {1,2}{3,4}{5,6}
            "rich-min-min": load17 + ["pre ins %s 0" % k[0], "pre del %s" % k[7]],   # {0,1,2}{3,4}{5,6}
            "min-rich-min": load17 + ["pre ins %s 0" % fill[3], "pre del %s" % k[7]],  # {1,2}{3,3+,4}{5,6}
            "min-min-rich": load17 + ["pre ins %s 8" % k[8]],                          # {1,2}{3,4}{5,6,7,8}
        }
        cur = "ns %s ; scan ; pair ; scan ; pair ; scan ; pair ; scan ; pair ; scan ; pair ; scan ; pair ; scan ; pair ; scan ; pair ; close"
        for name, pre in shapes.items():
            for dk in (k[1], k[3], k[5]):
                # cursor walking across the leaves while a leaf under-flows
                for start in (k[0], k[2], k[4]):
                    cases.append(["cbegin %s 4" % ty] + pre + ["thread 0 " + cur % start, "thread 1 del %s" % dk, "strategy dfs", "cend"])
                # point readers/writers next to the same delete
                cases.append(["cbegin %s 4" % ty] + pre + ["thread 0 get %s ; get %s" % (k[4], k[2]), "thread 1 del %s" % dk, "strategy dfs", "cend"])
            cases.append(["cbegin %s 4" % ty] + pre + ["thread 0 ins %s 9 ; get %s" % (fill[4], fill[4]), "thread 1 del %s ; get %s" % (k[3], fill[4]), "strategy dfs", "cend"])
        # search / insert / update while a leaf or the root splits
        full = ["pre ins %s %d" % (k[i], i) for i in (1, 3, 5, 7)]                       # full root leaf
        cases.append(["cbegin %s 4" % ty] + full + ["thread 0 ins %s 8 ; get %s" % (k[8], k[6]), "thread 1 ins %s 6 ; get %s" % (k[6], k[6]), "strategy dfs", "cend"])
        cases.append(["cbegin %s 4" % ty] + full + ["thread 0 get %s" % k[7], "thread 1 ins %s 6" % k[6], "thread 2 get %s" % k[5], "strategy dfs", "cend"])
        two = ["pre ins %s %d" % (k[i], i) for i in (1, 2, 3, 4, 5, 6)]                  # {1,2}{3,4,5,6}: full right leaf
        cases.append(["cbegin %s 4" % ty] + two + ["thread 0 get %s ; get %s" % (k[6], k[5]), "thread 1 ins %s 7" % k[7], "strategy dfs", "cend"])
        cases.append(["cbegin %s 4" % ty] + two + ["thread 0 upd %s a1 ; get %s" % (k[5], k[5]), "thread 1 upd %s a1" % k[5], "thread 2 ins %s 0" % k[0], "strategy dfs", "cend"])
        cases.append(["cbegin %s 4" % ty] + two + ["thread 0 upd %s ya1" % k[4], "thread 1 upd %s ya1" % k[4], "thread 2 upd %s a1" % k[4], "strategy dfs", "cend"])
        cases.append(["cbegin %s 4" % ty] + two + ["thread 0 upd %s ya1" % k[8], "thread 1 upd %s ya1" % k[8], "strategy dfs", "cend"])
        cases.append(["cbegin %s 4" % ty] + two + ["thread 0 upd %s ya1" % k[0], "thread 1 upd %s a1 ; get %s" % (k[0], k[0]), "strategy dfs", "cend"])
        cases.append(["cbegin %s 4" % ty] + two + ["thread 0 upd %s ya1" % fill[4], "thread 1 upd %s a1 ; get %s" % (fill[4], fill[4]), "strategy dfs", "cend"])
        # root collapse against readers and writers
        small = ["pre ins %s %d" % (k[i], i) for i in (1, 2, 3, 4, 5)] + ["pre del %s" % k[5]]   # {1,2}{3,4}
        cases.append(["cbegin %s 4" % ty] + small + ["thread 0 del %s" % k[1], "thread 1 get %s ; ins %s 8" % (k[4], k[8]), "strategy dfs", "cend"])
        cases.append(["cbegin %s 4" % ty] + small + ["thread 0 del %s" % k[3], "thread 1 " + cur % k[0], "strategy dfs", "cend"])
    return cases


# ---------------------------------------------------------------------------
# Wide nodes (orders 64 .. 512), a root with more than 64 children, a long cursor session

WIDE_ORDERS = {"quick": (64, 128, 256), "thorough": (64, 128, 256, 512)}

_CURSOR_SHARE = {"point": 0.15, "cursor": 0.85, "update": 0.2, "delete": 0.5, "mixed": 0.5}
_POINT_W = {
    "point": dict(ins=35, upd=15, dele=20, get=30),
    "cursor": dict(ins=35, upd=10, dele=25, get=30),
    "update": dict(ins=10, upd=65, dele=5, get=20),
    "delete": dict(ins=25, upd=10, dele=40, get=25),
    "mixed": dict(ins=30, upd=15, dele=25, get=30),
}


class _Layout:
    """nl leaves of order/2 keys each under one root (ascending load of nl*h+1 keys, the last
    one removed again). main[i] are the loaded keys; fill(i, r), r = 1..3, are three keys
    strictly between main[i] and main[i+1] (they belong to the leaf of main[i]). r = 2 is used
    by the prefix to raise a leaf's occupancy, r = 1 and r = 3 are never loaded: keys that are
    absent whatever the prefix did."""

    def __init__(self, ty, order, nl, rng):
        self.ty, self.order, self.nl, self.h = ty, order, nl, order // 2
        n = nl * self.h + 1
        self.keys = genseq.asc_keys(ty, 4 * n + 12, rng)
        self.main = self.keys[4::4][:n]
        self.pre = ["pre ins %s %d" % (x, i % 50) for i, x in enumerate(self.main)] + ["pre del %s" % self.main[-1]]
        # leaf x holds main[x*h .. x*h+h-1] and the fillers loaded into it, by (gap, r)
        self.extra = [set() for _ in range(nl)]

    def fill(self, i, r):
        return self.keys[4 + 4 * i + r]

    def raise_to(self, x, occ, rng):
        """occupancy of leaf x: min | min1 | mid | full | thin (filled up, then thinned out to
        minimum + 1 again, which leaves stale slots behind the slice's length)"""
        h = self.h
        gaps = {"min": [], "min1": [rng.randrange(h)], "mid": sorted(rng.sample(range(h), rng.randrange(2, h))),
                "full": list(range(h)), "thin": list(range(h))}[occ]
        for g in gaps:
            self.pre.append("pre ins %s %d" % (self.fill(x * h + g, 2), g % 50))
        if occ == "thin":
            keep = rng.randrange(h)
            order = list(range(h))
            rng.shuffle(order)
            for g in order:
                if g != keep:
                    self.pre.append("pre del %s" % self.fill(x * h + g, 2))
            gaps = [keep]
        self.extra[x] = set(gaps)

    def leaf_keys(self, x):
        out = []
        for g in range(self.h):
            out.append(self.main[x * self.h + g])
            if g in self.extra[x]:
                out.append(self.fill(x * self.h + g, 2))
        return out

    def absent_key(self, x, where, rng):
        """a key that belongs to leaf x and is not stored: low (second slot), high (beyond the
        leaf's last key) or anywhere"""
        g = {"low": 0, "high": self.h - 1}.get(where)
        if g is None:
            g = rng.randrange(self.h)
        return self.fill(x * self.h + g, 3 if where == "high" else rng.choice([1, 3]))


def _point_ops(rng, lay, leaves, profile, nops, allow_delete=True):
    """point operations on the edges of the given leaves: first / second / last key, an
    absent key below everything but the first key or beyond the last key"""
    w = dict(_POINT_W[profile])
    if not allow_delete:
        w["dele"] = 0
    kinds = [k for k, v in w.items() for _ in range(v)]
    ops = []
    for _ in range(nops):
        x = rng.choice(leaves)
        lk = lay.leaf_keys(x)
        present = rng.choice([lk[0], lk[1], lk[-1], lk[-1], lk[-2], rng.choice(lk)])
        absent = lay.absent_key(x, rng.choice(["low", "low", "high", "any"]), rng)
        kind = rng.choice(kinds)
        if kind == "ins":
            ops.append("ins %s %d" % (absent if rng.random() < 0.8 else present, rng.randrange(100)))
        elif kind == "upd":
            y = "y" if rng.random() < 0.25 else ""
            ops.append("upd %s %sa1" % (absent if rng.random() < 0.5 else present, y))
        elif kind == "dele":
            ops.append("del %s" % (present if rng.random() < 0.85 else absent))
        else:
            ops.append("get %s" % (present if rng.random() < 0.85 else absent))
    return ops


def wide_case(rng, profile, orders, types=None):
    """Leaf-level shapes at wide orders: a root over 3..5 leaves; the target leaf j and its
    neighbours at minimum / minimum+1 / full / in-between occupancy; a Delete that under-flows
    leaf j (each rebalance branch: borrow from the right, borrow from the left, merge into the
    left, absorb the right), cursors that rest on a neighbouring leaf and hop into or out of
    leaf j, and Searches / Inserts / Updates on the first and last keys of the same leaves.
    Returns (lines without strategy, small) - small: two goroutines with one operation each,
    fit for the exploration of every schedule."""
    ty = rng.choice(types or genseq.TYPES)
    o = rng.choice(orders)
    nl = rng.choice([3, 3, 4, 5]) if o <= 256 else 3
    lay = _Layout(ty, o, nl, rng)
    h = lay.h
    j = rng.choice([0] + list(range(1, nl)) * 3)
    occ = {}
    occ[j] = rng.choice(["min", "min", "min", "min1", "min1", "thin", "full"])
    for x in (j - 1, j + 1):
        if 0 <= x < nl:
            occ[x] = rng.choice(["min", "min", "min", "min1", "min1", "mid", "full", "thin"])
    for x in sorted(occ):
        lay.raise_to(x, occ[x], rng)
    near = sorted(occ)
    lk = lay.leaf_keys(j)
    threads = []
    # the Delete that makes leaf j too small
    if rng.random() < (0.5 if profile == "update" else 0.85):
        dk = rng.choice([lk[0], lk[1], lk[len(lk) // 2], lk[-1], rng.choice(lk)])
        ops = ["del %s" % dk]
        if occ[j] in ("min1", "thin"):
            ops.append("del %s" % rng.choice([k for k in lk if k != dk]))
        elif rng.random() < 0.3:
            ops += _point_ops(rng, lay, near, profile, 1)
        threads.append(ops)
    else:
        threads.append(_point_ops(rng, lay, near, profile, rng.choice([1, 2])))
    nthreads = rng.choice([2, 2, 3])
    long_cursor = False
    while len(threads) < nthreads:
        if rng.random() < (_CURSOR_SHARE[profile] if len(threads) == 1 else 0.25):
            x = rng.choice([v for v in (j - 1, j) if v >= 0])
            xk = lay.leaf_keys(x)
            variant = rng.choice(["edge", "edge", "edge", "hop", "all"])
            if variant == "edge":
                back = rng.choice([1, 2, 3])
                start, steps = xk[-back], back + rng.choice([1, 2, 3])
            elif variant == "hop":
                start, steps = xk[rng.choice([0, 1])], len(xk) + rng.choice([1, 3])
                long_cursor = True
            else:
                start, steps = rng.choice(FULL_SCAN_KEYS[ty]), rng.choice([2, 3, nl * o])
                long_cursor = long_cursor or steps > 3
            ops = ["ns %s" % start]
            for i in range(steps):
                ops += ["scan", "pair"]
                if steps <= 8 and rng.random() < 0.25:
                    ops.append("pause")
            ops.append("close")
            threads.append(ops)
        else:
            threads.append(_point_ops(rng, lay, near, profile, rng.choice([1, 1, 2])))
    lines = ["cbegin %s %d" % (ty, o)] + lay.pre
    nclient = 0
    for t, ops in enumerate(threads):
        lines.append("thread %d %s" % (t, " ; ".join(ops)))
        nclient += 1 if ops[0].startswith("ns ") else len(ops)
    small = nthreads == 2 and nclient <= 3 and not long_cursor
    return lines, small


def huge_case(rng, ty, variant, order=128, nkeys=None):
    """A root with more than 64 children: `nkeys` ascending keys at order 128 (4500..8100: a
    two-level tree whose root has 70..126 leaves of 64 keys; 9000: three levels, the right
    internal node has more than 64 children). A Search heads for leaf c while an Insert
    splits that leaf (the searched key moves to the new sibling), a Delete merges it into its
    left neighbour, or a Delete makes a neighbour borrow the searched key. variant: split |
    merge | borrow (two goroutines, one operation each) | rand (three goroutines)."""
    h = order // 2
    n = nkeys or rng.randrange(4500, 5400)
    keys = genseq.asc_keys(ty, 4 * n + 12, rng)
    main = keys[4::4][:n]
    fill = lambda i, r: keys[4 + 4 * i + r]
    pre = ["pre ins %s %d" % (x, i % 50) for i, x in enumerate(main)]
    nleaves = n // h                      # the last leaf holds the remainder
    c = rng.randrange(2, nleaves - 3)
    if n >= 8200:
        c = rng.randrange(nleaves - 70, nleaves - 3)   # under the wide right-hand internal node
    first = c * h
    if variant == "split":
        pre += ["pre ins %s 1" % fill(first + g, 2) for g in range(h)]      # leaf c is full
        th = ["get %s" % rng.choice([main[first + h - 1], main[first + h - 2], main[first + h // 2 + 1]]),
              rng.choice(["ins %s 7", "upd %s a1"]) % fill(first + rng.randrange(h), 1)]
    elif variant == "merge":
        th = ["get %s" % main[first + rng.choice([0, 2, h - 1])], "del %s" % main[first + 1]]
    elif variant == "borrow":
        pre += ["pre ins %s 1" % fill(first + h + 3, 2)]                    # leaf c+1 has one to spare
        th = ["get %s" % main[first + h], "del %s" % main[first + rng.randrange(h)]]
    else:
        pre += ["pre ins %s 1" % fill(first + g, 2) for g in range(h)]
        pool = [main[first + h - 1], main[first + h - 2], main[first - 1], main[first + h], main[first + h + 1], main[first]]
        th = ["get %s ; get %s" % (rng.choice(pool), rng.choice(pool)),
              "ins %s 7 ; del %s" % (fill(first + rng.randrange(h), 1), main[first + h + 2]),
              "del %s ; upd %s a1" % (main[first - 2], fill(first + h + 1, 3))]
    lines = ["cbegin %s %d" % (ty, order)] + pre + ["thread %d %s" % (t, ops) for t, ops in enumerate(th)]
    return lines


def long_cursor_case(rng, ty, order=16, nkeys=10000, steps=8320, region=(8080, 8310)):
    """One cursor that performs `steps` scan/pair steps over a tree of `nkeys` keys (loaded
    ascending: leaves of order/2 keys), and two writers that work, leaf after leaf, through
    the leaves the cursor traverses in steps region[0]..region[1], taking the leaves in turns:
    an Insert into the lower half of the leaf (mostly), an Update of an absent or a present
    key, a Delete, a Search. Run with concrun's `strategy lead 0 <lead> .. pace
    1:<base>:<stride>,2:<base'>:<stride>`: the cursor travels alone up to the region; from there
    a writer may begin its i-th operation only once the cursor is about to enter the leaf that
    operation aims at (the cursor has started base + i*stride operations).
    Returns (lines without strategy, lead_ops, pace string, cursor steps)."""
    h = order // 2
    keys = genseq.asc_keys(ty, 4 * nkeys + 12, rng)
    main = keys[4::4][:nkeys]
    fill = lambda i, r: keys[4 + 4 * i + r]
    pre = ["pre ins %s %d" % (x, i % 50) for i, x in enumerate(main)]
    s0 = rng.randrange(h)
    cur = ["ns %s" % main[s0]] + ["scan", "pair"] * steps + ["close"]
    # scan number n exposes main[s0 + n - 1]; the scan that enters leaf x is number x*h - s0 + 1,
    # the cursor's operation of index 2*(x*h - s0 + 1) - 1
    l0, l1 = (s0 + region[0]) // h, (s0 + region[1]) // h
    w = [[], []]
    for x in range(l0, l1 + 1):
        g = rng.randrange(0, max(1, h // 2))
        r = rng.random()
        if r < 0.5:
            op = "ins %s %d" % (fill(x * h + g, 1), x % 90)
        elif r < 0.6:
            op = "upd %s a1" % fill(x * h + g, 3)
        elif r < 0.7:
            op = "upd %s a1" % main[x * h + rng.randrange(h)]
        elif r < 0.75:
            op = "ins %s %d" % (main[x * h + g], x % 90)
        elif r < 0.9:
            op = "del %s" % main[x * h + g]
        else:
            op = "get %s" % main[x * h + rng.choice([0, h - 1])]
        # the writers take the leaves in turns: while one of them is still queued on the leaf
        # the cursor rests on, the other can already head for the next one
        w[(x - l0) % 2].append(op)
    w1, w2 = w
    base = 2 * (l0 * h - s0 + 1)
    pace = "1:%d:%d,2:%d:%d" % (base, 4 * h, base + 2 * h, 4 * h)
    lines = ["cbegin %s %d" % (ty, order)] + pre + ["thread 0 " + " ; ".join(cur), "thread 1 " + " ; ".join(w1), "thread 2 " + " ; ".join(w2)]
    return lines, base - 4 * h, pace, steps


def wide_catalogue(types=None, orders=(128,), full=True, select=None):
    """The configurations of `catalogue` at the leaf level of a wide tree (root over four
    leaves of order/2 .. order keys), two goroutines with one operation (or one short cursor
    session) each, explored under EVERY schedule: a Search / Update of the first or last key
    of a leaf while an Insert shifts or splits that leaf or a Delete makes a neighbour borrow
    that key or merges the leaf away; a cursor resting on the left, on the leaf itself or on
    the right while a Delete under-flows the leaf (borrow right / borrow left / merge into the
    left / absorb the right; first, inner and last child). `full`: every configuration for
    all the key types; otherwise one type per configuration, rotating. `select`: predicate on
    the configuration's name (the `# name` line of the case)."""
    import random
    cases = []
    tys = types or genseq.TYPES
    ci = 0
    for o in orders:
        h = o // 2

        def cur(lay, x, back, steps):
            xk = lay.leaf_keys(x)
            return "ns %s ; %s ; close" % (xk[-back], " ; ".join(["scan ; pair"] * steps))
        first = lambda lay, x: lay.leaf_keys(x)[0]
        last = lambda lay, x: lay.leaf_keys(x)[-1]
        mid = lambda lay, x, h=h: lay.leaf_keys(x)[h // 2]
        low = lambda lay, x, h=h: lay.fill(x * h, 1)
        high = lambda lay, x, h=h: lay.fill(x * h + h - 1, 3)
        # (name, occupancies {leaf: occ}, the two programs as a function of the layout)
        configs = [
            ("get-last/ins-low", {1: "min1"}, lambda L: ["get %s" % last(L, 1), "ins %s 7" % low(L, 1)]),
            ("get-last/ins-low thinned", {1: "thin"}, lambda L: ["get %s" % last(L, 1), "ins %s 7" % low(L, 1)]),
            ("get-last/upd-low", {1: "mid"}, lambda L: ["get %s" % last(L, 1), "upd %s a1" % low(L, 1)]),
            ("get-last/ins-splits", {1: "full"}, lambda L: ["get %s" % last(L, 1), "ins %s 7" % low(L, 1)]),
            ("get-first/ins-high", {1: "min1"}, lambda L: ["get %s" % first(L, 1), "ins %s 7" % high(L, 1)]),
            ("get-mid/del-merges-left", {}, lambda L: ["get %s" % mid(L, 1), "del %s" % first(L, 1)]),
            ("get-last/del-low", {1: "min1"}, lambda L: ["get %s" % last(L, 1), "del %s" % first(L, 1)]),
            ("get-first-of-right/del-borrows-right", {2: "min1"}, lambda L: ["get %s" % first(L, 2), "del %s" % mid(L, 1)]),
            ("get-last-of-left/del-borrows-left", {0: "min1"}, lambda L: ["get %s" % last(L, 0), "del %s" % mid(L, 1)]),
            ("get-first-of-right/first-child-absorbs-right", {}, lambda L: ["get %s" % first(L, 1), "del %s" % mid(L, 0)]),
            ("get-last-of-left/last-child-merges-left", {}, lambda L: ["get %s" % last(L, 2), "del %s" % mid(L, 3)]),
            ("upd-last-yield/ins-low", {1: "min1"}, lambda L: ["upd %s ya1" % last(L, 1), "ins %s 7" % low(L, 1)]),
            ("upd-absent-yield/get-last", {1: "min1"}, lambda L: ["upd %s ya1" % low(L, 1), "get %s" % last(L, 1)]),
            ("del/del-neighbours", {}, lambda L: ["del %s" % mid(L, 1), "del %s" % mid(L, 2)]),
            ("cursor-left/del-merges-left", {}, lambda L: [cur(L, 0, 2, 4), "del %s" % mid(L, 1)]),
            ("cursor-left/del-borrows-left", {0: "min1"}, lambda L: [cur(L, 0, 2, 4), "del %s" % first(L, 1)]),
            ("cursor-left/del-borrows-right", {2: "mid"}, lambda L: [cur(L, 0, 2, 4), "del %s" % last(L, 1)]),
            ("cursor-child/del-merges-left", {}, lambda L: [cur(L, 1, 2, 4), "del %s" % mid(L, 1)]),
            ("cursor-right/del-borrows-right", {2: "min1"}, lambda L, h=h: [cur(L, 2, h, 3), "del %s" % mid(L, 1)]),
            ("cursor-left/last-child-merges-left", {}, lambda L: [cur(L, 2, 2, 4), "del %s" % first(L, 3)]),
            ("cursor-left/ins-low", {1: "min1"}, lambda L: [cur(L, 0, 2, 5), "ins %s 7" % low(L, 1)]),
            ("cursor-child/ins-splits", {1: "full"}, lambda L: [cur(L, 1, 3, 5), "ins %s 7" % low(L, 1)]),
        ]
        for name, occ, prog in configs:
            if select is not None and not select(name):
                ci += 1
                continue
            for ty in (tys if full else [tys[ci % len(tys)]]):
                lay = _Layout(ty, o, 4, random.Random(7))
                for x in sorted(occ):
                    lay.raise_to(x, occ[x], random.Random(11 + x))
                th = prog(lay)
                cases.append(["cbegin %s %d" % (ty, o), "# " + name] + lay.pre + ["thread %d %s" % (t, p) for t, p in enumerate(th)] + ["strategy dfs", "cend"])
            ci += 1
    return cases
