"""Generators of concurrent cases for concrun / the Lean small-step model."""
import genseq


def prefix(rng, ty, order, pool, allow_delete):
    n = rng.choice([0, 3, order, order + 1, 2 * order, 3 * order, 5 * order, 8 * order, 12 * order])
    n = min(n, 120)
    lines = []
    present = []
    keys = list(pool)
    rng.shuffle(keys)
    mode = rng.choice(["asc", "desc", "shuf", "shuf"])
    load = sorted(keys[:n], key=lambda k: pool.index(k)) if mode != "shuf" else keys[:n]
    if mode == "desc":
        load.reverse()
    for k in load:
        lines.append("pre ins %s %s" % (k, genseq.rand_val(rng)))
        present.append(k)
    if allow_delete and present and rng.random() < 0.6:
        # thin the tree out so that nodes sit at minimum occupancy
        m = rng.randrange(0, max(1, len(present) // 2))
        for k in rng.sample(present, m):
            lines.append("pre del %s" % k)
            present.remove(k)
    return lines, present


def thread_prog(rng, pool, focus, profile, allow_delete, nops):
    ops = []
    def key():
        if rng.random() < 0.7:
            return rng.choice(focus)
        return rng.choice(pool)
    w = {
        "point": dict(ins=35, upd=15, dele=30, get=20, cur=0),
        "cursor": dict(ins=25, upd=5, dele=30, get=5, cur=35),
        "update": dict(ins=10, upd=60, dele=10, get=15, cur=5),
        "delete": dict(ins=25, upd=5, dele=45, get=5, cur=20),
        "mixed": dict(ins=30, upd=10, dele=25, get=15, cur=20),
    }[profile]
    if not allow_delete:
        w = dict(w, dele=0)
    kinds = [k for k, v in w.items() for _ in range(v)]
    while len(ops) < nops:
        kind = rng.choice(kinds)
        if kind == "ins":
            ops.append("ins %s %d" % (key(), rng.randrange(100)))
        elif kind == "upd":
            y = "y" if rng.random() < 0.25 else ""
            ops.append("upd %s %sa1" % (key(), y))
        elif kind == "dele":
            ops.append("del %s" % key())
        elif kind == "get":
            ops.append("get %s" % key())
        else:
            ops.append("ns %s" % key())
            steps = rng.choice([0, 1, 2, 3, 5, 9])
            for _ in range(steps):
                ops.append("scan")
                ops.append("pair")
                if rng.random() < 0.3:
                    ops.append("pause")
            if rng.random() < 0.4:
                # run to exhaustion instead of closing early
                for _ in range(rng.choice([4, 12, 40])):
                    ops.append("scan")
                    ops.append("pair")
            ops.append("close")
    return ops


def case(rng, profile, types=None, orders=(4, 4, 4, 8, 2)):
    ty = rng.choice(types or genseq.TYPES)
    order = rng.choice(orders)
    allow_delete = order != 2
    psize = rng.choice([8, 12, 20, 40, 80])
    pool = genseq.key_pool(rng, ty, rng.choice(["small", "small", "wide", "extreme"]), psize)
    pre, present = prefix(rng, ty, order, pool, allow_delete)
    nthreads = rng.choice([2, 2, 2, 3, 3, 4])
    focus_src = present if (present and rng.random() < 0.7) else pool
    f0 = rng.randrange(len(focus_src))
    focus = focus_src[max(0, f0 - 2): f0 + 3]
    lines = ["cbegin %s %d" % (ty, order)] + pre
    for t in range(nthreads):
        nops = rng.choice([1, 1, 2, 2, 3, 4])
        lines.append("thread %d %s" % (t, " ; ".join(thread_prog(rng, pool, focus, profile, allow_delete, nops))))
    return lines


def _keys18(ty):
    """eighteen ascending key tokens; even positions are the main keys k[0..8],
    odd positions are fillers between them"""
    if ty == "str":
        return [str(48 + i) for i in range(18)]
    if ty in ("i32", "i64"):
        return [str(i - 4) for i in range(18)]
    if ty == "cmp":
        return ["%d#%d" % (i, i % 3) if i % 3 else str(i) for i in range(18)]
    return [str(i) for i in range(18)]


def catalogue(types=None):
    """Small hand-shaped configurations (order 4) explored under EVERY schedule:
    a writer that splits / borrows / merges next to a reader, cursor or writer."""
    cases = []
    for ty in (types or genseq.TYPES):
        kk = _keys18(ty)
        k = kk[0::2]
        fill = kk[1::2]
        load17 = ["pre ins %s %d" % (k[i], i) for i in range(1, 8)]      # {1,2}{3,4}{5,6,7}
        shapes = {
            "min-min-min": load17 + ["pre del %s" % k[7]],                            # {1,2}{3,4}{5,6}
            "rich-min-min": load17 + ["pre ins %s 0" % k[0], "pre del %s" % k[7]],   # {0,1,2}{3,4}{5,6}
            "min-rich-min": load17 + ["pre ins %s 0" % fill[3], "pre del %s" % k[7]],  # {1,2}{3,3+,4}{5,6}
            "min-min-rich": load17 + ["pre ins %s 8" % k[8]],                          # {1,2}{3,4}{5,6,7,8}
        }
        cur = "ns %s ; scan ; pair ; scan ; pair ; scan ; pair ; scan ; pair ; scan ; pair ; scan ; pair ; scan ; pair ; scan ; pair ; close"
        for name, pre in shapes.items():
            for dk in (k[1], k[3], k[5]):
                # cursor walking across the leaves while a leaf under-flows
                for start in (k[0], k[2], k[4]):
                    cases.append(["cbegin %s 4" % ty] + pre + ["thread 0 " + cur % start, "thread 1 del %s" % dk, "strategy dfs", "cend"])
                # point readers/writers next to the same delete
                cases.append(["cbegin %s 4" % ty] + pre + ["thread 0 get %s ; get %s" % (k[4], k[2]), "thread 1 del %s" % dk, "strategy dfs", "cend"])
            cases.append(["cbegin %s 4" % ty] + pre + ["thread 0 ins %s 9 ; get %s" % (fill[4], fill[4]), "thread 1 del %s ; get %s" % (k[3], fill[4]), "strategy dfs", "cend"])
        # search / insert / update while a leaf or the root splits
        full = ["pre ins %s %d" % (k[i], i) for i in (1, 3, 5, 7)]                       # full root leaf
        cases.append(["cbegin %s 4" % ty] + full + ["thread 0 ins %s 8 ; get %s" % (k[8], k[6]), "thread 1 ins %s 6 ; get %s" % (k[6], k[6]), "strategy dfs", "cend"])
        cases.append(["cbegin %s 4" % ty] + full + ["thread 0 get %s" % k[7], "thread 1 ins %s 6" % k[6], "thread 2 get %s" % k[5], "strategy dfs", "cend"])
        two = ["pre ins %s %d" % (k[i], i) for i in (1, 2, 3, 4, 5, 6)]                  # {1,2}{3,4,5,6}: full right leaf
        cases.append(["cbegin %s 4" % ty] + two + ["thread 0 get %s ; get %s" % (k[6], k[5]), "thread 1 ins %s 7" % k[7], "strategy dfs", "cend"])
        cases.append(["cbegin %s 4" % ty] + two + ["thread 0 upd %s a1 ; get %s" % (k[5], k[5]), "thread 1 upd %s a1" % k[5], "thread 2 ins %s 0" % k[0], "strategy dfs", "cend"])
        cases.append(["cbegin %s 4" % ty] + two + ["thread 0 upd %s ya1" % k[4], "thread 1 upd %s ya1" % k[4], "thread 2 upd %s a1" % k[4], "strategy dfs", "cend"])
        cases.append(["cbegin %s 4" % ty] + two + ["thread 0 upd %s ya1" % k[8], "thread 1 upd %s ya1" % k[8], "strategy dfs", "cend"])
        cases.append(["cbegin %s 4" % ty] + two + ["thread 0 upd %s ya1" % k[0], "thread 1 upd %s a1 ; get %s" % (k[0], k[0]), "strategy dfs", "cend"])
        cases.append(["cbegin %s 4" % ty] + two + ["thread 0 upd %s ya1" % fill[4], "thread 1 upd %s a1 ; get %s" % (fill[4], fill[4]), "strategy dfs", "cend"])
        # root collapse against readers and writers
        small = ["pre ins %s %d" % (k[i], i) for i in (1, 2, 3, 4, 5)] + ["pre del %s" % k[5]]   # {1,2}{3,4}
        cases.append(["cbegin %s 4" % ty] + small + ["thread 0 del %s" % k[1], "thread 1 get %s ; ins %s 8" % (k[4], k[8]), "strategy dfs", "cend"])
        cases.append(["cbegin %s 4" % ty] + small + ["thread 0 del %s" % k[3], "thread 1 " + cur % k[0], "strategy dfs", "cend"])
    return cases
