"""Generators of concurrent cases for concrun / the Lean small-step model."""
import genseq


def prefix(rng, ty, order, pool, allow_delete):
    n = rng.choice([0, 3, order, order + 1, 2 * order, 3 * order, 5 * order, 8 * order, 12 * order])
    n = min(n, 120)
    lines = []
    present = []
    keys = list(pool)
    rng.shuffle(keys)
    mode = rng.choice(["asc", "desc", "shuf", "shuf"])
    load = sorted(keys[:n], key=lambda k: pool.index(k)) if mode != "shuf" else keys[:n]
    if mode == "desc":
        load.reverse()
    for k in load:
        lines.append("pre ins %s %s" % (k, genseq.rand_val(rng)))
        present.append(k)
    if allow_delete and present and rng.random() < 0.6:
        # thin the tree out so that nodes sit at minimum occupancy
        m = rng.randrange(0, max(1, len(present) // 2))
        for k in rng.sample(present, m):
            lines.append("pre del %s" % k)
            present.remove(k)
    return lines, present


def thread_prog(rng, pool, focus, profile, allow_delete, nops):
    ops = []
    def key():
        if rng.random() < 0.7:
            return rng.choice(focus)
        return rng.choice(pool)
    w = {
        "point": dict(ins=35, upd=15, dele=30, get=20, cur=0),
        "cursor": dict(ins=25, upd=5, dele=30, get=5, cur=35),
        "update": dict(ins=10, upd=60, dele=10, get=15, cur=5),
        "delete": dict(ins=25, upd=5, dele=45, get=5, cur=20),
        "mixed": dict(ins=30, upd=10, dele=25, get=15, cur=20),
    }[profile]
    if not allow_delete:
        w = dict(w, dele=0)
    kinds = [k for k, v in w.items() for _ in range(v)]
    while len(ops) < nops:
        kind = rng.choice(kinds)
        if kind == "ins":
            ops.append("ins %s %d" % (key(), rng.randrange(100)))
        elif kind == "upd":
            y = "y" if rng.random() < 0.25 else ""
            ops.append("upd %s %sa1" % (key(), y))
        elif kind == "dele":
            ops.append("del %s" % key())
        elif kind == "get":
            ops.append("get %s" % key())
        else:
            ops.append("ns %s" % key())
            steps = rng.choice([0, 1, 2, 3, 5, 9])
            for _ in range(steps):
                ops.append("scan")
                ops.append("pair")
                if rng.random() < 0.3:
                    ops.append("pause")
            if rng.random() < 0.4:
                # run to exhaustion instead of closing early
                for _ in range(rng.choice([4, 12, 40])):
                    ops.append("scan")
                    ops.append("pair")
            ops.append("close")
    return ops


def case(rng, profile, types=None, orders=(4, 4, 4, 8, 2)):
    ty = rng.choice(types or genseq.TYPES)
    order = rng.choice(orders)
    allow_delete = order != 2
    psize = rng.choice([8, 12, 20, 40, 80])
    pool = genseq.key_pool(rng, ty, rng.choice(["small", "small", "wide", "extreme"]), psize)
    pre, present = prefix(rng, ty, order, pool, allow_delete)
    nthreads = rng.choice([2, 2, 2, 3, 3, 4])
    focus_src = present if (present and rng.random() < 0.7) else pool
    f0 = rng.randrange(len(focus_src))
    focus = focus_src[max(0, f0 - 2): f0 + 3]
    lines = ["cbegin %s %d" % (ty, order)] + pre
    for t in range(nthreads):
        nops = rng.choice([1, 1, 2, 2, 3, 4])
        lines.append("thread %d %s" % (t, " ; ".join(thread_prog(rng, pool, focus, profile, allow_delete, nops))))
    return lines
