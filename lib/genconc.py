"""Generators of concurrent cases for concrun / the Lean small-step model."""
import genseq


def prefix(rng, ty, order, pool, allow_delete):
    n = rng.choice([0, 3, order, order + 1, 2 * order, 3 * order, 5 * order, 8 * order, 12 * order])
    n = min(n, 120)
    lines = []
    present = []
    keys = list(pool)
    rng.shuffle(keys)
    mode = rng.choice(["asc", "desc", "shuf", "shuf"])
    load = sorted(keys[:n], key=lambda k: pool.index(k)) if mode != "shuf" else keys[:n]
    if mode == "desc":
        load.reverse()
    for k in load:
        lines.append("pre ins %s %s" % (k, genseq.rand_val(rng)))
        present.append(k)
    if allow_delete and present and rng.random() < 0.6:
        # thin the tree out so that nodes sit at minimum occupancy
        m = rng.randrange(0, max(1, len(present) // 2))
        for k in rng.sample(present, m):
            lines.append("pre del %s" % k)
            present.remove(k)
    return lines, present


# the key a client passes to NewScanner to enumerate everything / the extremes of the key type
FULL_SCAN_KEYS = {
    "i64": [str(genseq.I64MIN), str(genseq.I64MAX), "0"],
    "i32": [str(genseq.I32MIN), str(genseq.I32MAX), "0"],
    "u64": ["0", str(genseq.U64MAX)],
    "u32": ["0", str(genseq.U32MAX)],
    "str": ["_"],
    "cmp": [str(genseq.I64MIN), str(genseq.I64MAX)],
}


def thread_prog(rng, pool, focus, profile, allow_delete, nops, ty=None):
    ops = []
    def key():
        if rng.random() < 0.7:
            return rng.choice(focus)
        return rng.choice(pool)
    w = {
        "point": dict(ins=35, upd=15, dele=30, get=20, cur=0),
        "cursor": dict(ins=25, upd=5, dele=30, get=5, cur=35),
        "update": dict(ins=10, upd=60, dele=10, get=15, cur=5),
        "delete": dict(ins=25, upd=5, dele=45, get=5, cur=20),
        "mixed": dict(ins=30, upd=10, dele=25, get=15, cur=20),
    }[profile]
    if not allow_delete:
        w = dict(w, dele=0)
    kinds = [k for k, v in w.items() for _ in range(v)]
    while len(ops) < nops:
        kind = rng.choice(kinds)
        if kind == "ins":
            ops.append("ins %s %d" % (key(), rng.randrange(100)))
        elif kind == "upd":
            y = "y" if rng.random() < 0.25 else ""
            ops.append("upd %s %sa1" % (key(), y))
        elif kind == "dele":
            ops.append("del %s" % key())
        elif kind == "get":
            ops.append("get %s" % key())
        else:
            # a quarter of the scans start at an extreme of the key type (the "enumerate everything" idiom)
            if ty in FULL_SCAN_KEYS and rng.random() < 0.25:
                ops.append("ns %s" % rng.choice(FULL_SCAN_KEYS[ty]))
            else:
                ops.append("ns %s" % key())
            steps = rng.choice([0, 1, 2, 3, 5, 9])
            for _ in range(steps):
                ops.append("scan")
                ops.append("pair")
                if rng.random() < 0.3:
                    ops.append("pause")
            if rng.random() < 0.4:
                # run to exhaustion instead of closing early
                for _ in range(rng.choice([4, 12, 40])):
                    ops.append("scan")
                    ops.append("pair")
            ops.append("close")
    return ops


def deep_case(rng, profile, types=None):
    """Tall trees (order 4, four to six levels) and wide nodes (order 16/32 with more than
    eight children or pairs per node): the shapes depth- and width-dependent code needs.
    Operations concentrate on the edges of the key range and on the boundaries between
    subtrees, where descents take the first or last child at every level."""
    ty = rng.choice(types or genseq.TYPES)
    order, n = rng.choice([(4, 40), (4, 70), (4, 110), (4, 130), (16, 90), (16, 140), (32, 150), (8, 120)])
    keys = genseq.asc_keys(ty, 2 * n + 8, rng)
    main = keys[4:2 * n + 4:2]           # fillers exist between and outside the loaded keys
    load = list(main)
    mode = rng.choice(["asc", "asc", "desc", "shuf"])
    if mode == "desc":
        load.reverse()
    elif mode == "shuf":
        rng.shuffle(load)
    lines = ["cbegin %s %d" % (ty, order)] + ["pre ins %s %d" % (k, i % 50) for i, k in enumerate(load)]
    present = list(main)
    if rng.random() < 0.5:
        # thin out so that nodes sit at minimum occupancy
        for k in rng.sample(main, rng.randrange(0, n // 3)):
            lines.append("pre del %s" % k)
            present.remove(k)
    edge = keys[:6] + keys[-6:] + present[:4] + present[-4:]
    f0 = rng.randrange(len(present))
    focus = rng.choice([edge, edge, present[max(0, f0 - 3): f0 + 4], keys[2 * f0: 2 * f0 + 8] or edge])
    nthreads = rng.choice([2, 2, 3])
    for t in range(nthreads):
        nops = rng.choice([1, 2, 2, 3])
        lines.append("thread %d %s" % (t, " ; ".join(thread_prog(rng, keys, focus, profile, True, nops, ty))))
    return lines


def case(rng, profile, types=None, orders=(4, 4, 4, 8, 2, 16)):
    if rng.random() < 0.2:
        return deep_case(rng, profile, types)
    ty = rng.choice(types or genseq.TYPES)
    order = rng.choice(orders)
    allow_delete = order != 2
    psize = rng.choice([8, 12, 20, 40, 80])
    if order >= 16:
        psize = max(psize, rng.choice([3, 6, 10]) * order)
    pool = genseq.key_pool(rng, ty, rng.choice(["small", "small", "wide", "extreme"]), psize)
    pre, present = prefix(rng, ty, order, pool, allow_delete)
    nthreads = rng.choice([2, 2, 2, 3, 3, 4])
    focus_src = present if (present and rng.random() < 0.7) else pool
    f0 = rng.randrange(len(focus_src))
    focus = focus_src[max(0, f0 - 2): f0 + 3]
    lines = ["cbegin %s %d" % (ty, order)] + pre
    for t in range(nthreads):
        nops = rng.choice([1, 1, 2, 2, 3, 4])
        lines.append("thread %d %s" % (t, " ; ".join(thread_prog(rng, pool, focus, profile, allow_delete, nops, ty))))
    return lines


def scaled_catalogue(types=None, shapes=((16, 10), (8, 5)), full=False):
    """The cursor-next-to-Delete and point-op-next-to-Delete configurations of `catalogue`
    at larger orders: a root with `nl` leaves at minimum occupancy (order/2 pairs), leaf j
    under-flowing while a cursor crosses it from the left, rests on it, or readers and
    writers work beside it; neighbours at minimum or one above. Explored under EVERY
    schedule. By default each configuration is generated for one key type (rotating);
    `full` generates all six."""
    cases = []
    tys = types or genseq.TYPES
    ci = 0
    for (o, nl) in shapes:
        h = o // 2
        for j in (1, nl // 2, nl - 2):
            for rich in ("none", "left", "right"):
                for cur_on in ("left", "child", "right"):
                    for ty in (tys if full else [tys[ci % len(tys)]]):
                        keys = genseq.asc_keys(ty, 2 * (nl * h + 1) + 4, __import__("random").Random(7))
                        k = keys[2::2][:nl * h + 1]      # loaded keys; odd positions are fillers
                        fill = keys[3::2]
                        pre = ["pre ins %s %d" % (x, i % 50) for i, x in enumerate(k)] + ["pre del %s" % k[-1]]
                        if rich == "left":
                            pre.append("pre ins %s 0" % fill[(j - 1) * h])
                        elif rich == "right":
                            pre.append("pre ins %s 0" % fill[(j + 1) * h])
                        start = {"left": k[(j - 1) * h], "child": k[j * h], "right": k[(j + 1) * h]}[cur_on]
                        steps = " ; ".join(["scan ; pair"] * (h + 3))
                        cur = "ns %s ; %s ; close" % (start, steps)
                        cases.append(["cbegin %s %d" % (ty, o)] + pre + ["thread 0 " + cur, "thread 1 del %s" % k[j * h + 1], "strategy dfs", "cend"])
                    ci += 1
                for ty in (tys if full else [tys[ci % len(tys)]]):
                    keys = genseq.asc_keys(ty, 2 * (nl * h + 1) + 4, __import__("random").Random(7))
                    k = keys[2::2][:nl * h + 1]
                    fill = keys[3::2]
                    pre = ["pre ins %s %d" % (x, i % 50) for i, x in enumerate(k)] + ["pre del %s" % k[-1]]
                    if rich == "left":
                        pre.append("pre ins %s 0" % fill[(j - 1) * h])
                    elif rich == "right":
                        pre.append("pre ins %s 0" % fill[(j + 1) * h])
                    cases.append(["cbegin %s %d" % (ty, o)] + pre + ["thread 0 get %s ; ins %s 5" % (k[(j + 1) * h], fill[j * h]),
                                                                    "thread 1 del %s" % k[j * h], "strategy dfs", "cend"])
                ci += 1
    return cases


def tall_catalogue(types=None, full=False, sizes=(9, 13, 17, 27)):
    """Three- and four-level trees at order 4, explored under EVERY schedule: a Delete that
    under-flows an internal node (borrow / merge one level above the leaves) and an Insert
    that splits an internal node, each next to a reader, a cursor start or a writer heading
    for the first or the last child."""
    cases = []
    tys = types or genseq.TYPES
    ci = 0
    for n in sizes:
        for variant in range(6 if n <= 13 else 5):
            ty = tys[ci % len(tys)]
            ci += 1
            keys = genseq.asc_keys(ty, 2 * n + 6, __import__("random").Random(7))
            k = keys[2::2][:n]
            fill = keys[3::2]
            pre = ["pre ins %s %d" % (x, i % 50) for i, x in enumerate(k)]
            last, first, mid = k[-1], k[0], k[n // 2]
            beyond = keys[2 * n + 4]
            if variant == 0:
                th = ["thread 0 del %s" % k[1], "thread 1 get %s ; get %s" % (last, first)]
            elif variant == 1:
                th = ["thread 0 del %s" % k[n // 2 + 1], "thread 1 ns %s ; scan ; pair ; scan ; pair ; close" % mid]
            elif variant == 2:
                th = ["thread 0 ins %s 1 ; ins %s 2" % (beyond, fill[n - 1]), "thread 1 get %s ; get %s" % (last, k[n - 2])]
            elif variant == 3:
                th = ["thread 0 del %s ; del %s" % (last, k[n - 2]), "thread 1 ns %s ; scan ; pair ; close" % k[n - 3]]
            elif variant == 4:
                th = ["thread 0 upd %s ya1" % last, "thread 1 upd %s a1 ; get %s" % (last, last)]
            else:
                th = ["thread 0 ins %s 1" % fill[0], "thread 1 del %s" % first, "thread 2 get %s" % k[1]]
            cases.append(["cbegin %s 4" % ty] + pre + th + ["strategy dfs", "cend"])
    return cases


def spine_cases(types=None, sizes=range(40, 140), nsched=3):
    """Order-4 trees loaded with n ascending (or descending) keys for EVERY n in a range, so
    that every combination of full / non-full nodes along the right (left) spine of a four-
    to six-level tree occurs; an Update, an Insert and a yielding Update then extend the
    spine while a reader and a cursor work at the same edge. A few random schedules each:
    the per-acquisition oracles and the event-log tie see every descent."""
    cases = []
    tys = types or genseq.TYPES
    for n in sizes:
        for side in ("right", "left"):
            ty = tys[(n + (side == "left")) % len(tys)]
            keys = genseq.asc_keys(ty, n + 12, __import__("random").Random(7))
            k = keys[6:n + 6]
            load = k if side == "right" else list(reversed(k))
            out = keys[n + 6:n + 12] if side == "right" else list(reversed(keys[:6]))
            edge = load[-1]
            pre = ["pre ins %s %d" % (x, i % 50) for i, x in enumerate(load)]
            cases.append(["cbegin %s 4" % ty] + pre + [
                "thread 0 upd %s a1 ; ins %s 1 ; upd %s ya1 ; upd %s a1" % (out[0], out[1], out[2], out[3]),
                "thread 1 get %s ; ns %s ; scan ; pair ; close ; upd %s a1" % (edge, load[-3], out[4]),
                "strategy random %d %d" % (1000 + n, nsched), "cend"])
    return cases


def _keys18(ty):
    """eighteen ascending key tokens; even positions are the main keys k[0..8],
    odd positions are fillers between them"""
    if ty == "str":
        return [str(48 + i) for i in range(18)]
    if ty in ("i32", "i64"):
        return [str(i - 4) for i in range(18)]
    if ty == "cmp":
        return ["%d#%d" % (i, i % 3) if i % 3 else str(i) for i in range(18)]
    return [str(i) for i in range(18)]


def catalogue(types=None):
    """Small hand-shaped configurations (order 4) explored under EVERY schedule:
    a writer that splits / borrows / merges next to a reader, cursor or writer."""
    cases = []
    for ty in (types or genseq.TYPES):
        kk = _keys18(ty)
        k = kk[0::2]
        fill = kk[1::2]
        load17 = ["pre ins %s %d" % (k[i], i) for i in range(1, 8)]      # {1,2}{3,4}{5,6,7}
        shapes = {
            "min-min-min": load17 + ["pre del %s" % k[7]],                            # {1,2}{3,4}{5,6}
            "rich-min-min": load17 + ["pre ins %s 0" % k[0], "pre del %s" % k[7]],   # {0,1,2}{3,4}{5,6}
            "min-rich-min": load17 + ["pre ins %s 0" % fill[3], "pre del %s" % k[7]],  # {1,2}{3,3+,4}{5,6}
            "min-min-rich": load17 + ["pre ins %s 8" % k[8]],                          # {1,2}{3,4}{5,6,7,8}
        }
        cur = "ns %s ; scan ; pair ; scan ; pair ; scan ; pair ; scan ; pair ; scan ; pair ; scan ; pair ; scan ; pair ; scan ; pair ; close"
        for name, pre in shapes.items():
            for dk in (k[1], k[3], k[5]):
                # cursor walking across the leaves while a leaf under-flows
                for start in (k[0], k[2], k[4]):
                    cases.append(["cbegin %s 4" % ty] + pre + ["thread 0 " + cur % start, "thread 1 del %s" % dk, "strategy dfs", "cend"])
                # point readers/writers next to the same delete
                cases.append(["cbegin %s 4" % ty] + pre + ["thread 0 get %s ; get %s" % (k[4], k[2]), "thread 1 del %s" % dk, "strategy dfs", "cend"])
            cases.append(["cbegin %s 4" % ty] + pre + ["thread 0 ins %s 9 ; get %s" % (fill[4], fill[4]), "thread 1 del %s ; get %s" % (k[3], fill[4]), "strategy dfs", "cend"])
        # search / insert / update while a leaf or the root splits
        full = ["pre ins %s %d" % (k[i], i) for i in (1, 3, 5, 7)]                       # full root leaf
        cases.append(["cbegin %s 4" % ty] + full + ["thread 0 ins %s 8 ; get %s" % (k[8], k[6]), "thread 1 ins %s 6 ; get %s" % (k[6], k[6]), "strategy dfs", "cend"])
        cases.append(["cbegin %s 4" % ty] + full + ["thread 0 get %s" % k[7], "thread 1 ins %s 6" % k[6], "thread 2 get %s" % k[5], "strategy dfs", "cend"])
        two = ["pre ins %s %d" % (k[i], i) for i in (1, 2, 3, 4, 5, 6)]                  # {1,2}{3,4,5,6}: full right leaf
        cases.append(["cbegin %s 4" % ty] + two + ["thread 0 get %s ; get %s" % (k[6], k[5]), "thread 1 ins %s 7" % k[7], "strategy dfs", "cend"])
        cases.append(["cbegin %s 4" % ty] + two + ["thread 0 upd %s a1 ; get %s" % (k[5], k[5]), "thread 1 upd %s a1" % k[5], "thread 2 ins %s 0" % k[0], "strategy dfs", "cend"])
        cases.append(["cbegin %s 4" % ty] + two + ["thread 0 upd %s ya1" % k[4], "thread 1 upd %s ya1" % k[4], "thread 2 upd %s a1" % k[4], "strategy dfs", "cend"])
        cases.append(["cbegin %s 4" % ty] + two + ["thread 0 upd %s ya1" % k[8], "thread 1 upd %s ya1" % k[8], "strategy dfs", "cend"])
        cases.append(["cbegin %s 4" % ty] + two + ["thread 0 upd %s ya1" % k[0], "thread 1 upd %s a1 ; get %s" % (k[0], k[0]), "strategy dfs", "cend"])
        cases.append(["cbegin %s 4" % ty] + two + ["thread 0 upd %s ya1" % fill[4], "thread 1 upd %s a1 ; get %s" % (fill[4], fill[4]), "strategy dfs", "cend"])
        # root collapse against readers and writers
        small = ["pre ins %s %d" % (k[i], i) for i in (1, 2, 3, 4, 5)] + ["pre del %s" % k[5]]   # {1,2}{3,4}
        cases.append(["cbegin %s 4" % ty] + small + ["thread 0 del %s" % k[1], "thread 1 get %s ; ins %s 8" % (k[4], k[8]), "strategy dfs", "cend"])
        cases.append(["cbegin %s 4" % ty] + small + ["thread 0 del %s" % k[3], "thread 1 " + cur % k[0], "strategy dfs", "cend"])
    return cases
