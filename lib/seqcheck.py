"""Sequential checks: PROOF (Lean build + audit) + TIE (model vs implementation)
+ ORACLE (on the implementation's outputs) + VERDICT."""
import json, os, random, re, sys, time
import vlib, genseq

KINDS = {
    "C01": {"search", "panic", "hang", "mutated", "crash", "callback"},
    "C02": {"scan", "crash"},
    "C05": {"callback"},
    "C08": {"shape"},
    "C09": {"locks", "hang", "crash"},
    "C11": {"search", "scan", "panic", "callback", "foreign", "hang", "crash", "mutated"},
    "C12": {"ctor", "panic", "search", "scan", "shape", "crash", "hang", "independence"},
}
MISMATCH_OPS = {
    "C01": {"ins", "upd", "del", "get", "snap", "bulk"},
    "C02": {"scan", "scand", "snap"},
    "C05": {"upd"},
    "C08": {"snap"},
    "C09": set(),
    "C11": {"ins", "upd", "del", "get", "snap", "scan", "scand", "bulk"},
    "C12": {"new", "chk", "ins", "upd", "del", "get", "scan", "scand", "snap", "bulk"},
}
# very wide nodes (orders 2048 and up): which properties run which part of genseq.huge_plan
HUGE_FOR = {"C01": "all", "C08": "all", "C11": "all", "C02": "2048"}
# very long leaf chains (order 4, >= 300 000 keys): one history per integer type and str
CHAIN_FOR = {"C02", "C09"}
PROFILES = {
    "C01": ["map", "map", "drain", "shape"],
    "C02": ["scan", "scan", "drain"],
    "C05": ["update"],
    "C08": ["shape", "drain", "map"],
    "C09": ["map", "scan", "drain"],
    "C11": ["extreme"],
    "C12": ["map"],
}

CORPUS_DIR = os.path.join(vlib.VERIF, "corpus")


def load_corpus(pid):
    hs = []
    if os.path.isdir(CORPUS_DIR):
        for fn in sorted(os.listdir(CORPUS_DIR)):
            if fn.endswith(".ops"):
                props = None
                lines = []
                for l in open(os.path.join(CORPUS_DIR, fn)):
                    l = l.rstrip("\n")
                    if l.startswith("# props:"):
                        props = l.split(":", 1)[1].split()
                    elif l and not l.startswith("#"):
                        lines.append(l)
                if props is None or pid in props:
                    for _, h in vlib.split_histories(lines):
                        hs.append(h)
    return hs


def gen_histories(pid, rng, n, types=None):
    hs = []
    types = types or genseq.TYPES
    for i in range(n):
        ty = types[i % len(types)]
        prof = rng.choice(PROFILES[pid])
        order = genseq.pick_order(rng)
        allow_delete = True
        if order == 2:
            # order 2 with deletes is the known finding KF-1: probed by a minority of histories
            allow_delete = rng.random() < 0.3
        hs.append(genseq.history(rng, ty, order, prof, allow_delete=allow_delete))
    return hs


def exhaustive_histories(ty, order, keys, length, allow_delete=True):
    """EVERY sequence of `length` operations over insert/delete of the given keys, each
    followed by a closing sweep (snapshot, lookups of every key, scans from every key)."""
    import itertools
    ops = ["ins %s 1" % k for k in keys] + (["del %s" % k for k in keys] if allow_delete else [])
    tail = ["snap"] + ["get %s" % k for k in keys] + ["scan %s -1" % k for k in keys]
    for seq in itertools.product(ops, repeat=length):
        yield ["begin", "new %s %d" % (ty, order)] + list(seq) + tail


def exhaustive_suite(pid):
    hs = []
    k5 = ["1", "2", "3", "4", "5"]
    # order 4: all length-6 sequences over 5 keys would be 10^6; take length 5 (100k) plus
    # length 7 over 3 keys (6^7 = 280k) to reach merges after splits
    hs += list(exhaustive_histories("i64", 4, k5, 5))
    hs += list(exhaustive_histories("i64", 4, ["1", "2", "3"], 7))
    hs += list(exhaustive_histories("cmp", 4, ["1", "1#1", "2", "3#2", "4"], 5))
    hs += list(exhaustive_histories("str", 2, ["_", "97", "97.98", "98"], 6, allow_delete=False))
    return hs


def relevant_failures(pid, res):
    out = []
    lines = res["lines"]
    order2del = any(l.startswith("new ") and l.split()[2] == "2" for l in lines) and any(l.startswith("del ") for l in lines)
    for f in res["failures"]:
        if pid == "C05" and f["kind"] in ("panic", "hang") and str(f.get("op", "")).startswith("upd "):
            out.append(f)   # an Update that does not return has not run its callback exactly once and stored the result
            continue
        if f["kind"] not in KINDS[pid]:
            continue
        if pid == "C12" and f["kind"] == "panic" and not str(f.get("op", "")).startswith("new "):
            if vlib.match_known(vlib.load_known(), "C01", lines, f):
                continue
        if pid == "C08" and order2del:
            continue  # property: order 2 shape "with deletes excluded by the known finding"
        out.append(f)
    return out


def relevant_mismatch(pid, res):
    m = res["mismatch"]
    if not m:
        return None
    j, a, b = m
    op = res["lines"][j].split()[0]
    if op in MISMATCH_OPS[pid]:
        return m
    # a mismatch that makes the two sides diverge for good (panic/dead on one side)
    if ("panic" in (a, b) or "dead" in (a, b) or a.startswith("<")) and MISMATCH_OPS[pid]:
        return m
    return None


def hdr(lines):
    for l in lines:
        if l.startswith("new "):
            return l.split()
    return ["new", "?", "0"]


def stats_of(results):
    st = dict(ops={}, heights={}, types={}, orders={}, panics=0, scans=0, scan_start_classes={}, slice_values=0,
              max_node_width=0)
    for r in results:
        ls = r["lines"]
        t = hdr(ls)
        st["types"][t[1]] = st["types"].get(t[1], 0) + 1
        st["orders"][t[2]] = st["orders"].get(t[2], 0) + 1
        h = 0
        for l, o in zip(ls, r["model"]):
            k = l.split()[0]
            st["ops"][k] = st["ops"].get(k, 0) + 1
            if k in ("ins", "upd") and "[" in l:
                st["slice_values"] += 1      # a []int64 stored or built by a callback (uncomparable value)
            if o.startswith("snap "):
                if len(o) > 4000:
                    # widest node of the snapshot: keys between `{` and `|` or `}`
                    for seg in o.split("{")[1:]:
                        w = seg.split("}", 1)[0].split("|", 1)[0].count(" ") + 1
                        if w > st["max_node_width"]:
                            st["max_node_width"] = w
                d = 0
                for ch in o[5:]:
                    if ch == "I":
                        d += 1
                    elif ch == "L":
                        break
                h = max(h, d)
            if o == "panic":
                st["panics"] += 1
            if k == "scan" and o.startswith("scan"):
                body = o.split()
                cls = "empty" if len(body) == 2 else ("exact" if body[1].split("=")[0] == l.split()[1] else "between")
                st["scan_start_classes"][cls] = st["scan_start_classes"].get(cls, 0) + 1
        st["heights"][str(h)] = st["heights"].get(str(h), 0) + 1
    return st


def nontrivial(res):
    """non-trivial history: the model trace shows at least one structural change
    (an internal node appears in some snapshot) or a scan that crosses a leaf."""
    return any(o.startswith("snap I") for o in res["model"])


def check(pid, tier, extra_hook=None, sink=None):
    t0 = time.time()
    sc = vlib.Scratch()
    rc = 1
    try:
        rc = _check(pid, tier, sc, t0, extra_hook, sink)
    finally:
        sc.cleanup()
    return rc


def _check(pid, tier, sc, t0, extra_hook, sink=None):
    rng = random.Random(vlib.SEED * 1000003 + int(pid[1:]))
    known = vlib.load_known()
    violations = []   # (tag, replay dict)
    known_hits = {}
    notes = []
    bindir, err = vlib.build_harness(sc)
    if bindir is None:
        p = vlib.write_replay(pid, "build", dict(property=pid, what="the harness (real package + verif hook) no longer builds against the working tree",
                                                  broken="correspondence: harness build", log=err[-3000:]))
        print("VIOLATION property=%s replay=%s no-failing-input-found" % (pid, p))
        vlib.write_evidence(pid, tier, "proof", dict(obligations=1, discharged=0, checker_cmd="bin/check %s %s" % (pid, tier),
                            trusted_base=vlib.TRUSTED_BASE, explanation="harness build failed"), time.time() - t0, 1, [])
        return 1
    proof = vlib.proof_step(pid, bindir)
    tie_broken = []   # descriptions
    if proof["problems"]:
        tie_broken.append(dict(kind="proof", detail=proof["problems"]))
    import factcheck
    facts = factcheck.run(bindir if os.path.exists(os.path.join(bindir, "factcheck")) else bindir, pid)
    if facts["problems"]:
        tie_broken.append(dict(kind="extracted-facts", detail=facts["problems"][:6]))
    # canaries: deliberately wrong models must be told apart from the implementation
    canary_note = run_canaries(bindir, sc)
    if canary_note:
        print("ERROR: harness canary failed: " + canary_note)
        return 2
    n = {"quick": 360, "thorough": 12000}[tier]
    if pid == "C12":
        n = n // 6
    hs = load_corpus(pid) + gen_histories(pid, rng, n)
    exhaustive_n = 0
    if tier == "thorough" and pid in ("C01", "C02", "C08"):
        ex = exhaustive_suite(pid)
        exhaustive_n = len(ex)
        hs = hs + ex
    large_n = 0
    heavy = []          # (estimated cost, history): run first, one per shard
    gen_of = {}         # id(history) -> the generator call that rebuilds it (recorded in replays)
    if pid in ("C01", "C02", "C08", "C09"):
        # wide nodes and tall trees: the states size-dependent code paths need
        plan = genseq.LARGE_QUICK if tier == "quick" else genseq.LARGE_THOROUGH * 3
        for i, (o, nk) in enumerate(plan):
            # one pointer-free and one pointer-carrying key type per size
            heavy.append((nk * 3, genseq.large_history(rng, ["i32", "i64", "u32", "u64"][(i + vlib.SEED) % 4], o, nk)))
            heavy.append((nk * 3, genseq.large_history(rng, ["str", "cmp"][(i + vlib.SEED) % 2], o, nk)))
        if tier == "thorough" and pid in ("C01", "C08"):
            heavy.append((10 ** 7, genseq.large_history(rng, "u64", 1024, 530000)))
            heavy.append((7000, genseq.large_history(rng, "str", 64, 2300)))
        large_n = 2 * len(plan)
    huge_plan = []
    if pid in HUGE_FOR:
        # very wide nodes: orders 2048, 4096, 8192 (thorough: 16384 too), more than `order` keys
        subs = [vlib.SEED] if tier == "quick" else [vlib.SEED, vlib.SEED + 1000003]
        for sub in subs:
            for ty, o in genseq.huge_plan(sub, tier):
                if HUGE_FOR[pid] != "all" and str(o) != HUGE_FOR[pid]:
                    continue
                h = genseq.huge_history(sub, ty, o, tier)
                gen_of[id(h)] = dict(fn="huge_history", seed=sub, type=ty, order=o, tier=tier)
                heavy.append((len(h) * o // 400, h))
                huge_plan.append("%s/%d" % (ty, o))
    chain_plan = []
    if pid in CHAIN_FOR:
        # very long leaf chains: order 4, >= 300 000 ascending keys, every integer type and str
        nkeys = 300000 if tier == "quick" else 600000
        for ty in genseq.CHAIN_TYPES:
            h = genseq.chain_history(vlib.SEED, ty, nkeys)
            gen_of[id(h)] = dict(fn="chain_history", seed=vlib.SEED, type=ty, nkeys=nkeys, order=4)
            heavy.append((nkeys // 3, h))
            chain_plan.append("%s/4/%d" % (ty, nkeys))
    if extra_hook:
        hs = extra_hook(rng, tier) + hs
    # the heavy histories go first, the most expensive ones to shards of their own (history i
    # runs in shard i mod shards); the second round is dealt out in the opposite direction
    shards = vlib.NCPU * 2 if len(heavy) > vlib.NCPU // 2 else vlib.NCPU
    heavy.sort(key=lambda ch: -ch[0])
    heavy = heavy[:shards] + heavy[shards:][::-1]
    hs = [h for _, h in heavy] + hs
    results = vlib.run_seq_parallel(bindir, sc, "main", hs, shards=shards)
    first_mismatch = None
    seen_fail_keys = set()
    # small failing inputs first: they make the better replays
    for r in sorted(results, key=lambda r: len(r["lines"])):
        fs = relevant_failures(pid, r)
        for f in fs:
            kf = vlib.match_known(known, pid, r["lines"], f)
            if kf:
                known_hits.setdefault(kf["id"], (kf, f, r))
                continue
            key = (f["kind"], f.get("detail", "")[:40])
            if len(violations) < 3 and key not in seen_fail_keys:
                seen_fail_keys.add(key)
                violations.append(("oracle", make_replay(pid, bindir, sc, r, f, gen_of.get(id(r["lines"])))))
        if not fs:
            m = relevant_mismatch(pid, r)
            if m and first_mismatch is None:
                # a mismatch caused by a known finding's panic is not a tie failure
                if not any(vlib.match_known(known, p2, r["lines"], f) for f in r["failures"] for p2 in [pid]):
                    first_mismatch = (r, m)
    if first_mismatch:
        r, m = first_mismatch
        tb = dict(kind="correspondence", line=m[0], op=r["lines"][m[0]], impl=m[1][:2000], model=m[2][:2000], history=r["lines"][:m[0] + 1])
        if id(r["lines"]) in gen_of:
            tb["generator"] = gen_of[id(r["lines"])]
            tb["regenerate"] = REGEN % json.dumps(tb["generator"])
        tie_broken.append(tb)
    searched = 0
    if tie_broken and not violations:
        # SEARCH: the proof or the tie no longer checks; look harder for a failing input
        budget = {"quick": 3000, "thorough": 40000}[tier]
        rng2 = random.Random(vlib.SEED * 7919 + 17)
        extra = gen_histories(pid, rng2, budget)
        res2 = vlib.run_seq_parallel(bindir, sc, "search", extra)
        searched = len(extra)
        for r in res2:
            for f in relevant_failures(pid, r):
                if vlib.match_known(known, pid, r["lines"], f):
                    continue
                violations.append(("oracle", make_replay(pid, bindir, sc, r, f)))
                break
            if violations:
                break
        results += res2
    for kid, (kf, f, r) in known_hits.items():
        print("KNOWN-FINDING: property=%s %s: %s [%s; op `%s` at order %s, type %s: %s]" % (
            pid, kid, kf["title"], f["kind"], f.get("op"), f.get("order"), f.get("type"), f.get("site", "")[:120]))
    rc = 0
    nviol = 0
    for tag, rep in violations:
        p = vlib.write_replay(pid, "%s%d" % (tag, nviol), rep)
        print("VIOLATION property=%s replay=%s" % (pid, p))
        nviol += 1
        rc = 1
    if tie_broken and not violations:
        rep = dict(property=pid, what="the machine-checked link no longer checks and no failing input was found",
                   broken=tie_broken, searched_histories=searched, seed=vlib.SEED,
                   theorem_file="lean/Gobptree/Props/%s.lean" % pid)
        p = vlib.write_replay(pid, "tie", rep)
        print("VIOLATION property=%s replay=%s no-failing-input-found" % (pid, p))
        nviol += 1
        rc = 1
    st = stats_of(results)
    # also inside the distribution: props.both keeps only that part of the sequential half's
    # coverage (as `sequential_distribution`) for the properties with a concurrent half
    st.update(huge_order_histories=len(huge_plan), huge_order_plan=huge_plan, large_histories=large_n,
              long_chain_histories=len(chain_plan), long_chain_plan=chain_plan)
    distinct = len({vlib.trace_hash(r["model"]) for r in results if nontrivial(r)})
    samples = [r["lines"][:12] for r in results[len(results) // 2: len(results) // 2 + 2]]
    cov = dict(obligations=proof["obligations"], discharged=proof["discharged"],
               checker_cmd="cd /verif/lean && lake build Gobptree.Props.%s && lake env lean Gobptree/Props/%s.lean  (#print axioms)" % (pid, pid),
               trusted_base=vlib.TRUSTED_BASE, theorems=proof["theorems"],
               evaluations=len(results), distinct_nontrivial=distinct,
               rule="histories = corpus + seeded random op sequences over all six tree types; non-trivial = the model trace contains a snapshot with an internal node (at least one split happened); distinct = distinct SHA-1 of the model's output trace",
               samples=samples, traces_validated_against_impl=len(results),
               disagreements_checked=sum(1 for r in results if r["mismatch"]),
               known_findings=sorted(known_hits), search_histories=searched, distribution=st,
               exhaustive_histories=exhaustive_n, large_histories=large_n,
               huge_order_histories=len(huge_plan), huge_order_plan=huge_plan,
               long_chain_histories=len(chain_plan), long_chain_plan=chain_plan,
               long_chain_note=("order 4, one `bulk` load, full scan compared as a digest (count, first, last, FNV-1a) with the map oracle AND the Lean model, TryLock sweeps, operations on the last keys" if chain_plan else ""),
               slice_values=st["slice_values"], max_node_width=st["max_node_width"],
               exhaustive_note=("every sequence of 5 insert/delete operations over 5 keys (i64 and Comparable with order-equivalent keys), every sequence of 7 over 3 keys at order 4, every sequence of 6 inserts over 4 string keys at order 2; each followed by a snapshot, all lookups and scans from every key" if exhaustive_n else ""),
               proof_problems=proof["problems"])
    assumptions = ["callbacks are pure; single goroutine", "Go slice semantics as modelled in Slice.lean"]
    if sink is not None:
        sink.append((cov, nviol, assumptions))
    else:
        vlib.write_evidence(pid, tier, "proof", cov, time.time() - t0, nviol, assumptions)
    return rc


REGEN = "python3 -c 'import sys,json; sys.path.insert(0,\"/verif/lib\"); import genseq; print(\"\\n\".join(genseq.regen(json.loads(sys.argv[1]))))' '%s'"


def impl_fails(bindir, sc, lines, kind):
    """Does the implementation-side oracle still report a failure of this kind on `lines`?
    (seqrun only: minimisation does not need the model, which is the slow side on wide nodes)"""
    import subprocess
    opsf, oraf = sc.path("min1.ops"), sc.path("min1.ora")
    with open(opsf, "w") as fo:
        fo.write("\n".join(lines) + "\n")
    if os.path.exists(oraf):
        os.remove(oraf)
    with open(opsf) as fin:
        subprocess.run([os.path.join(bindir, "seqrun"), "-oracle", oraf], stdin=fin, stdout=subprocess.DEVNULL, stderr=subprocess.DEVNULL)
    if not os.path.exists(oraf):
        return False
    for l in open(oraf):
        l = l.strip()
        if l and json.loads(l).get("kind") == kind:
            return True
    return False


HEAVY_LINES = 3000
heavy_minimised = [0]


def make_replay(pid, bindir, sc, r, f, gen=None):
    lines = r["lines"][: max(1, f["line"])]
    kind = f["kind"]
    heavy = len(lines) > HEAVY_LINES
    ntail = 1      # lines at the end that the bulk reductions keep (the failing op)

    def still(cand):
        if kind != "crash":
            return impl_fails(bindir, sc, cand, kind)
        rr = vlib.run_seq_batch(bindir, sc, "min", [cand])[0]
        return any(x["kind"] == kind for x in rr["failures"])
    try:
        if still(lines):
            if heavy and kind in ("shape", "locks"):
                # found by a thinned-out per-op sweep (`opt sweep k`): which ops are swept depends on
                # the op count; a sweep at the end makes the failure independent of it
                cand = lines + ["snap", "locks"]
                if still(cand):
                    lines, ntail = cand, 3
            if heavy:
                # a long prefix of a generated history: first drop the lines that do not change
                # the tree (all of a kind at once; the failing line, the last one, stays)
                for drop in (("get",), ("scan", "scand", "locks"), ("snap",), ("upd",)):
                    cand = [l for l in lines[:-ntail] if l.split()[0] not in drop] + lines[-ntail:]
                    if len(cand) < len(lines) and still(cand):
                        lines = cand
                # one long minimisation per check is enough (every attempt re-runs the prefix)
                secs = 25 if heavy_minimised[0] == 0 else 4
                heavy_minimised[0] += 1
                lines = vlib.minimise(bindir, sc, lines, still, seconds=secs)
            else:
                lines = vlib.minimise(bindir, sc, lines, still)
        rr = vlib.run_seq_batch(bindir, sc, "min", [lines])[0]
        ff = [x for x in rr["failures"] if x["kind"] == kind]
        if ff:
            f = ff[0]
    except Exception as e:  # minimisation is best effort
        pass
    rep = dict(property=pid, kind=kind, type=hdr(lines)[1], order=int(hdr(lines)[2]),
               ops=lines, failing_op=f.get("op"), observed=(f.get("detail") or "")[:4000], site=f.get("site", ""),
               seed=vlib.SEED, how="bin/check --replay <this file>")
    if gen:
        # `ops` is the (time-bounded) minimisation of a prefix of a generated history; this is
        # the call that rebuilds the whole history
        rep["generator"] = gen
        rep["regenerate"] = REGEN % json.dumps(gen)
    return rep


CANARIES = [
    ("minfull", ["begin", "new i64 4"] + ["ins %d %d" % (i, i) for i in range(1, 9)] + ["del 3", "snap", "del 4", "snap", "ins 9 9", "snap", "get 7", "get 8"]),
    ("norefresh", ["begin", "new i64 4", "ins 79 1", "ins 15 1", "upd 28 c1", "ins 95 1", "upd 10 c1", "snap", "del 95", "snap", "get 28"]),
    ("clamped", ["begin", "new i64 4", "ins 8 1", "scan 9 -1"]),
]


def run_canaries(bindir, sc):
    """Each deliberately wrong model variant must disagree with the implementation
    on its witness history; if one agrees, the tie is blind and the check is
    broken. (Run only once the repairs are in the tree: see known_findings.json.)"""
    if os.environ.get("VERIF_SKIP_CANARY"):
        return None
    for variant, h in CANARIES:
        r = vlib.run_seq_batch(bindir, sc, "canary_" + variant, [h], variant=variant, oracle=False)[0]
        r0 = vlib.run_seq_batch(bindir, sc, "canary0_" + variant, [h], variant=None, oracle=False)[0]
        if r0["mismatch"] is not None:
            return None  # the current model itself disagrees: reported by the tie, not by the canary
        if r["mismatch"] is None:
            return "model variant %s is indistinguishable from the implementation on its witness" % variant
    return None


def replay(path):
    rep = json.load(open(path))
    sc = vlib.Scratch()
    try:
        bindir, err = vlib.build_harness(sc)
        if bindir is None:
            print(err)
            return 2
        if "ops" not in rep:
            print(json.dumps(rep, indent=1)[:4000])
            return 1
        r = vlib.run_seq_batch(bindir, sc, "replay", [rep["ops"]])[0]
        for l, a, b in zip(r["lines"], r["impl"], r["model"] + [""] * len(r["lines"])):
            print("%-24s impl: %-50s model: %s" % (l[:60], a[:50], b[:50]))
        for f in r["failures"]:
            print("ORACLE", json.dumps(f))
        return 1 if r["failures"] or r["mismatch"] else 0
    finally:
        sc.cleanup()
