"""C07: PROOF (access-discipline theorems on the small-step model) + TIE (lock/field
skeleton extracted from the sources) + ORACLE (Go race detector on real goroutines
with the real sync.Mutex) + ORACLE (write frame of every scheduler step on the shadow
copy under the deterministic scheduler: the implementation side of C07_write_frame)."""
import os, random, re, subprocess, time
import vlib


def check(pid, tier):
    t0 = time.time()
    sc = vlib.Scratch()
    try:
        return _check(pid, tier, sc, t0)
    finally:
        sc.cleanup()


def _check(pid, tier, sc, t0):
    bindir, err = vlib.build_harness(sc)
    if bindir is None:
        p = vlib.write_replay(pid, "build", dict(property=pid, what="harness build failed", log=err[-3000:]))
        print("VIOLATION property=%s replay=%s no-failing-input-found" % (pid, p))
        return 1
    proof = vlib.proof_step(pid, bindir)
    tie_broken = []
    if proof["problems"]:
        tie_broken.append(dict(kind="proof", detail=proof["problems"]))
    import factcheck
    facts = factcheck.run(bindir, pid)
    if facts["problems"]:
        tie_broken.append(dict(kind="facts", detail=facts["problems"]))
    src = os.path.join(os.path.dirname(bindir), "src")
    env = dict(vlib.GOENV, CGO_ENABLED="1")
    exe = os.path.join(bindir, "stress_race")
    r = vlib.run(["go", "build", "-race", "-tags", "verif", "-o", exe, "./cmd/stress"], cwd=src, env=env)
    if r.returncode != 0:
        tie_broken.append(dict(kind="harness", detail="race build failed: " + r.stdout[-1500:]))
    rounds = {"quick": 6, "thorough": 150}[tier]
    violations = []
    runs = 0
    reports = []
    if r.returncode == 0:
        nproc = 4 if tier == "quick" else 12
        procs = []
        for i in range(nproc):
            procs.append(subprocess.Popen([exe, "-seed", str(vlib.SEED * 100 + i), "-rounds", str(max(1, rounds // nproc + 1))],
                                          stdout=subprocess.PIPE, stderr=subprocess.STDOUT, text=True, errors="replace",
                                          env=dict(env, GORACE="halt_on_error=1")))
        for i, p in enumerate(procs):
            out, _ = p.communicate()
            runs += 1
            if "DATA RACE" in out:
                reports.append(dict(kind="race", seed=vlib.SEED * 100 + i, report=out[out.index("WARNING: DATA RACE"):][:6000]))
            elif "STRESS-FAIL" in out:
                reports.append(dict(kind="stress", seed=vlib.SEED * 100 + i, report=out[-3000:]))
            elif p.returncode != 0:
                reports.append(dict(kind="crash", seed=vlib.SEED * 100 + i, report=out[-3000:]))
    # write-frame oracle: a step of a thread changes own fields only of nodes whose mutex the
    # thread holds during the step, and the root pointer only under rootMutex
    import conccheck
    wf = conccheck.writeframe_check(pid, tier, sc, random.Random(vlib.SEED * 1000003 + 107))
    if wf["build_error"]:
        tie_broken.append(dict(kind="harness", detail="shadow build failed: " + wf["build_error"][-1500:]))
    for e in wf["errs"]:
        tie_broken.append(dict(kind="harness", detail="concrun -writeframe exited %d: %s" % e))
    nviol = 0
    for v in wf["violations"]:
        p = vlib.write_replay(pid, "conc%d" % nviol, v)
        print("VIOLATION property=%s replay=%s" % (pid, p))
        nviol += 1
    nrace = 0
    for rep in reports[:3]:
        if rep["kind"] == "race":
            v = dict(property=pid, engine="race", kind="race", observed=rep["report"], seed=rep["seed"],
                     how="cd <scratch>/src && go build -race ./cmd/stress && ./stress -seed %d" % rep["seed"])
            p = vlib.write_replay(pid, "race%d" % nrace, v)
            print("VIOLATION property=%s replay=%s" % (pid, p))
            nviol += 1
            nrace += 1
    if not nviol and (tie_broken or reports):
        rep = dict(property=pid, what="the machine-checked link no longer checks (or the stress run failed without a race report) and no race was observed",
                   broken=tie_broken, other_reports=reports[:2])
        p = vlib.write_replay(pid, "tie", rep)
        print("VIOLATION property=%s replay=%s no-failing-input-found" % (pid, p))
        nviol += 1
    cov = dict(obligations=proof["obligations"], discharged=proof["discharged"],
               checker_cmd="cd /verif/lean && lake build Gobptree.Props.C07 && lake env lean Gobptree/Props/C07.lean",
               trusted_base=vlib.TRUSTED_BASE + ["Go race detector (implementation-side oracle)", "Go memory model: unlock->lock of one mutex orders accesses (assumed)"],
               theorems=proof["theorems"], evaluations=runs * 12 * max(1, rounds // 4 + 1), distinct_nontrivial=runs * 12,
               rule="one evaluation = one round of 8 goroutines x 400 mixed operations on one (type, order) pair under the race detector; distinct = distinct (seed, type, order)",
               samples=[dict(cmd="stress -seed %d" % (vlib.SEED * 100), types="all six", orders=[4, 64])],
               facts=facts.get("summary"), proof_problems=proof["problems"],
               writeframe=wf.get("stats"),
               writeframe_rule="every case (corpus + catalogues + random programs, all six key types) runs on the shadow copy with `concrun -writeframe`, once with scheduling points at Lock only and once with Unlock as a scheduling point too; steps_checked = scheduler steps whose before/after structural snapshots were diffed against the mutexes the stepping task held or acquired; a report is a C07 violation replayed by bin/check --replay")
    vlib.write_evidence(pid, tier, "proof", cov, time.time() - t0, nviol,
                        ["PARTIAL: hardware/compiler behaviour is outside any Lean model; the step from 'separated by unlock->lock of one mutex' to 'ordered by happens-before' is the Go memory model's rule for sync.Mutex"])
    return 1 if nviol else 0
