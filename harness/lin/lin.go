// Package lin is a small linearizability checker (Wing–Gong search with
// memoisation) for histories of a key→value map with successor queries.
// It is independent of the Lean model: it is the implementation-side oracle of
// C03/C04/C05.
package lin

import (
	"fmt"
	"sort"
	"strings"
)

// Op is one completed or pending operation.
type Op struct {
	Tid    int
	Idx    int // index within the thread's program
	Kind   string // ins | upd | del | get | succ | nop
	Key    string // canonical key (equivalence class representative)
	Val    string // ins: value stored; get: value observed ("absent" or "val:x"); upd: observed callback argument
	Store  string // upd: value stored (f applied to the observed argument)
	Strict bool   // succ: strictly greater than Key (false: >= Key)
	Res    string // succ: resulting canonical key, or "" for none
	Inv    int    // position of invocation in the global log
	Ret    int    // position of response; -1 = pending (may or may not have taken effect)
	Text   string
}

type Checker struct {
	Less func(a, b string) bool
	ops  []Op
	memo map[string]bool
	init map[string]string
	final map[string]string // nil = unknown
	budget int
}

// Check returns "" if the history is linearizable w.r.t. the map specification
// starting from init and (if final != nil) ending in final; otherwise a
// description. Returns "budget" if the search budget ran out (treated as
// inconclusive by the caller).
func Check(ops []Op, init, final map[string]string, less func(a, b string) bool) string {
	if len(ops) > 62 {
		return "budget"
	}
	c := &Checker{Less: less, ops: ops, memo: map[string]bool{}, init: init, final: final, budget: 2000000}
	st := map[string]string{}
	for k, v := range init {
		st[k] = v
	}
	var doneMask uint64
	if c.search(doneMask, st) {
		return ""
	}
	if c.budget <= 0 {
		return "budget"
	}
	var sb strings.Builder
	sb.WriteString("no linearization exists for: ")
	for _, o := range ops {
		sb.WriteString(fmt.Sprintf("[t%d#%d %s inv@%d ret@%d] ", o.Tid, o.Idx, o.Text, o.Inv, o.Ret))
	}
	return sb.String()
}

func stateKey(mask uint64, st map[string]string) string {
	ks := make([]string, 0, len(st))
	for k := range st {
		ks = append(ks, k)
	}
	sort.Strings(ks)
	var sb strings.Builder
	sb.WriteString(fmt.Sprint(mask))
	for _, k := range ks {
		sb.WriteString("|" + k + "=" + st[k])
	}
	return sb.String()
}

func (c *Checker) search(mask uint64, st map[string]string) bool {
	c.budget--
	if c.budget <= 0 {
		return false
	}
	// all completed ops linearized?
	allDone := true
	minRet := int(^uint(0) >> 1)
	for i, o := range c.ops {
		if mask&(1<<uint(i)) != 0 {
			continue
		}
		if o.Ret >= 0 {
			allDone = false
			if o.Ret < minRet {
				minRet = o.Ret
			}
		}
	}
	if allDone {
		// pending ops may still be applied or not; try to match final
		if c.final == nil || sameMap(st, c.final) {
			return true
		}
	}
	key := stateKey(mask, st)
	if v, ok := c.memo[key]; ok {
		return v
	}
	res := false
	for i, o := range c.ops {
		if mask&(1<<uint(i)) != 0 {
			continue
		}
		if o.Inv > minRet {
			continue // some other unlinearized op returned before this one was invoked
		}
		ok, undo := c.apply(o, st)
		if ok {
			if c.search(mask|(1<<uint(i)), st) {
				res = true
			}
		}
		undo()
		if res {
			break
		}
	}
	c.memo[key] = res
	return res
}

func sameMap(a, b map[string]string) bool {
	if len(a) != len(b) {
		return false
	}
	for k, v := range a {
		if w, ok := b[k]; !ok || w != v {
			return false
		}
	}
	return true
}

func (c *Checker) apply(o Op, st map[string]string) (bool, func()) {
	noop := func() {}
	old, had := st[o.Key]
	restore := func() {
		if had {
			st[o.Key] = old
		} else {
			delete(st, o.Key)
		}
	}
	switch o.Kind {
	case "nop":
		return true, noop
	case "ins":
		st[o.Key] = o.Val
		return true, restore
	case "del":
		delete(st, o.Key)
		return true, restore
	case "get":
		cur := "absent"
		if had {
			cur = "val:" + old
		}
		if o.Ret >= 0 && cur != o.Val {
			return false, noop
		}
		return true, noop
	case "upd":
		cur := "absent"
		if had {
			cur = old
		}
		if o.Val != "?" && cur != o.Val {
			return false, noop
		}
		st[o.Key] = o.Store
		return true, restore
	case "succ":
		best := ""
		for k := range st {
			ok := c.Less(o.Key, k) || (!o.Strict && !c.Less(k, o.Key))
			if ok && (best == "" || c.Less(k, best)) {
				best = k
			}
		}
		if o.Ret >= 0 && best != o.Res {
			return false, noop
		}
		return true, noop
	}
	return false, noop
}
