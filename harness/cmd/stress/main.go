// stress runs real goroutines against the real package (real sync.Mutex);
// built with -race it is the implementation-side oracle of C07. It also checks
// that persistent keys are never missed and that every goroutine finishes
// (a watchdog turns a hang into a report).
package main

import (
	"flag"
	"fmt"
	"math/rand"
	"os"
	"strconv"
	"sync"
	"time"

	"verifharness/adapter"
)

func keyTok(ty string, n int) string {
	switch ty {
	case "str":
		s := strconv.Itoa(n)
		out := ""
		for i := 0; i < len(s); i++ {
			if i > 0 {
				out += "."
			}
			out += strconv.Itoa(int(s[i]))
		}
		return out
	}
	return strconv.Itoa(n)
}

func main() {
	seed := flag.Int64("seed", 1, "seed")
	rounds := flag.Int("rounds", 20, "rounds per type/order")
	workers := flag.Int("workers", 8, "goroutines")
	nops := flag.Int("ops", 400, "operations per goroutine")
	flag.Parse()
	bad := 0
	for _, ty := range adapter.Types {
		for _, order := range []int{4, 64} {
			for round := 0; round < *rounds; round++ {
				tr, err := adapter.New(ty, order)
				if err != nil {
					fmt.Println("STRESS-FAIL ctor", err)
					os.Exit(1)
				}
				// persistent keys: multiples of 10 are inserted up front and never deleted
				for i := 0; i < 40; i++ {
					tr.Insert(keyTok(ty, i*10), int64(i))
				}
				var wg sync.WaitGroup
				done := make(chan struct{})
				for w := 0; w < *workers; w++ {
					wg.Add(1)
					go func(w int) {
						defer wg.Done()
						rng := rand.New(rand.NewSource(*seed*1000003 + int64(round)*101 + int64(w)))
						for i := 0; i < *nops; i++ {
							k := rng.Intn(400)
							if k%10 == 0 {
								k++
							}
							kt := keyTok(ty, k)
							switch rng.Intn(10) {
							case 0, 1, 2:
								tr.Insert(kt, int64(i))
							case 3, 4:
								tr.Delete(kt)
							case 5:
								tr.Update(kt, func(old interface{}, ok bool) interface{} {
									if n, isInt := old.(int64); ok && isInt {
										return n + 1
									}
									return int64(1)
								})
							case 6, 7:
								p := rng.Intn(40) * 10
								if _, ok := tr.Search(keyTok(ty, p)); !ok {
									fmt.Printf("STRESS-FAIL persistent key %d missed by Search (type %s order %d)\n", p, ty, order)
									bad++
								}
							default:
								c := tr.NewScanner(keyTok(ty, rng.Intn(400)))
								n := rng.Intn(30)
								for j := 0; j < n && c.Scan(); j++ {
									c.Pair()
								}
								c.Close()
							}
						}
					}(w)
				}
				go func() { wg.Wait(); close(done) }()
				select {
				case <-done:
				case <-time.After(60 * time.Second):
					fmt.Printf("STRESS-FAIL hang: goroutines did not finish within 60s (type %s order %d round %d)\n", ty, order, round)
					os.Exit(3)
				}
			}
		}
	}
	if bad > 0 {
		os.Exit(1)
	}
	fmt.Println("stress ok")
}
