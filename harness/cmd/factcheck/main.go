// factcheck extracts structural facts from the current sources with go/ast and
// compares them with what the Lean model and the "one template, six types"
// argument rely on:
//   1. template identity: every tree file has, function by function, the same
//      statement skeleton and the same sequence of lock/unlock/defer calls as
//      int64.go after renaming (C11, and the licence for one parametric model);
//   2. no package-level variables in non-test files (C12: trees share no state);
//   3. every New<T>Tree validates first, returns nil on error and otherwise a
//      composite literal whose root is a freshly allocated empty leaf (C12);
//   4. the lock/unlock skeleton of every function equals the committed
//      expectation (harness/factcheck_expected.json) that the small-step model
//      was written against (C07 C09 C10).
// Output: JSON {problems:[{props,msg}], summary}. Exit 0 always (1 on problems is
// informational); the caller decides.
package main

import (
	"encoding/json"
	"fmt"
	"go/ast"
	"go/parser"
	"go/token"
	"os"
	"path/filepath"
	"sort"
	"strings"
)

type problem struct {
	Props []string `json:"props"`
	Msg   string   `json:"msg"`
}

var files = []struct{ file, low, up string }{
	{"int64.go", "int64", "Int64"}, {"int32.go", "int32", "Int32"}, {"uint32.go", "uint32", "Uint32"},
	{"uint64.go", "uint64", "Uint64"}, {"string.go", "string", "String"}, {"comparable.go", "comparable", "Comparable"},
}

func norm(name, low, up string) string {
	name = strings.ReplaceAll(name, up, "T_")
	name = strings.ReplaceAll(name, low, "t_")
	return name
}

// skeleton of a function body: statement kinds with nesting, plus lock events
func skel(n ast.Node, low, up string, sb *strings.Builder, locks *[]string) {
	switch x := n.(type) {
	case nil:
	case *ast.BlockStmt:
		sb.WriteString("{")
		for _, s := range x.List {
			skel(s, low, up, sb, locks)
		}
		sb.WriteString("}")
	case *ast.IfStmt:
		sb.WriteString("if")
		if x.Init != nil {
			sb.WriteString("(init)")
			skel(x.Init, low, up, sb, locks)
		}
		skel(x.Body, low, up, sb, locks)
		if x.Else != nil {
			sb.WriteString("else")
			skel(x.Else, low, up, sb, locks)
		}
	case *ast.ForStmt:
		sb.WriteString("for")
		skel(x.Body, low, up, sb, locks)
	case *ast.RangeStmt:
		sb.WriteString("range")
		skel(x.Body, low, up, sb, locks)
	case *ast.SwitchStmt:
		sb.WriteString("switch")
		skel(x.Body, low, up, sb, locks)
	case *ast.TypeSwitchStmt:
		sb.WriteString("tswitch")
		skel(x.Body, low, up, sb, locks)
	case *ast.CaseClause:
		sb.WriteString("case{")
		for _, s := range x.Body {
			skel(s, low, up, sb, locks)
		}
		sb.WriteString("}")
	case *ast.LabeledStmt:
		sb.WriteString("label:")
		skel(x.Stmt, low, up, sb, locks)
	case *ast.ReturnStmt:
		sb.WriteString("ret;")
	case *ast.BranchStmt:
		sb.WriteString(x.Tok.String() + ";")
	case *ast.DeferStmt:
		sb.WriteString("defer;")
		lockCall(x.Call, "defer ", locks)
	case *ast.ExprStmt:
		sb.WriteString("expr;")
		if c, ok := x.X.(*ast.CallExpr); ok {
			lockCall(c, "", locks)
		}
	case *ast.AssignStmt:
		sb.WriteString("asg;")
	case *ast.IncDecStmt:
		sb.WriteString("inc;")
	case *ast.DeclStmt:
		sb.WriteString("decl;")
	case *ast.GoStmt:
		sb.WriteString("go;")
	default:
		sb.WriteString(fmt.Sprintf("%T;", n))
	}
}

func recvText(e ast.Expr) string {
	switch x := e.(type) {
	case *ast.Ident:
		return x.Name
	case *ast.SelectorExpr:
		return recvText(x.X) + "." + x.Sel.Name
	case *ast.IndexExpr:
		return recvText(x.X) + "[]"
	}
	return "?"
}

func lockCall(c *ast.CallExpr, prefix string, locks *[]string) {
	sel, ok := c.Fun.(*ast.SelectorExpr)
	if !ok {
		return
	}
	switch sel.Sel.Name {
	case "lock", "unlock", "Lock", "Unlock":
		// receiver names are deliberately dropped: renaming a local variable is harmless
		_ = recvText
		*locks = append(*locks, prefix+sel.Sel.Name)
	}
}

type fnFact struct {
	Skel  string
	Locks []string
}

func facts(path, low, up string) (map[string]fnFact, []string, error) {
	fset := token.NewFileSet()
	f, err := parser.ParseFile(fset, path, nil, 0)
	if err != nil {
		return nil, nil, err
	}
	out := map[string]fnFact{}
	var vars []string
	for _, d := range f.Decls {
		switch x := d.(type) {
		case *ast.GenDecl:
			if x.Tok == token.VAR {
				for _, s := range x.Specs {
					for _, n := range s.(*ast.ValueSpec).Names {
						vars = append(vars, n.Name)
					}
				}
			}
		case *ast.FuncDecl:
			name := x.Name.Name
			if x.Recv != nil && len(x.Recv.List) == 1 {
				t := x.Recv.List[0].Type
				if s, ok := t.(*ast.StarExpr); ok {
					t = s.X
				}
				if id, ok := t.(*ast.Ident); ok {
					// only the receiver TYPE carries the type prefix; method names are kept verbatim
					name = norm(id.Name, low, up) + "." + name
				}
			} else {
				name = norm(name, low, up)
			}
			var sb strings.Builder
			var locks []string
			skel(x.Body, low, up, &sb, &locks)
			out[name] = fnFact{sb.String(), locks}
		}
	}
	return out, vars, nil
}

func ctorFacts(path, up string) []string {
	var probs []string
	fset := token.NewFileSet()
	f, err := parser.ParseFile(fset, path, nil, 0)
	if err != nil {
		return []string{err.Error()}
	}
	for _, d := range f.Decls {
		fd, ok := d.(*ast.FuncDecl)
		if !ok || fd.Recv != nil || fd.Name.Name != "New"+up+"Tree" {
			continue
		}
		b := fd.Body.List
		if len(b) != 2 {
			return []string{fd.Name.Name + ": body is not `if err := checkOrder…; return &Tree{…}, nil`"}
		}
		ifs, ok := b[0].(*ast.IfStmt)
		okInit := false
		if ok && ifs.Init != nil {
			if as, ok2 := ifs.Init.(*ast.AssignStmt); ok2 && len(as.Rhs) == 1 {
				if c, ok3 := as.Rhs[0].(*ast.CallExpr); ok3 {
					if id, ok4 := c.Fun.(*ast.Ident); ok4 && id.Name == "checkOrder" {
						okInit = true
					}
				}
			}
		}
		if !okInit {
			probs = append(probs, fd.Name.Name+": does not start with `if err := checkOrder(order); err != nil`")
		} else if len(ifs.Body.List) != 1 {
			probs = append(probs, fd.Name.Name+": error branch is not a single return")
		} else if r, ok := ifs.Body.List[0].(*ast.ReturnStmt); !ok || len(r.Results) != 2 {
			probs = append(probs, fd.Name.Name+": error branch does not return (nil, err)")
		} else if id, ok := r.Results[0].(*ast.Ident); !ok || id.Name != "nil" {
			probs = append(probs, fd.Name.Name+": error branch returns a non-nil tree")
		}
		r, ok := b[1].(*ast.ReturnStmt)
		if !ok || len(r.Results) != 2 {
			probs = append(probs, fd.Name.Name+": final statement is not `return tree, nil`")
			continue
		}
		u, ok := r.Results[0].(*ast.UnaryExpr)
		if !ok || u.Op != token.AND {
			probs = append(probs, fd.Name.Name+": does not return the address of a fresh composite literal")
			continue
		}
		cl, ok := u.X.(*ast.CompositeLit)
		if !ok {
			probs = append(probs, fd.Name.Name+": does not return a composite literal")
			continue
		}
		rootOK := false
		for _, e := range cl.Elts {
			kv, ok := e.(*ast.KeyValueExpr)
			if !ok {
				continue
			}
			if k, ok := kv.Key.(*ast.Ident); ok && k.Name == "root" {
				if uu, ok := kv.Value.(*ast.UnaryExpr); ok && uu.Op == token.AND {
					if _, ok := uu.X.(*ast.CompositeLit); ok {
						rootOK = true
					}
				}
			}
		}
		if !rootOK {
			probs = append(probs, fd.Name.Name+": root is not a freshly allocated node literal")
		}
		return probs
	}
	return []string{"constructor New" + up + "Tree not found"}
}

func main() {
	repo := os.Args[1]
	expectedPath := ""
	if len(os.Args) > 2 {
		expectedPath = os.Args[2]
	}
	var probs []problem
	var info []string
	add := func(props []string, f string, a ...interface{}) {
		probs = append(probs, problem{props, fmt.Sprintf(f, a...)})
	}
	base, _, err := facts(filepath.Join(repo, "int64.go"), "int64", "Int64")
	if err != nil {
		add([]string{"C01", "C11"}, "cannot parse int64.go: %v", err)
	}
	all := map[string]map[string]fnFact{}
	for _, ff := range files {
		fs, vars, err := facts(filepath.Join(repo, ff.file), ff.low, ff.up)
		if err != nil {
			add([]string{"C11"}, "cannot parse %s: %v", ff.file, err)
			continue
		}
		all[ff.file] = fs
		for _, v := range vars {
			add([]string{"C12"}, "%s declares package-level variable %s", ff.file, v)
		}
		for _, p := range ctorFacts(filepath.Join(repo, ff.file), ff.up) {
			add([]string{"C12"}, "%s", p)
		}
		if base == nil {
			continue
		}
		names := map[string]bool{}
		for n := range base {
			names[n] = true
		}
		for n := range fs {
			names[n] = true
		}
		var sorted []string
		for n := range names {
			sorted = append(sorted, n)
		}
		sort.Strings(sorted)
		for _, n := range sorted {
			a, okA := base[n]
			b, okB := fs[n]
			if !okA || !okB {
				if ff.file == "comparable.go" && !okA {
					continue // Comparable-only helpers are allowed
				}
				add([]string{"C11"}, "%s: function %s has no counterpart in the int64 template", ff.file, n)
				continue
			}
			if a.Skel != b.Skel {
				add([]string{"C11", "C01"}, "%s: statement skeleton of %s differs from int64.go", ff.file, n)
			}
			if strings.Join(a.Locks, ",") != strings.Join(b.Locks, ",") {
				add([]string{"C11", "C09", "C10", "C07"}, "%s: lock/unlock sequence of %s differs from int64.go: %v vs %v", ff.file, n, b.Locks, a.Locks)
			}
		}
	}
	// order.go and any other non-test file: no package-level vars
	matches, _ := filepath.Glob(filepath.Join(repo, "*.go"))
	for _, m := range matches {
		bn := filepath.Base(m)
		if strings.HasSuffix(bn, "_test.go") || bn == "verif_snapshot.go" {
			continue
		}
		known := false
		for _, ff := range files {
			if ff.file == bn {
				known = true
			}
		}
		if known {
			continue
		}
		fset := token.NewFileSet()
		f, err := parser.ParseFile(fset, m, nil, 0)
		if err != nil {
			continue
		}
		for _, d := range f.Decls {
			if g, ok := d.(*ast.GenDecl); ok && g.Tok == token.VAR {
				add([]string{"C12"}, "%s declares a package-level variable", bn)
			}
		}
	}
	// lock skeleton vs the committed expectation
	cur := map[string][]string{}
	for n, f := range base {
		cur[n] = f.Locks
	}
	summary := map[string]interface{}{"functions": len(base), "files": len(all)}
	if expectedPath != "" {
		if raw, err := os.ReadFile(expectedPath); err == nil {
			exp := map[string][]string{}
			if json.Unmarshal(raw, &exp) == nil {
				for n, l := range exp {
					if strings.Join(cur[n], ",") != strings.Join(l, ",") {
						info = append(info, fmt.Sprintf("lock skeleton of %s changed: now %v, the model was written against %v", n, cur[n], l))
					}
				}
				for n, l := range cur {
					if _, ok := exp[n]; !ok && len(l) > 0 {
						info = append(info, fmt.Sprintf("function %s takes locks but is unknown to the model's expectation: %v", n, l))
					}
				}
			}
		} else if len(os.Args) > 3 && os.Args[3] == "-write" {
			raw, _ := json.MarshalIndent(cur, "", " ")
			os.WriteFile(expectedPath, raw, 0644)
		}
	}
	summary["info"] = info
	out, _ := json.Marshal(map[string]interface{}{"problems": probs, "summary": summary, "locks": cur})
	fmt.Println(string(out))
}
