// seqrun executes protocol lines (PROTOCOL.md) against the real gobptree
// package built from the current working tree, prints one result line per op
// (the same lines the Lean model prints) and evaluates the implementation-side
// oracles (map, scan, shape, lock state), writing each failure as a JSON line.
//
// Protocol (one op per line, one result line per op; the Lean driver
// lean/Gobptree/Driver.lean understands the same lines):
//
//	begin | new <type> <order> | slot <n> | chk <order> | variant <name>
//	ins <k> <v> | upd <k> <cb> | del <k> | get <k> | scan <start> <limit> | snap
//	bulk <from> <count> <step>   count inserts of the keys adapter.BulkKey(type, from+i*step)
//	                             with value i%89; one result line "bulk ok"
//	scand <start> <limit>        a scan printed as a digest: number of pairs, first and last
//	                             pair, FNV-1a-64 over " key=value" of every pair, end|closed
//	locks                        TryLock sweep over every mutex of the tree now ("locks")
//	opt sweep <k>                per-op structural sweeps (shape, locks) only after every k-th
//	                             op (0: never; each costs a snapshot of the whole tree); scans,
//	                             bulk, snap (shape) and `locks` always sweep ("opt ok")
//
// values <v>: nil | int64 | [n,n,...] (a []int64: an uncomparable value).
// callbacks <cb>: c<v> constant | a<d> add d (non-int or absent: d) | ap<i> append i to the
// stored slice (absent or not a slice: the one-element slice [i]).
package main

import (
	"bufio"
	"math/bits"
	"encoding/json"
	"flag"
	"fmt"
	"os"
	"runtime/debug"
	"sort"
	"strconv"
	"strings"
	"time"

	"github.com/karrick/gobptree"
	"verifharness/adapter"
	"verifharness/shape"
)

type failure struct {
	Line   int    `json:"line"`   // 1-based input line
	Hist   int    `json:"hist"`   // 0-based history (count of `new` lines before) 
	Kind   string `json:"kind"`   // search | callback | panic | hang | scan | shape | locks | mutated | ctor
	Op     string `json:"op"`
	Detail string `json:"detail"`
	Site   string `json:"site,omitempty"` // for panics: innermost gobptree frames
	Order  int    `json:"order"`
	Type   string `json:"type"`
}

type entry struct {
	k string
	v interface{}
}

type state struct {
	ty    string
	order int
	tr    adapter.Tree
	dead  bool
	ora   []entry // sorted by tr.Less, unique modulo equivalence
	sweepEvery int // per-op structural sweeps after every sweepEvery-th op (0: never)
	ops        int
}

var (
	out      *bufio.Writer
	oraOut   *json.Encoder
	lineNo   int
	histNo   = -1
	opTimeout = 10 * time.Second
	shapeMax  = 3000
)

func fail(st *state, kind, op, detail, site string) {
	f := failure{Line: lineNo, Hist: histNo, Kind: kind, Op: op, Detail: detail, Site: site}
	if st != nil {
		f.Order, f.Type = st.order, st.ty
	}
	if oraOut != nil {
		oraOut.Encode(f)
	}
}

// indepProbe: two trees of one type; on A a cursor rests on the first leaf and a Delete of a key
// of that leaf is started (it waits for the leaf while holding whatever tree-level state Delete
// holds); every kind of operation on B must still complete. Real goroutines, real sync.Mutex.
// A slow machine can only make the probe miss (the Delete has not reached its wait yet), never
// fire: B's operations need nothing of A on correct code.
func indepProbe(ty string) string {
	a, errA := adapter.New(ty, 4)
	b, errB := adapter.New(ty, 4)
	if errA != nil || errB != nil {
		return "constructor failed at order 4"
	}
	for j := int64(0); j < 12; j++ {
		a.Insert(adapter.BulkKey(ty, j), int(j))
		b.Insert(adapter.BulkKey(ty, j), int(j))
	}
	cur := a.NewScanner(adapter.BulkKey(ty, 0))
	cur.Scan()
	doneA := make(chan struct{})
	go func() { a.Delete(adapter.BulkKey(ty, 1)); close(doneA) }()
	time.Sleep(150 * time.Millisecond)
	doneB := make(chan struct{})
	go func() {
		b.Insert(adapter.BulkKey(ty, 20), 1)
		b.Search(adapter.BulkKey(ty, 3))
		b.Update(adapter.BulkKey(ty, 4), func(v interface{}, ok bool) interface{} { return v })
		b.Delete(adapter.BulkKey(ty, 5))
		c := b.NewScanner(adapter.BulkKey(ty, 0))
		c.Scan()
		c.Close()
		close(doneB)
	}()
	msg := ""
	select {
	case <-doneB:
	case <-time.After(8 * time.Second):
		msg = "operations on a second tree do not complete while a Delete on the first waits for a cursor's leaf: trees of type " + ty + " returned by separate constructor calls share state"
	}
	cur.Close()
	select {
	case <-doneA:
	case <-time.After(3 * time.Second):
	}
	return msg
}

func fmtVal(v interface{}) string { return adapter.FmtVal(v) }

func parseVal(s string) (interface{}, bool) { return adapter.ParseVal(s) }

const (
	fnvOffset uint64 = 14695981039346656037
	fnvPrime  uint64 = 1099511628211
)

func fnvAdd(h uint64, s string) uint64 {
	for i := 0; i < len(s); i++ {
		h ^= uint64(s[i])
		h *= fnvPrime
	}
	return h
}

func (st *state) find(k string) (int, bool) {
	i := sort.Search(len(st.ora), func(i int) bool { return !st.tr.Less(st.ora[i].k, k) })
	if i < len(st.ora) && !st.tr.Less(k, st.ora[i].k) {
		return i, true
	}
	return i, false
}

func (st *state) put(k string, v interface{}) {
	i, ok := st.find(k)
	if ok {
		st.ora[i].v = v
		return
	}
	st.ora = append(st.ora, entry{})
	copy(st.ora[i+1:], st.ora[i:])
	st.ora[i] = entry{k, v}
}

func (st *state) del(k string) {
	i, ok := st.find(k)
	if ok {
		st.ora = append(st.ora[:i], st.ora[i+1:]...)
	}
}

// runOp runs f on its own goroutine with a watchdog; it reports panic (with
// the gobptree frames of the stack) or hang.
func runOp(f func()) (panicked bool, site string, hung bool) {
	done := make(chan struct{})
	go func() {
		defer func() {
			if r := recover(); r != nil {
				panicked = true
				site = fmt.Sprintf("%v @ %s", r, frames(string(debug.Stack())))
			}
			close(done)
		}()
		f()
	}()
	select {
	case <-done:
		return
	case <-time.After(opTimeout):
		return false, "", true
	}
}

func frames(stack string) string {
	var fs []string
	for _, l := range strings.Split(stack, "\n") {
		if strings.HasPrefix(l, "github.com/karrick/gobptree.") {
			name := strings.TrimPrefix(l, "github.com/karrick/gobptree.")
			if i := strings.LastIndexByte(name, '('); i > 0 {
				name = name[:i]
			}
			fs = append(fs, name)
			if len(fs) == 4 {
				break
			}
		}
	}
	return strings.Join(fs, " < ")
}

func canon(st *state, root *gobptree.VerifNode) string {
	return shape.Canon(root, st.tr.FmtKey, fmtVal)
}

func (st *state) checkShape(op string, force bool) {
	if st.dead || (!force && len(st.ora) > shapeMax) {
		return
	}
	root := st.tr.Snapshot()
	for _, p := range shape.Check(root, st.order, st.tr.FmtKey, st.tr.Less) {
		fail(st, "shape", op, p, "")
	}
}

// opSweep runs the snapshot-based oracles after an ordinary operation (shape after a
// mutating one, locks after every one); `opt sweep k` thins them out (a leaked mutex
// stays locked and a broken structure stays broken, so a later sweep still finds it).
func (st *state) opSweep(op string, mutating bool) {
	st.ops++
	if st.sweepEvery == 0 || st.ops%st.sweepEvery != 0 {
		return
	}
	if mutating {
		st.checkShape(op, false)
	}
	st.checkLocks(op, nil)
}

func (st *state) checkLocks(op string, heldLeaf interface{}) {
	if st.dead {
		return
	}
	root := st.tr.Snapshot()
	for _, p := range shape.CheckLocks(root, heldLeaf) {
		fail(st, "locks", op, p, "")
		st.dead = true // a leaked lock would hang the next operation
	}
}

func main() {
	oraPath := flag.String("oracle", "", "file for oracle failures (JSON lines)")
	noOracle := flag.Bool("no-oracle", false, "skip oracles (pure correspondence output)")
	flag.Parse()
	if *oraPath != "" {
		f, err := os.Create(*oraPath)
		if err != nil {
			panic(err)
		}
		defer f.Close()
		oraOut = json.NewEncoder(f)
	}
	in := bufio.NewScanner(os.Stdin)
	in.Buffer(make([]byte, 1<<20), 1<<26)
	out = bufio.NewWriterSize(os.Stdout, 1<<16)
	defer out.Flush()
	var st *state
	slots := map[string]*state{}
	cur := "0"
	emit := func(s string) {
		out.WriteString(s)
		out.WriteByte('\n')
	}
	for in.Scan() {
		lineNo++
		line := strings.TrimSpace(in.Text())
		toks := strings.Fields(line)
		if len(toks) == 0 {
			emit("bad-op")
			continue
		}
		op, args := toks[0], toks[1:]
		if op == "variant" {
			emit("variant ok")
			continue
		}
		if op == "begin" {
			histNo++
			slots = map[string]*state{}
			cur = "0"
			st = nil
			emit("begin")
			continue
		}
		if op == "slot" && len(args) == 1 {
			slots[cur] = st
			cur = args[0]
			st = slots[cur]
			emit("slot ok")
			continue
		}
		if op == "indep" && len(args) == 1 {
			// C12 "trees returned by separate calls share no state", the concurrent half that a
			// sequential history cannot see (R7-C12-d: a tree-level mutex moved to package level)
			// reported only if two attempts (8 s each) both time out: on correct code the second
			// tree's operations need nothing of the first, so even a badly loaded machine cannot
			// make the probe fire; a loaded machine can only make it miss
			if msg := indepProbe(args[0]); msg != "" {
				if msg2 := indepProbe(args[0]); msg2 != "" {
					fail(nil, "independence", line, msg2, "")
				}
			}
			emit("indep ok")
			continue
		}
		if op == "chk" && len(args) == 1 {
			order, err := strconv.Atoi(args[0])
			if err != nil {
				emit("bad-op")
				continue
			}
			cerr := gobptree.VerifCheckOrder(order)
			want := order >= 2 && bits.OnesCount64(uint64(order)) == 1
			if (cerr == nil) != want {
				fail(nil, "ctor", line, fmt.Sprintf("checkOrder(%d) accepted=%v, a power of two >= 2: %v", order, cerr == nil, want), "")
			}
			if cerr == nil {
				emit("chk ok")
			} else {
				emit("chk err")
			}
			continue
		}
		if op == "new" {
			if len(args) != 2 {
				emit("bad-op")
				continue
			}
			order, err := strconv.Atoi(args[1])
			if err != nil {
				emit("bad-op")
				continue
			}
			var tr adapter.Tree
			var cerr error
			p, site, hung := runOp(func() { tr, cerr = adapter.New(args[0], order) })
			st = &state{ty: args[0], order: order, sweepEvery: 1}
			if want := order >= 2 && bits.OnesCount64(uint64(order)) == 1; !p && !hung && (cerr == nil) != want {
				fail(st, "ctor", line, fmt.Sprintf("constructor accepted=%v, order is a power of two >= 2: %v", cerr == nil, want), "")
			}
			if p || hung {
				fail(st, "panic", line, "constructor panicked or hung", site)
				st = nil
				emit("panic")
				continue
			}
			if cerr != nil {
				if tr != nil {
					fail(st, "ctor", line, "non-nil tree returned together with an error", "")
				}
				if !strings.Contains(cerr.Error(), strconv.Itoa(order)) {
					fail(st, "ctor", line, "error text does not name the order: "+cerr.Error(), "")
				}
				st = nil
				emit("new err")
				continue
			}
			if tr == nil {
				fail(st, "ctor", line, "nil tree and nil error", "")
				st = nil
				emit("new err")
				continue
			}
			st.tr = tr
			if !*noOracle {
				if tr.Order() != order {
					fail(st, "ctor", line, fmt.Sprintf("tree order %d, asked %d", tr.Order(), order), "")
				}
				if s := canon(st, tr.Snapshot()); s != "L0{|}>-" {
					fail(st, "ctor", line, "fresh tree is not one empty leaf: "+s, "")
				}
			}
			emit("new ok")
			continue
		}
		if st == nil {
			emit("no-tree")
			continue
		}
		if st.dead {
			emit("dead")
			continue
		}
		oracle := !*noOracle
		died := func(p bool, site string, hung bool) bool {
			if hung {
				fail(st, "hang", line, "operation did not return within "+opTimeout.String(), "")
				emit("hang")
				out.Flush()
				os.Exit(3)
			}
			if p {
				fail(st, "panic", line, "operation panicked", site)
				st.dead = true
				emit("panic")
				return true
			}
			return false
		}
		switch {
		case op == "ins" && len(args) == 2:
			v, ok := parseVal(args[1])
			if !ok {
				emit("bad-op")
				continue
			}
			if died(runOp(func() { st.tr.Insert(args[0], v) })) {
				continue
			}
			emit("ok")
			if oracle {
				st.put(args[0], v)
				st.opSweep(line, true)
			}
		case op == "upd" && len(args) == 2:
			cbs := args[1]
			var f func(interface{}, bool) interface{}
			if strings.HasPrefix(cbs, "c") {
				v, ok := parseVal(cbs[1:])
				if !ok {
					emit("bad-op")
					continue
				}
				f = func(interface{}, bool) interface{} { return adapter.CloneVal(v) }
			} else if strings.HasPrefix(cbs, "ap") {
				d, err := strconv.ParseInt(cbs[2:], 10, 64)
				if err != nil {
					emit("bad-op")
					continue
				}
				f = func(old interface{}, ok bool) interface{} {
					if s, isSlice := old.([]int64); ok && isSlice {
						return append(append(make([]int64, 0, len(s)+1), s...), d)
					}
					return []int64{d}
				}
			} else if strings.HasPrefix(cbs, "a") {
				d, err := strconv.ParseInt(cbs[1:], 10, 64)
				if err != nil {
					emit("bad-op")
					continue
				}
				f = func(old interface{}, ok bool) interface{} {
					if n, isInt := old.(int64); ok && isInt {
						return n + d
					}
					return d
				}
			} else {
				emit("bad-op")
				continue
			}
			var calls []string
			var stored interface{}
			cb := func(old interface{}, ok bool) interface{} {
				if ok {
					calls = append(calls, fmtVal(old))
				} else {
					if old != nil {
						calls = append(calls, "absent!"+fmtVal(old))
					} else {
						calls = append(calls, "absent")
					}
				}
				stored = f(old, ok)
				return stored
			}
			if died(runOp(func() { st.tr.Update(args[0], cb) })) {
				continue
			}
			res := "ok"
			for _, c := range calls {
				res += " cb:" + c
			}
			emit(res)
			if oracle {
				want := "absent"
				var wantStored interface{}
				if i, ok := st.find(args[0]); ok {
					want = fmtVal(st.ora[i].v)
					wantStored = f(st.ora[i].v, true)
				} else {
					wantStored = f(nil, false)
				}
				if len(calls) != 1 {
					fail(st, "callback", line, fmt.Sprintf("callback invoked %d times", len(calls)), "")
				} else if calls[0] != want {
					fail(st, "callback", line, "callback got "+calls[0]+", map oracle has "+want, "")
				}
				st.put(args[0], wantStored)
				st.opSweep(line, true)
			}
		case op == "del" && len(args) == 1:
			if died(runOp(func() { st.tr.Delete(args[0]) })) {
				continue
			}
			emit("ok")
			if oracle {
				st.del(args[0])
				st.opSweep(line, true)
			}
		case op == "get" && len(args) == 1:
			var before string
			small := oracle && len(st.ora) <= 400
			if small {
				before = canon(st, st.tr.Snapshot())
			}
			var v interface{}
			var ok bool
			if died(runOp(func() { v, ok = st.tr.Search(args[0]) })) {
				continue
			}
			got := "absent"
			if ok {
				got = "val:" + fmtVal(v)
			} else if v != nil {
				got = "absent!" + fmtVal(v)
			}
			emit(got)
			if oracle {
				want := "absent"
				if i, found := st.find(args[0]); found {
					want = "val:" + fmtVal(st.ora[i].v)
				}
				if got != want {
					fail(st, "search", line, "Search returned "+got+", map oracle has "+want, "")
				}
				if small {
					if after := canon(st, st.tr.Snapshot()); after != before {
						fail(st, "mutated", line, "Search changed the tree: "+before+" -> "+after, "")
					}
				}
				st.opSweep(line, false)
			}
		case op == "scan" && len(args) == 2:
			limit, err := strconv.Atoi(args[1])
			if err != nil {
				emit("bad-op")
				continue
			}
			var pairs []entry
			ended := false
			var lockProblems []string
			if died(runOp(func() {
				c := st.tr.NewScanner(args[0])
				checkHeld := func(where string) {
					if !oracle || len(st.ora) > shapeMax {
						return
					}
					leaf, _ := c.Leaf()
					if leaf == nil {
						lockProblems = append(lockProblems, where+": cursor holds no leaf")
						return
					}
					for _, p := range shape.CheckLocks(st.tr.Snapshot(), leaf) {
						lockProblems = append(lockProblems, where+": "+p)
					}
				}
				checkHeld("after NewScanner")
				for {
					if limit >= 0 && len(pairs) == limit {
						c.Close()
						c.Close()
						break
					}
					if !c.Scan() {
						ended = true
						c.Close()
						c.Close()
						break
					}
					k, v := c.Pair()
					pairs = append(pairs, entry{k, v})
					if len(pairs) <= 3 || len(pairs)%64 == 0 {
						checkHeld("after Scan")
					}
					if len(pairs) > len(st.ora)+1000 {
						break // runaway scan; reported by the scan oracle
					}
				}
			})) {
				continue
			}
			var sb strings.Builder
			sb.WriteString("scan")
			for _, p := range pairs {
				sb.WriteString(" " + p.k + "=" + fmtVal(p.v))
			}
			if ended {
				sb.WriteString(" end")
			} else {
				sb.WriteString(" closed")
			}
			emit(sb.String())
			if oracle {
				for _, p := range lockProblems {
					fail(st, "locks", line, p, "")
				}
				// expected: all oracle entries with key >= start, in order
				i, _ := st.find(args[0])
				want := st.ora[i:]
				if limit >= 0 && len(want) > limit {
					want = want[:limit]
				}
				wantEnded := limit < 0 || len(st.ora[i:]) < limit
				okScan := len(want) == len(pairs) && wantEnded == ended
				if okScan {
					for j := range want {
						// keys compared modulo order-equivalence, values exactly
						if st.tr.Less(want[j].k, pairs[j].k) || st.tr.Less(pairs[j].k, want[j].k) || fmtVal(want[j].v) != fmtVal(pairs[j].v) {
							okScan = false
							break
						}
					}
				}
				if !okScan {
					var ws strings.Builder
					for _, p := range want {
						ws.WriteString(" " + p.k + "=" + fmtVal(p.v))
					}
					fail(st, "scan", line, "scan produced ["+strings.TrimPrefix(sb.String(), "scan")+" ] want ["+ws.String()+" ] ended="+strconv.FormatBool(wantEnded), "")
				}
				st.checkLocks(line, nil)
			}
		case op == "opt" && len(args) == 2 && args[0] == "sweep":
			k, err := strconv.Atoi(args[1])
			if err != nil || k < 0 {
				emit("bad-op")
				continue
			}
			st.sweepEvery = k
			emit("opt ok")
		case op == "locks" && len(args) == 0:
			emit("locks")
			if oracle {
				st.checkLocks(line, nil)
			}
		case op == "bulk" && len(args) == 3:
			from, e1 := strconv.ParseInt(args[0], 10, 64)
			count, e2 := strconv.ParseInt(args[1], 10, 64)
			step, e3 := strconv.ParseInt(args[2], 10, 64)
			if e1 != nil || e2 != nil || e3 != nil || count < 0 {
				emit("bad-op")
				continue
			}
			// chunks, so that the watchdog bounds a stretch of inserts and not the whole load
			failed := false
			for lo := int64(0); lo < count && !failed; lo += 4096 {
				hi := lo + 4096
				if hi > count {
					hi = count
				}
				a, b := lo, hi
				if died(runOp(func() {
					for i := a; i < b; i++ {
						st.tr.Insert(adapter.BulkKey(st.ty, from+i*step), i%89)
					}
				})) {
					failed = true
				}
			}
			if failed {
				continue
			}
			emit("bulk ok")
			if oracle {
				for i := int64(0); i < count; i++ {
					k := adapter.BulkKey(st.ty, from+i*step)
					if n := len(st.ora); n == 0 || st.tr.Less(st.ora[n-1].k, k) {
						st.ora = append(st.ora, entry{k, i % 89})
					} else {
						st.put(k, i%89)
					}
				}
				st.checkShape(line, false)
				st.checkLocks(line, nil)
			}
		case op == "scand" && len(args) == 2:
			limit, err := strconv.Atoi(args[1])
			if err != nil {
				emit("bad-op")
				continue
			}
			digest := func(n int, first, last string, h uint64, ended bool) string {
				if n == 0 {
					first, last = "-", "-"
				}
				e := "closed"
				if ended {
					e = "end"
				}
				return fmt.Sprintf("scand n=%d first=%s last=%s h=%016x %s", n, first, last, h, e)
			}
			var n int
			var first, last, prevKey, orderProblem string
			h := fnvOffset
			ended := false
			if died(runOp(func() {
				c := st.tr.NewScanner(args[0])
				for {
					if limit >= 0 && n == limit {
						c.Close()
						c.Close()
						break
					}
					if !c.Scan() {
						ended = true
						c.Close()
						c.Close()
						break
					}
					k, v := c.Pair()
					p := k + "=" + fmtVal(v)
					if n == 0 {
						first = p
					} else if orderProblem == "" && !st.tr.Less(prevKey, k) {
						orderProblem = "key " + prevKey + " is followed by " + k
					}
					last, prevKey = p, k
					h = fnvAdd(h, " "+p)
					n++
					if oracle && n > len(st.ora)+1000 {
						c.Close() // runaway scan; reported by the scan oracle
						break
					}
				}
			})) {
				continue
			}
			got := digest(n, first, last, h, ended)
			emit(got)
			if oracle {
				i, _ := st.find(args[0])
				want := st.ora[i:]
				if limit >= 0 && len(want) > limit {
					want = want[:limit]
				}
				wantEnded := limit < 0 || len(st.ora[i:]) < limit
				wh := fnvOffset
				var wf, wl string
				for j, e := range want {
					p := adapter.CanonKey(st.ty, e.k) + "=" + fmtVal(e.v)
					if j == 0 {
						wf = p
					}
					wl = p
					wh = fnvAdd(wh, " "+p)
				}
				if w := digest(len(want), wf, wl, wh, wantEnded); w != got {
					fail(st, "scan", line, "scan digest ["+got+"] want ["+w+"] (pairs with key >= start in the map oracle)", "")
				}
				if orderProblem != "" {
					fail(st, "scan", line, "scan not strictly ascending: "+orderProblem, "")
				}
				st.checkLocks(line, nil)
			}
		case op == "snap" && len(args) == 0:
			emit("snap " + canon(st, st.tr.Snapshot()))
			if oracle {
				st.checkShape(line, true)
			}
		case op == "fullcheck" && len(args) == 0:
			// every key of the oracle must be found with its value (not part of
			// the model protocol: prints nothing the model does not print)
			emit("fullcheck")
			if oracle {
				for _, e := range st.ora {
					var v interface{}
					var ok bool
					if died(runOp(func() { v, ok = st.tr.Search(e.k) })) {
						break
					}
					if !ok || fmtVal(v) != fmtVal(e.v) {
						fail(st, "search", line, "fullcheck: Search("+e.k+") = "+fmtVal(v)+","+strconv.FormatBool(ok)+" want "+fmtVal(e.v), "")
						break
					}
				}
			}
		default:
			emit("bad-op")
		}
	}
}
