// gen_search translates the two hand-written binary searches of every key type
// (<t>SearchGreaterThanOrEqualTo, <t>SearchLessThanOrEqualTo in int32.go … comparable.go)
// into Lean 4 definitions, so that the theorems of Props/C11Search.lean are about what the
// code says now.
//
// Accepted shape: `func f(key T, values []T) int` whose body is built from
//
//	var x int · x := e · x = e · x++ · x-- · if [init;] cond { … } [else { … }]
//	L: (one label, at the top level of the body) · goto L · return e
//
// with integer expressions over the int locals, literals, len(values), + - * and >> << by a
// literal; element reads values[e]; calls of the other translated search; conditions built from
// integer comparisons, key comparisons (`a < b`, `a > b`, `a <= b`, `a >= b` on the builtin
// types, `a.Less(b)` on Comparable) and && || ! with Go's short-circuit evaluation.
//
// Semantics of the output: Go `int` is the 64-bit two's complement integer of the supported
// targets: values are Lean `Int`s and the result of every + - * << and unary - is wrapped into
// [-2^63, 2^63) by `w64` (`>>` is the arithmetic shift and cannot overflow), so the famous
// overflow of `(lo + hi) >> 1` is IN the translation and the theorems carry the hypothesis that
// excludes it (`len(values) < 2^62`); an index outside the slice is
// `.error "index"`; every jump to the label consumes one unit of fuel and running out of it
// is `.error "fuel"` (termination is therefore part of the theorem, not assumed); key
// comparisons go through the parameter `lt` — so the translation itself establishes that the
// search looks at keys through `<`/`Less` only.
//
// Anything outside this grammar makes the translator exit with status 2 and a reason: the
// model is then tied to the searches by the correspondence check alone.
package main

import (
	"fmt"
	"go/ast"
	"go/parser"
	"go/token"
	"os"
	"path/filepath"
	"strings"
)

type unsupported struct{ msg string }

func bad(f string, a ...interface{}) { panic(unsupported{fmt.Sprintf(f, a...)}) }

type kind int

const (
	kInt kind = iota
	kKey
)

type fn struct {
	name    string // Lean name of the function being translated
	keyP    string // Go name of the key parameter
	valsP   string // Go name of the slice parameter
	prefix  string // e.g. "int64"
	vars    []string
	kinds   map[string]kind
	label   string
	carried []string // variables passed around the loop
	fresh   int
	comparable bool
}

func (f *fn) declare(name string, k kind) {
	if _, ok := f.kinds[name]; !ok {
		f.vars = append(f.vars, name)
	}
	f.kinds[name] = k
}

func lname(s string) string {
	switch s {
	case "at", "do", "end", "from", "fun", "have", "in", "let", "open", "show", "then", "with", "where", "if", "else", "match", "this", "by", "def", "Type", "Prop", "lt", "fuel":
		return s + "'"
	}
	return s
}

// intE translates an integer expression.
func (f *fn) intE(e ast.Expr) string {
	switch x := e.(type) {
	case *ast.ParenExpr:
		return f.intE(x.X)
	case *ast.Ident:
		if k, ok := f.kinds[x.Name]; ok && k == kInt {
			return lname(x.Name)
		}
		bad("identifier %s is not an int local", x.Name)
	case *ast.BasicLit:
		if x.Kind == token.INT {
			return "(" + x.Value + " : Int)"
		}
	case *ast.CallExpr:
		if id, ok := x.Fun.(*ast.Ident); ok && id.Name == "len" && len(x.Args) == 1 {
			if a, ok := x.Args[0].(*ast.Ident); ok && a.Name == f.valsP {
				return "(" + lname(f.valsP) + ".length : Int)"
			}
		}
		bad("unsupported call in integer expression")
	case *ast.UnaryExpr:
		if x.Op == token.SUB {
			return "(w64 (-" + f.intE(x.X) + "))"
		}
	case *ast.BinaryExpr:
		switch x.Op {
		case token.ADD:
			return "(w64 (" + f.intE(x.X) + " + " + f.intE(x.Y) + "))"
		case token.SUB:
			return "(w64 (" + f.intE(x.X) + " - " + f.intE(x.Y) + "))"
		case token.MUL:
			return "(w64 (" + f.intE(x.X) + " * " + f.intE(x.Y) + "))"
		case token.SHR, token.SHL:
			lit, ok := x.Y.(*ast.BasicLit)
			if !ok || lit.Kind != token.INT {
				bad("shift by a non-literal")
			}
			if x.Op == token.SHR {
				return "(" + f.intE(x.X) + " >>> (" + lit.Value + " : Nat))"
			}
			return "(w64 (" + f.intE(x.X) + " <<< (" + lit.Value + " : Nat)))"
		}
	}
	bad("unsupported integer expression %T", e)
	return ""
}

func (f *fn) isKeyExpr(e ast.Expr) bool {
	switch x := e.(type) {
	case *ast.ParenExpr:
		return f.isKeyExpr(x.X)
	case *ast.Ident:
		if x.Name == f.keyP {
			return true
		}
		k, ok := f.kinds[x.Name]
		return ok && k == kKey
	case *ast.IndexExpr:
		id, ok := x.X.(*ast.Ident)
		return ok && id.Name == f.valsP
	}
	return false
}

// keyE translates a key-typed expression; element reads are hoisted through `wrap`.
func (f *fn) keyE(e ast.Expr, wrap *[]string) string {
	switch x := e.(type) {
	case *ast.ParenExpr:
		return f.keyE(x.X, wrap)
	case *ast.Ident:
		if x.Name == f.keyP {
			return lname(f.keyP)
		}
		if k, ok := f.kinds[x.Name]; ok && k == kKey {
			return lname(x.Name)
		}
	case *ast.IndexExpr:
		if id, ok := x.X.(*ast.Ident); ok && id.Name == f.valsP {
			f.fresh++
			n := fmt.Sprintf("e%d", f.fresh)
			*wrap = append(*wrap, fmt.Sprintf("match goIdx %s %s with | none => .error \"index\" | some %s => ", lname(f.valsP), f.intE(x.Index), n))
			return n
		}
	}
	bad("unsupported key expression %T", e)
	return ""
}

// cond translates `if c then T else E` with Go's evaluation order.
func (f *fn) cond(c ast.Expr, T, E string) string {
	switch x := c.(type) {
	case *ast.ParenExpr:
		return f.cond(x.X, T, E)
	case *ast.UnaryExpr:
		if x.Op == token.NOT {
			return f.cond(x.X, E, T)
		}
	case *ast.CallExpr:
		// a.Less(b)
		if sel, ok := x.Fun.(*ast.SelectorExpr); ok && sel.Sel.Name == "Less" && len(x.Args) == 1 && f.comparable {
			var w []string
			a := f.keyE(sel.X, &w)
			b := f.keyE(x.Args[0], &w)
			return wrapAll(w, fmt.Sprintf("if lt %s %s then %s else %s", a, b, T, E))
		}
		bad("unsupported call in condition")
	case *ast.BinaryExpr:
		switch x.Op {
		case token.LOR:
			return f.cond(x.X, T, f.cond(x.Y, T, E))
		case token.LAND:
			return f.cond(x.X, f.cond(x.Y, T, E), E)
		}
		if f.isKeyExpr(x.X) || f.isKeyExpr(x.Y) {
			if f.comparable {
				bad("builtin comparison of Comparable keys")
			}
			var w []string
			a := f.keyE(x.X, &w)
			b := f.keyE(x.Y, &w)
			var t string
			switch x.Op {
			case token.LSS:
				t = fmt.Sprintf("if lt %s %s then %s else %s", a, b, T, E)
			case token.GTR:
				t = fmt.Sprintf("if lt %s %s then %s else %s", b, a, T, E)
			case token.LEQ:
				t = fmt.Sprintf("if lt %s %s then %s else %s", b, a, E, T)
			case token.GEQ:
				t = fmt.Sprintf("if lt %s %s then %s else %s", a, b, E, T)
			default:
				bad("key comparison %s is not expressible through `<`", x.Op)
			}
			return wrapAll(w, t)
		}
		var op string
		switch x.Op {
		case token.LSS:
			op = "<"
		case token.GTR:
			op = ">"
		case token.LEQ:
			op = "≤"
		case token.GEQ:
			op = "≥"
		case token.EQL:
			op = "="
		case token.NEQ:
			op = "≠"
		default:
			bad("unsupported operator %s in condition", x.Op)
		}
		return fmt.Sprintf("(if %s %s %s then %s else %s)", f.intE(x.X), op, f.intE(x.Y), T, E)
	}
	bad("unsupported condition %T", c)
	return ""
}

func wrapAll(w []string, body string) string {
	s := body
	for i := len(w) - 1; i >= 0; i-- {
		s = w[i] + "(" + s + ")"
	}
	return "(" + s + ")"
}

// assign translates `name = rhs` (or :=) followed by `rest`.
func (f *fn) assign(name string, define bool, rhs ast.Expr, rest func() string) string {
	if name == f.keyP || name == f.valsP {
		bad("assignment to a parameter")
	}
	// element read
	if ix, ok := rhs.(*ast.IndexExpr); ok {
		if id, ok := ix.X.(*ast.Ident); ok && id.Name == f.valsP {
			idx := f.intE(ix.Index)
			if k, known := f.kinds[name]; known && k != kKey {
				bad("variable %s changes type", name)
			}
			f.declare(name, kKey)
			return fmt.Sprintf("(match goIdx %s %s with\n | none => .error \"index\"\n | some %s =>\n %s)", lname(f.valsP), idx, lname(name), rest())
		}
	}
	// call of the other search
	if call, ok := rhs.(*ast.CallExpr); ok {
		if id, ok := call.Fun.(*ast.Ident); ok && id.Name == f.prefix+"SearchGreaterThanOrEqualTo" {
			if len(call.Args) != 2 {
				bad("call arity")
			}
			a0, ok0 := call.Args[0].(*ast.Ident)
			a1, ok1 := call.Args[1].(*ast.Ident)
			if !ok0 || !ok1 || a0.Name != f.keyP || a1.Name != f.valsP {
				bad("the inner search must be called on (key, values)")
			}
			if k, known := f.kinds[name]; known && k != kInt {
				bad("variable %s changes type", name)
			}
			f.declare(name, kInt)
			return fmt.Sprintf("(match searchGE lt %s %s with\n | .error err => .error err\n | .ok %s =>\n %s)", lname(f.keyP), lname(f.valsP), lname(name), rest())
		}
	}
	if f.isKeyExpr(rhs) {
		bad("copy of a key into a local")
	}
	v := f.intE(rhs)
	if k, known := f.kinds[name]; known && k != kInt {
		bad("variable %s changes type", name)
	} else if !known && !define {
		bad("assignment to undeclared %s", name)
	}
	f.declare(name, kInt)
	return fmt.Sprintf("(let %s : Int := %s\n %s)", lname(name), v, rest())
}

// stmts translates a statement list; `k` produces the code run when the list falls through
// (nil: falling through is impossible in a function that returns a value).
func (f *fn) stmts(list []ast.Stmt, k func() string) string {
	if len(list) == 0 {
		if k == nil {
			bad("control reaches the end of the function")
		}
		return k()
	}
	rest := func() string { return f.stmts(list[1:], k) }
	switch s := list[0].(type) {
	case *ast.EmptyStmt:
		return rest()
	case *ast.DeclStmt:
		gd, ok := s.Decl.(*ast.GenDecl)
		if !ok || gd.Tok != token.VAR || len(gd.Specs) != 1 {
			bad("unsupported declaration")
		}
		vs := gd.Specs[0].(*ast.ValueSpec)
		if len(vs.Names) != 1 {
			bad("multi-variable declaration")
		}
		if len(vs.Values) == 1 {
			return f.assign(vs.Names[0].Name, true, vs.Values[0], rest)
		}
		if id, ok := vs.Type.(*ast.Ident); !ok || id.Name != "int" {
			bad("var without value must be int")
		}
		f.declare(vs.Names[0].Name, kInt)
		return fmt.Sprintf("(let %s : Int := 0\n %s)", lname(vs.Names[0].Name), rest())
	case *ast.AssignStmt:
		if len(s.Lhs) != 1 || len(s.Rhs) != 1 {
			bad("parallel assignment")
		}
		id, ok := s.Lhs[0].(*ast.Ident)
		if !ok {
			bad("assignment to a non-variable")
		}
		switch s.Tok {
		case token.DEFINE:
			return f.assign(id.Name, true, s.Rhs[0], rest)
		case token.ASSIGN:
			return f.assign(id.Name, false, s.Rhs[0], rest)
		case token.ADD_ASSIGN:
			return f.assign(id.Name, false, &ast.BinaryExpr{X: id, Op: token.ADD, Y: s.Rhs[0]}, rest)
		case token.SUB_ASSIGN:
			return f.assign(id.Name, false, &ast.BinaryExpr{X: id, Op: token.SUB, Y: s.Rhs[0]}, rest)
		}
		bad("unsupported assignment operator %s", s.Tok)
	case *ast.IncDecStmt:
		id, ok := s.X.(*ast.Ident)
		if !ok {
			bad("++/-- on a non-variable")
		}
		op := token.ADD
		if s.Tok == token.DEC {
			op = token.SUB
		}
		return f.assign(id.Name, false, &ast.BinaryExpr{X: id, Op: op, Y: &ast.BasicLit{Kind: token.INT, Value: "1"}}, rest)
	case *ast.ReturnStmt:
		if len(s.Results) != 1 {
			bad("return arity")
		}
		return "(.ok " + f.intE(s.Results[0]) + ")"
	case *ast.BranchStmt:
		if s.Tok != token.GOTO || s.Label == nil || s.Label.Name != f.label || f.label == "" {
			bad("unsupported branch statement")
		}
		args := ""
		for _, v := range f.carried {
			args += " " + lname(v)
		}
		return "(" + f.name + ".loop lt " + lname(f.keyP) + " " + lname(f.valsP) + " fuel" + args + ")"
	case *ast.BlockStmt:
		// scoping: locals declared inside do not escape; kept simple by rejecting shadowing
		return f.stmts(append(append([]ast.Stmt{}, s.List...), list[1:]...), k)
	case *ast.IfStmt:
		body := func() string {
			saved := f.snapshot()
			thenC := f.stmts(s.Body.List, rest)
			f.restore(saved)
			var elseC string
			switch e := s.Else.(type) {
			case nil:
				elseC = rest()
			case *ast.BlockStmt:
				elseC = f.stmts(e.List, rest)
			case *ast.IfStmt:
				elseC = f.stmts([]ast.Stmt{e}, rest)
			default:
				bad("unsupported else")
			}
			f.restore(saved)
			return f.cond(s.Cond, "\n "+thenC, "\n "+elseC)
		}
		if s.Init != nil {
			return f.stmts([]ast.Stmt{s.Init}, body)
		}
		return body()
	case *ast.LabeledStmt:
		bad("label below the top level of the function body")
	}
	bad("unsupported statement %T", list[0])
	return ""
}

type snap struct {
	vars  []string
	kinds map[string]kind
}

func (f *fn) snapshot() snap {
	k := map[string]kind{}
	for a, b := range f.kinds {
		k[a] = b
	}
	return snap{append([]string{}, f.vars...), k}
}
func (f *fn) restore(s snap) {
	f.vars = append([]string{}, s.vars...)
	f.kinds = map[string]kind{}
	for a, b := range s.kinds {
		f.kinds[a] = b
	}
}

func translate(fd *ast.FuncDecl, prefix, lean string, comparable bool) string {
	ps := fd.Type.Params.List
	var names []string
	for _, p := range ps {
		for _, n := range p.Names {
			names = append(names, n.Name)
		}
	}
	if len(names) != 2 {
		bad("%s: expected (key, values)", fd.Name.Name)
	}
	if fd.Type.Results == nil || len(fd.Type.Results.List) != 1 {
		bad("%s: expected one result", fd.Name.Name)
	}
	if id, ok := fd.Type.Results.List[0].Type.(*ast.Ident); !ok || id.Name != "int" {
		bad("%s: result must be int", fd.Name.Name)
	}
	if _, ok := ps[len(ps)-1].Type.(*ast.ArrayType); !ok {
		bad("%s: second parameter must be a slice", fd.Name.Name)
	}
	f := &fn{name: lean, keyP: names[0], valsP: names[1], prefix: prefix, kinds: map[string]kind{}, comparable: comparable}
	body := fd.Body.List
	// find the (single) top-level label
	li := -1
	for i, s := range body {
		if _, ok := s.(*ast.LabeledStmt); ok {
			if li >= 0 {
				bad("%s: more than one label", fd.Name.Name)
			}
			li = i
		}
	}
	var out strings.Builder
	sig := fmt.Sprintf("{K : Type} (lt : K → K → Bool) (%s : K) (%s : List K)", lname(f.keyP), lname(f.valsP))
	if li < 0 {
		code := f.stmts(body, nil)
		fmt.Fprintf(&out, "def %s %s : Except String Int :=\n %s\n", lean, sig, code)
		return out.String()
	}
	ls := body[li].(*ast.LabeledStmt)
	// the prelude is translated first (it declares the carried variables) with the jump into
	// the loop as its continuation; the loop body is translated with the same variables in scope
	var loopDef string
	enter := func() string {
		f.label = ls.Label.Name
		f.carried = append([]string{}, f.vars...)
		for _, v := range f.carried {
			if f.kinds[v] != kInt {
				bad("%s: a key-typed local is live across the label", fd.Name.Name)
			}
		}
		saved := f.snapshot()
		loopBody := f.stmts(append([]ast.Stmt{ls.Stmt}, body[li+1:]...), nil)
		f.restore(saved)
		params, args := "", ""
		for _, v := range f.carried {
			params += ", " + lname(v)
			args += " " + lname(v)
		}
		wild := strings.Repeat(", _", len(f.carried))
		arrows := strings.Repeat("Int → ", len(f.carried))
		loopDef = fmt.Sprintf("def %s.loop %s : Nat → %sExcept String Int\n | 0%s => .error \"fuel\"\n | fuel + 1%s =>\n %s\n", lean, sig, arrows, wild, params, loopBody)
		return fmt.Sprintf("(%s.loop lt %s %s (%s.length + 1)%s)", lean, lname(f.keyP), lname(f.valsP), lname(f.valsP), args)
	}
	code := f.stmts(body[:li], enter)
	out.WriteString(loopDef)
	fmt.Fprintf(&out, "\ndef %s %s : Except String Int :=\n %s\n", lean, sig, code)
	return out.String()
}

var files = []struct{ file, prefix, ns string }{
	{"int32.go", "int32", "Int32"}, {"int64.go", "int64", "Int64"}, {"uint32.go", "uint32", "UInt32"},
	{"uint64.go", "uint64", "UInt64"}, {"string.go", "string", "Str"}, {"comparable.go", "comparable", "Cmp"},
}

func main() {
	if len(os.Args) != 2 {
		fmt.Fprintln(os.Stderr, "usage: gen_search <repo-dir>")
		os.Exit(2)
	}
	defer func() {
		if r := recover(); r != nil {
			if u, ok := r.(unsupported); ok {
				fmt.Fprintln(os.Stderr, "gen_search: outside the translator's grammar: "+u.msg)
				os.Exit(2)
			}
			panic(r)
		}
	}()
	var out strings.Builder
	out.WriteString("-- GENERATED by harness/cmd/gen_search from the six <type>.go files -- do not edit.\n")
	out.WriteString("import Gobptree.GoInt\nnamespace Gobptree.Generated\n")
	for _, fl := range files {
		fset := token.NewFileSet()
		af, err := parser.ParseFile(fset, filepath.Join(os.Args[1], fl.file), nil, 0)
		if err != nil {
			bad("parse %s: %v", fl.file, err)
		}
		find := func(name string) *ast.FuncDecl {
			for _, d := range af.Decls {
				if fd, ok := d.(*ast.FuncDecl); ok && fd.Recv == nil && fd.Name.Name == name && fd.Body != nil {
					return fd
				}
			}
			bad("%s: no func %s", fl.file, name)
			return nil
		}
		fmt.Fprintf(&out, "\nnamespace %s\n-- %s\n", fl.ns, fl.file)
		out.WriteString(translate(find(fl.prefix+"SearchGreaterThanOrEqualTo"), fl.prefix, "searchGE", fl.prefix == "comparable"))
		out.WriteString("\n")
		out.WriteString(translate(find(fl.prefix+"SearchLessThanOrEqualTo"), fl.prefix, "searchLE", fl.prefix == "comparable"))
		fmt.Fprintf(&out, "end %s\n", fl.ns)
	}
	out.WriteString("\nend Gobptree.Generated\n")
	fmt.Print(out.String())
}
