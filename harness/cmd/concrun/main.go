//go:build shadow

// concrun executes concurrent client programs against the SHADOW copy of
// gobptree (sources unchanged except the "sync" import) under the deterministic
// cooperative scheduler of package vsync. For every case it prints the
// schedule, the canonical event log and the final structure (the lines the Lean
// small-step model must reproduce) and evaluates the implementation-side
// oracles: linearizability (C03/C04/C05), deadlock (C06), lock state at rest
// (C09), lock coupling (C10), shape at quiescence (C08), and - when enabled by
// -writeframe or a case's `opt writeframe` line - the write frame of every
// scheduler step (C07). With -stepsnap or `opt stepsnap` the canonical rendering
// of the whole structure (the one of the `final` line) is also printed as an
// `s <tree>` line right before every `d` line: the structure in which that
// scheduling decision is taken, which the model must reproduce step by step.
package main

import (
	"bufio"
	"flag"
	"fmt"
	"math/rand"
	"os"
	"reflect"
	"sort"
	"strconv"
	"strings"
	"unsafe"

	"github.com/karrick/gobptree"
	"github.com/karrick/gobptree/vsync"
	"verifharness/adapter"
	"verifharness/lin"
	"verifharness/shape"
)

type clientOp struct {
	kind string
	args []string
	text string
}

type caseSpec struct {
	ty       string
	order    int
	pre      []string
	threads  [][]clientOp
	strategy []string
	id       string
	// engine options (command-line defaults, overridden by the case's `opt` line)
	writeframe  bool // C07: diff the structure around every scheduler step
	yieldUnlock bool // Unlock is a scheduling point too
	stepsnap    bool // print the structure (`s <tree>`) before every scheduling decision
}

var out *bufio.Writer

func fmtVal(v interface{}) string {
	if v == nil {
		return "nil"
	}
	if n, ok := v.(int64); ok {
		return strconv.FormatInt(n, 10)
	}
	return fmt.Sprintf("?%v", v)
}

func parseVal(s string) interface{} {
	if s == "nil" {
		return nil
	}
	n, err := strconv.ParseInt(s, 10, 64)
	if err != nil {
		panic("bad value " + s)
	}
	return n
}

func canonKey(ty, k string) string {
	if ty == "cmp" {
		if i := strings.IndexByte(k, '#'); i >= 0 {
			return k[:i]
		}
	}
	return k
}

func mkCallback(spec string) (f func(interface{}, bool) interface{}, yields bool) {
	if strings.HasPrefix(spec, "y") {
		yields = true
		spec = spec[1:]
	}
	if strings.HasPrefix(spec, "c") {
		v := parseVal(spec[1:])
		return func(interface{}, bool) interface{} { return v }, yields
	}
	d, err := strconv.ParseInt(spec[1:], 10, 64)
	if err != nil || spec[0] != 'a' {
		panic("bad callback " + spec)
	}
	return func(old interface{}, ok bool) interface{} {
		if n, isInt := old.(int64); ok && isInt {
			return n + d
		}
		return d
	}, yields
}

func parseOps(s string) []clientOp {
	var ops []clientOp
	for _, part := range strings.Split(s, ";") {
		f := strings.Fields(part)
		if len(f) == 0 {
			continue
		}
		ops = append(ops, clientOp{kind: f[0], args: f[1:], text: strings.Join(f, " ")})
	}
	return ops
}

type oracleMsg struct{ kind, detail string }

// opRec is one client operation of a run.
type opRec struct {
	op       clientOp
	inv, ret int
	res      string
	cbArgs   []string
	atInv    map[*vsync.Mutex]bool // mutexes of the nodes in the tree at invocation
}

// curOpOf returns the operation task tid is executing (its latest started one).
func curOpOf(recs [][]*opRec, tid int) *opRec {
	for i := len(recs[tid]) - 1; i >= 0; i-- {
		if recs[tid][i] != nil {
			return recs[tid][i]
		}
	}
	return nil
}

func runCase(cs *caseSpec, rng *rand.Rand, replay []int, record bool) (sched []int, lines []string, oracles []oracleMsg, enabledSets [][]int) {
	tr, err := adapter.New(cs.ty, cs.order)
	if err != nil || tr == nil {
		return nil, []string{"error constructor"}, []oracleMsg{{"ctor", fmt.Sprint(err)}}, nil
	}
	// sequential prefix (outside any run: the shadow mutex is a plain flag)
	for _, l := range cs.pre {
		f := strings.Fields(l)
		switch f[0] {
		case "ins":
			tr.Insert(f[1], parseVal(f[2]))
		case "del":
			tr.Delete(f[1])
		case "upd":
			cb, _ := mkCallback(f[2])
			tr.Update(f[1], cb)
		}
	}
	// initial contents for the linearizability oracle
	init := map[string]string{}
	{
		c := tr.NewScanner(minKey(cs.ty))
		for c.Scan() {
			k, v := c.Pair()
			init[canonKey(cs.ty, k)] = fmtVal(v)
		}
		c.Close()
	}
	recs := make([][]*opRec, len(cs.threads))
	var s *vsync.Sched
	var fns []func()
	cursors := make([]adapter.Cursor, len(cs.threads))
	exhausted := make([]bool, len(cs.threads))
	for ti := range cs.threads {
		ti := ti
		prog := cs.threads[ti]
		recs[ti] = make([]*opRec, len(prog))
		fns = append(fns, func() {
			for oi, op := range prog {
				r := &opRec{op: op, ret: -1}
				recs[ti][oi] = r
				r.inv = len(s.Log)
				switch op.kind {
				case "ins", "upd", "get", "ns":
					r.atInv = map[*vsync.Mutex]bool{}
					collectMutexes(tr.Snapshot(), r.atInv)
				}
				vsync.Note(fmt.Sprintf("inv %d %s", oi, op.text))
				res := "ok"
				switch op.kind {
				case "ins":
					tr.Insert(op.args[0], parseVal(op.args[1]))
				case "del":
					tr.Delete(op.args[0])
				case "get":
					v, ok := tr.Search(op.args[0])
					if ok {
						res = "val:" + fmtVal(v)
					} else {
						res = "absent"
					}
				case "upd":
					f, yields := mkCallback(op.args[1])
					tr.Update(op.args[0], func(old interface{}, ok bool) interface{} {
						a := "absent"
						if ok {
							a = fmtVal(old)
						}
						r.cbArgs = append(r.cbArgs, a)
						vsync.Note("cb " + a)
						if yields {
							vsync.Yield()
						}
						return f(old, ok)
					})
				case "ns":
					cursors[ti] = tr.NewScanner(op.args[0])
					exhausted[ti] = false
				case "scan":
					if cursors[ti] == nil || exhausted[ti] {
						res = "skip"
					} else if cursors[ti].Scan() {
						res = "true"
					} else {
						res = "false"
						exhausted[ti] = true
					}
				case "pair":
					if cursors[ti] == nil || exhausted[ti] {
						res = "skip"
					} else {
						k, v := cursors[ti].Pair()
						res = k + "=" + fmtVal(v)
					}
				case "close":
					if cursors[ti] == nil {
						res = "skip"
					} else {
						cursors[ti].Close()
						cursors[ti].Close() // idempotent
						exhausted[ti] = true
					}
				case "pause":
					vsync.Yield()
				default:
					panic("bad client op " + op.kind)
				}
				r.res = res
				r.ret = len(s.Log)
				vsync.Note(fmt.Sprintf("ret %d %s", oi, res))
			}
		})
	}
	s = vsync.New(fns)
	s.UnlockYields = cs.yieldUnlock
	step := 0
	rankBad := false
	rankStates := 0
	// C07 oracle (Lean: C07_write_frame): the step of task g that runs between two
	// scheduling decisions changes own fields only of nodes whose mutex g held when
	// the step began or acquired during it, and moves the root pointer only under
	// rootMutex. wfPrev is the structure before the step in progress, wfMay the
	// mutexes of that step (grown by OnAcquire), wfTid its task.
	var wf *wfState
	// stepSnaps[i] is the canonical structure at the i-th call of Choose, i.e. in the
	// state in which the i-th decision (the i-th `d` line) is taken
	var stepSnaps []string
	if cs.writeframe {
		wf = &wfState{tr: tr, rootMutex: findRootMutex(tr), everNode: map[*vsync.Mutex]bool{}}
	}
	s.Choose = func(st int, enabled []int) int {
		enabledSets = append(enabledSets, append([]int(nil), enabled...))
		var snapNow *gobptree.VerifNode
		if wf != nil {
			snapNow = tr.Snapshot()
			if msg := wf.endStep(snapNow); msg != "" {
				oracles = append(oracles, oracleMsg{"writeframe", msg})
			}
		}
		if cs.stepsnap {
			// unsynchronised snapshot, like the write-frame oracle's: every task is parked
			if snapNow == nil {
				snapNow = tr.Snapshot()
			}
			stepSnaps = append(stepSnaps, shape.Canon(snapNow, tr.FmtKey, fmtVal))
		}
		// C06 oracle (Lean: Ranked (levelRank tree)): in this state every task parked in
		// Lock() wants a mutex that comes after all it holds in the level order of the tree
		// (rootMutex, root, then level by level, left to right)
		if !rankBad {
			tids, wants := s.Waiting()
			var rank map[*vsync.Mutex]int
			for i, tid := range tids {
				held := s.HeldBy(tid)
				if len(held) == 0 {
					continue
				}
				if rank == nil {
					if snapNow == nil {
						snapNow = tr.Snapshot()
					}
					rank = levelRank(snapNow)
					rankStates++
				}
				rw := rank[wants[i]]
				for _, h := range held {
					if rank[h] >= rw {
						rankBad = true
						oracles = append(oracles, oracleMsg{"lockorder", fmt.Sprintf("task %d waits for a mutex of level-order rank %d while holding one of rank %d (0 = not a node of the tree)", tid, rw, rank[h])})
						break
					}
				}
			}
		}
		var pick int
		if step < len(replay) {
			pick = replay[step]
		} else if rng != nil {
			// bias: keep running the same task with probability 1/2 when it is enabled
			pick = enabled[rng.Intn(len(enabled))]
			if len(sched) > 0 && rng.Intn(100) < 35 {
				last := sched[len(sched)-1]
				for _, e := range enabled {
					if e == last {
						pick = last
					}
				}
			}
		} else {
			pick = enabled[0]
		}
		step++
		sched = append(sched, pick)
		if wf != nil {
			what := ""
			if r := curOpOf(recs, pick); r != nil {
				what = r.op.text
			}
			wf.beginStep(snapNow, pick, step-1, what, s.HeldBy(pick))
		}
		return pick
	}
	// C10 oracle: lock coupling of point operations and NewScanner
	curOp := func(tid int) *opRec { return curOpOf(recs, tid) }
	s.OnAcquire = func(tid int, m *vsync.Mutex, heldBefore []*vsync.Mutex) {
		if wf != nil {
			wf.acquired(tid, m)
		}
		r := curOp(tid)
		if r == nil {
			return
		}
		// fresh: the node did not exist when this operation was invoked
		fresh := r.atInv != nil && !r.atInv[m]
		switch r.op.kind {
		case "ins", "upd", "get", "ns":
		default:
			return
		}
		// held set after this acquisition: heldBefore + m
		if len(heldBefore) >= 3 {
			oracles = append(oracles, oracleMsg{"coupling", fmt.Sprintf("task %d (%s) holds %d locks while acquiring another", tid, r.op.text, len(heldBefore))})
			return
		}
		if len(heldBefore) == 2 && !fresh {
			oracles = append(oracles, oracleMsg{"coupling", fmt.Sprintf("task %d (%s) acquires a third, pre-existing lock while holding two", tid, r.op.text)})
			return
		}
		if len(heldBefore) >= 1 && !fresh {
			// the newly locked node must be a child of the most recently locked held node
			parent := heldBefore[len(heldBefore)-1]
			if !isChildOf(tr, parent, m) {
				oracles = append(oracles, oracleMsg{"coupling", fmt.Sprintf("task %d (%s) locks a node that is not a child of the node it holds", tid, r.op.text)})
			}
		}
	}
	s.Run()
	if wf != nil {
		// the last step (and the step that ended in a deadlock, panic or abort)
		if msg := wf.endStep(tr.Snapshot()); msg != "" {
			oracles = append(oracles, oracleMsg{"writeframe", msg})
		}
	}
	// ---- canonical output
	midName := map[int]string{}
	for _, e := range s.Log {
		if e.Kind == "acq" {
			if _, ok := midName[e.Mid]; !ok {
				midName[e.Mid] = "m" + strconv.Itoa(len(midName))
			}
		}
	}
	decs := 0
	for _, e := range s.Log {
		switch e.Kind {
		case "dec":
			// a decision that was rejected (schedule names a disabled task) has no `d`
			// line and hence no `s` line either
			if cs.stepsnap && decs < len(stepSnaps) {
				lines = append(lines, "s "+stepSnaps[decs])
			}
			decs++
			lines = append(lines, fmt.Sprintf("d %d %s", e.Tid, e.Text))
		case "acq":
			lines = append(lines, fmt.Sprintf("a %d %s", e.Tid, midName[e.Mid]))
		case "rel":
			lines = append(lines, fmt.Sprintf("r %d %s", e.Tid, midName[e.Mid]))
		case "note":
			lines = append(lines, fmt.Sprintf("n %d %s", e.Tid, e.Text))
		}
	}
	lines = append(lines, fmt.Sprintf("# lockorder states %d", rankStates))
	if wf != nil {
		lines = append(lines, fmt.Sprintf("# writeframe steps %d nodes %d changed %d yieldunlock %v rootmutex %v", wf.steps, wf.nodes, wf.changed, cs.yieldUnlock, wf.rootMutex != nil))
	}
	if s.Deadlock != "" {
		lines = append(lines, "deadlock")
		oracles = append(oracles, oracleMsg{"deadlock", s.Deadlock})
	}
	if s.Aborted != "" {
		lines = append(lines, "aborted "+s.Aborted)
		if strings.HasPrefix(s.Aborted, "step limit") {
			oracles = append(oracles, oracleMsg{"livelock", s.Aborted})
		}
	}
	for tid, p := range s.Panics() {
		oracles = append(oracles, oracleMsg{"panic", fmt.Sprintf("task %d panicked: %v", tid, p)})
	}
	quiescent := s.Deadlock == "" && s.Aborted == "" && len(s.Panics()) == 0
	// ---- C09: lock state at rest
	if quiescent {
		var heldLeaves []interface{}
		open := 0
		for ti := range cs.threads {
			if cursors[ti] != nil {
				if l, _ := cursors[ti].Leaf(); l != nil {
					heldLeaves = append(heldLeaves, l)
					open++
				}
			}
			want := 0
			if cursors[ti] != nil {
				if l, _ := cursors[ti].Leaf(); l != nil {
					want = 1
				}
			}
			if got := len(s.HeldBy(ti)); got != want {
				oracles = append(oracles, oracleMsg{"locks", fmt.Sprintf("task %d finished holding %d locks, expected %d", ti, got, want)})
			}
		}
		if open == 0 {
			for _, p := range shape.CheckLocks(tr.Snapshot(), nil) {
				oracles = append(oracles, oracleMsg{"locks", "after all tasks finished: " + p})
			}
		}
		// per-op: locks held when an operation returned
		held := map[int]map[string]bool{}
		for _, l := range lines {
			if strings.HasPrefix(l, "s ") {
				continue
			}
			f := strings.Fields(l)
			tid, _ := strconv.Atoi(f[1])
			if held[tid] == nil {
				held[tid] = map[string]bool{}
			}
			switch f[0] {
			case "a":
				held[tid][f[2]] = true
			case "r":
				delete(held[tid], f[2])
			case "n":
				if f[2] == "ret" {
					oi, _ := strconv.Atoi(f[3])
					op := cs.threads[tid][oi]
					want := 0
					switch op.kind {
					case "ns", "pair", "pause":
						want = -1 // depends on the session; checked at scan/close
					case "scan":
						if f[4] == "true" {
							want = 1
						}
						if f[4] == "skip" {
							want = -1
						}
					case "close":
						if f[4] == "skip" {
							want = -1
						}
					}
					if want >= 0 && len(held[tid]) != want {
						oracles = append(oracles, oracleMsg{"locks", fmt.Sprintf("task %d returned from `%s` holding %d locks, expected %d", tid, op.text, len(held[tid]), want)})
					}
					if op.kind == "ns" && len(held[tid]) != 1 {
						oracles = append(oracles, oracleMsg{"locks", fmt.Sprintf("task %d returned from `%s` holding %d locks, expected exactly one leaf", tid, op.text, len(held[tid]))})
					}
					// C10: a resting cursor holds exactly one leaf
					if (op.kind == "ns" || (op.kind == "scan" && f[4] == "true")) && len(held[tid]) > 1 {
						oracles = append(oracles, oracleMsg{"resting", fmt.Sprintf("task %d rests after `%s` holding %d locks: a resting cursor holds exactly one leaf", tid, op.text, len(held[tid]))})
					}
				}
			}
		}
	}
	// close cursors left open so the final inspection can proceed
	for ti := range cs.threads {
		if cursors[ti] != nil && quiescent {
			cursors[ti].Close()
		}
	}
	final := map[string]string{}
	if quiescent {
		snap := tr.Snapshot()
		lines = append(lines, "final "+shape.Canon(snap, tr.FmtKey, fmtVal))
		for _, p := range shape.Check(snap, cs.order, tr.FmtKey, tr.Less) {
			if cs.order >= 4 {
				oracles = append(oracles, oracleMsg{"shape", p})
			}
		}
		var ls []*gobptree.VerifNode
		collectLeaves(snap, &ls)
		for _, l := range ls {
			for i, r := range l.Runts {
				if i < len(l.Values) {
					final[canonKey(cs.ty, tr.FmtKey(r))] = fmtVal(l.Values[i])
				}
			}
		}
	} else {
		final = nil
	}
	// ---- C03/C04/C05: linearizability of the recorded history
	var ops []lin.Op
	less := func(a, b string) bool { return tr.Less(a, b) }
	for ti := range recs {
		var start string
		var prev string
		havePrev := false
		nsInv := -1
		for oi, r := range recs[ti] {
			if r == nil {
				continue
			}
			o := lin.Op{Tid: ti, Idx: oi, Inv: r.inv, Ret: r.ret, Text: r.op.text + " -> " + r.res}
			switch r.op.kind {
			case "ins":
				o.Kind, o.Key, o.Val = "ins", canonKey(cs.ty, r.op.args[0]), fmtVal(parseVal(r.op.args[1]))
			case "del":
				o.Kind, o.Key = "del", canonKey(cs.ty, r.op.args[0])
			case "get":
				o.Kind, o.Key, o.Val = "get", canonKey(cs.ty, r.op.args[0]), r.res
			case "upd":
				f, _ := mkCallback(r.op.args[1])
				o.Kind, o.Key = "upd", canonKey(cs.ty, r.op.args[0])
				if r.ret >= 0 && len(r.cbArgs) != 1 {
					oracles = append(oracles, oracleMsg{"callback", fmt.Sprintf("task %d `%s`: callback invoked %d times", ti, r.op.text, len(r.cbArgs))})
				}
				if len(r.cbArgs) >= 1 {
					o.Val = r.cbArgs[0]
					if o.Val == "absent" {
						o.Store = fmtVal(f(nil, false))
					} else {
						o.Store = fmtVal(f(parseVal(o.Val), true))
					}
				} else {
					o.Val = "?"
					o.Store = fmtVal(f(nil, false))
					if r.ret < 0 {
						continue // pending, callback not yet run: no effect possible
					}
				}
			case "ns":
				start, havePrev, nsInv = r.op.args[0], false, r.inv
				continue
			case "scan":
				if r.ret < 0 || r.res == "skip" {
					continue
				}
				o.Kind = "succ"
				if havePrev {
					o.Key, o.Strict = prev, true
				} else {
					o.Key, o.Strict = canonKey(cs.ty, start), false
					if nsInv >= 0 {
						o.Inv = nsInv
					}
				}
				if r.res == "true" {
					// the key is revealed by the following pair; if the client never
					// calls pair we cannot check this step
					if oi+1 < len(recs[ti]) && recs[ti][oi+1] != nil && recs[ti][oi+1].op.kind == "pair" && recs[ti][oi+1].ret >= 0 {
						kv := recs[ti][oi+1].res
						k := kv[:strings.IndexByte(kv, '=')]
						o.Res = canonKey(cs.ty, k)
						prev, havePrev = o.Res, true
					} else {
						continue
					}
				} else {
					o.Res = ""
				}
			case "pair":
				if r.ret < 0 || r.res == "skip" {
					continue
				}
				kv := r.res
				i := strings.IndexByte(kv, '=')
				o.Kind, o.Key, o.Val = "get", canonKey(cs.ty, kv[:i]), "val:"+kv[i+1:]
			default:
				continue
			}
			ops = append(ops, o)
		}
	}
	if msg := lin.Check(ops, init, final, less); msg != "" && msg != "budget" {
		oracles = append(oracles, oracleMsg{"linearizability", msg})
	} else if msg == "budget" {
		lines = append(lines, "# linearizability search budget exhausted (inconclusive)")
	}
	return
}

// levelRank numbers the nodes' mutexes in level order from 1 (root); anything else,
// in particular the tree's rootMutex, has rank 0.
func levelRank(root *gobptree.VerifNode) map[*vsync.Mutex]int {
	rank := map[*vsync.Mutex]int{}
	level := []*gobptree.VerifNode{root}
	n := 0
	for len(level) > 0 {
		var next []*gobptree.VerifNode
		for _, x := range level {
			if x == nil || x.Truncated {
				continue
			}
			if _, seen := rank[x.Mutex]; !seen {
				n++
				rank[x.Mutex] = n
			}
			next = append(next, x.Children...)
		}
		level = next
	}
	return rank
}

func collectLeaves(n *gobptree.VerifNode, acc *[]*gobptree.VerifNode) {
	if n == nil || n.Truncated {
		return
	}
	if !n.Internal {
		*acc = append(*acc, n)
		return
	}
	for _, c := range n.Children {
		collectLeaves(c, acc)
	}
}

func collectMutexes(n *gobptree.VerifNode, acc map[*vsync.Mutex]bool) {
	if n == nil || n.Truncated {
		return
	}
	acc[n.Mutex] = true
	for _, c := range n.Children {
		collectMutexes(c, acc)
	}
}

// isChildOf reports whether the node guarded by c is currently a child of the
// node guarded by p, or c guards the root and p guards no node (the tree lock).
func isChildOf(tr adapter.Tree, p, c *vsync.Mutex) bool {
	root := tr.Snapshot()
	var find func(n *gobptree.VerifNode) *gobptree.VerifNode
	find = func(n *gobptree.VerifNode) *gobptree.VerifNode {
		if n == nil || n.Truncated {
			return nil
		}
		if n.Mutex == p {
			return n
		}
		for _, ch := range n.Children {
			if r := find(ch); r != nil {
				return r
			}
		}
		return nil
	}
	pn := find(root)
	if pn == nil {
		// p guards no node in the tree: it is the tree-level lock; its "child" is the root
		return root != nil && root.Mutex == c
	}
	for _, ch := range pn.Children {
		if ch != nil && ch.Mutex == c {
			return true
		}
	}
	return false
}

func minKey(ty string) string {
	switch ty {
	case "i32":
		return "-2147483648"
	case "i64", "cmp":
		return "-9223372036854775808"
	case "str":
		return "_"
	}
	return "0"
}

func main() {
	dfsMax := flag.Int("dfs-max", 20000, "maximum number of schedules per dfs case")
	wfFlag := flag.Bool("writeframe", false, "C07 write-frame oracle: diff the structure around every scheduler step")
	yuFlag := flag.Bool("yieldunlock", false, "Unlock is a scheduling point too (a goroutine parks, enabled, right after releasing)")
	ssFlag := flag.Bool("stepsnap", false, "print the canonical structure (`s <tree>`, as in the `final` line) before every scheduling decision")
	flag.Parse()
	in := bufio.NewScanner(os.Stdin)
	in.Buffer(make([]byte, 1<<20), 1<<26)
	out = bufio.NewWriterSize(os.Stdout, 1<<16)
	defer out.Flush()
	var cs *caseSpec
	caseNo := 0
	for in.Scan() {
		line := strings.TrimSpace(in.Text())
		f := strings.Fields(line)
		if len(f) == 0 || strings.HasPrefix(line, "#") {
			continue
		}
		switch f[0] {
		case "cbegin":
			o, _ := strconv.Atoi(f[2])
			cs = &caseSpec{ty: f[1], order: o, id: strconv.Itoa(caseNo), writeframe: *wfFlag, yieldUnlock: *yuFlag, stepsnap: *ssFlag}
			caseNo++
		case "opt":
			// per-case engine options, so that a replay file carries them
			for _, o := range f[1:] {
				switch o {
				case "writeframe":
					cs.writeframe = true
				case "yieldunlock":
					cs.yieldUnlock = true
				case "nowriteframe":
					cs.writeframe = false
				case "noyieldunlock":
					cs.yieldUnlock = false
				case "stepsnap":
					cs.stepsnap = true
				case "nostepsnap":
					cs.stepsnap = false
				}
			}
		case "pre":
			cs.pre = append(cs.pre, strings.Join(f[1:], " "))
		case "thread":
			cs.threads = append(cs.threads, parseOps(strings.Join(f[2:], " ")))
		case "strategy":
			cs.strategy = f[1:]
		case "cend":
			runStrategy(cs, *dfsMax)
			cs = nil
		}
	}
}

func emitRun(cs *caseSpec, sched []int, lines []string, oracles []oracleMsg) {
	fmt.Fprintf(out, "case %s\n", cs.id)
	ss := make([]string, len(sched))
	for i, t := range sched {
		ss[i] = strconv.Itoa(t)
	}
	fmt.Fprintf(out, "sched %s\n", strings.Join(ss, " "))
	for _, l := range lines {
		fmt.Fprintln(out, l)
	}
	for _, o := range oracles {
		fmt.Fprintf(out, "ORACLE %s %s\n", o.kind, o.detail)
	}
	fmt.Fprintln(out, "cend")
}

func runStrategy(cs *caseSpec, dfsMax int) {
	switch cs.strategy[0] {
	case "random":
		seed, _ := strconv.ParseInt(cs.strategy[1], 10, 64)
		n := 1
		if len(cs.strategy) > 2 {
			n, _ = strconv.Atoi(cs.strategy[2])
		}
		for i := 0; i < n; i++ {
			rng := rand.New(rand.NewSource(seed + int64(i)*7919))
			sched, lines, oracles, _ := runCase(cs, rng, nil, true)
			emitRun(cs, sched, lines, oracles)
		}
	case "replay":
		var rp []int
		for _, s := range cs.strategy[1:] {
			n, _ := strconv.Atoi(s)
			rp = append(rp, n)
		}
		sched, lines, oracles, _ := runCase(cs, nil, rp, true)
		emitRun(cs, sched, lines, oracles)
	case "dfs":
		// stateless exploration of every schedule by re-execution
		var prefix []int
		runs, bad := 0, 0
		seenKinds := map[string]int{}
		emitAll := len(cs.strategy) > 1 && cs.strategy[1] == "all"
		wfSteps, wfNodes, quiet := 0, 0, 0 // over the runs that are not emitted
		// the exploration itself runs without the per-step structure lines; a run that is
		// emitted is re-executed under its own schedule (the engine is deterministic) with them
		explore := *cs
		explore.stepsnap = false
		for {
			sched, lines, oracles, en := runCase(&explore, nil, prefix, true)
			runs++
			if len(oracles) > 0 {
				bad++
			}
			newKind := false
			for _, o := range oracles {
				seenKinds[o.kind]++
				if seenKinds[o.kind] <= 2 {
					newKind = true
				}
			}
			if emitAll || newKind || runs == 1 {
				if cs.stepsnap {
					s2, l2, o2, _ := runCase(cs, nil, sched, true)
					emitRun(cs, s2, l2, o2)
				} else {
					emitRun(cs, sched, lines, oracles)
				}
			} else if cs.writeframe {
				quiet++
				for _, l := range lines {
					if strings.HasPrefix(l, "# writeframe steps ") {
						f := strings.Fields(l)
						a, _ := strconv.Atoi(f[3])
						b, _ := strconv.Atoi(f[5])
						wfSteps += a
						wfNodes += b
					}
				}
			}
			// next schedule: backtrack to the deepest decision with an untried alternative
			i := len(sched) - 1
			for ; i >= 0; i-- {
				alts := en[i]
				idx := sort.SearchInts(alts, sched[i])
				if idx+1 < len(alts) {
					prefix = append(append([]int(nil), sched[:i]...), alts[idx+1])
					break
				}
			}
			if i < 0 || runs >= dfsMax {
				if cs.writeframe {
					fmt.Fprintf(out, "dfs case %s runs %d bad %d exhaustive %v quiet %d wfsteps %d wfnodes %d\n", cs.id, runs, bad, i < 0, quiet, wfSteps, wfNodes)
				} else {
					fmt.Fprintf(out, "dfs case %s runs %d bad %d exhaustive %v\n", cs.id, runs, bad, i < 0)
				}
				break
			}
		}
	}
}

// ---------------------------------------------------------------------------
// C07 write-frame oracle

// wfState carries the oracle across the scheduling decisions of one run.
type wfState struct {
	tr                    adapter.Tree
	rootMutex             *vsync.Mutex          // the tree's rootMutex field, nil if the type has none
	everNode              map[*vsync.Mutex]bool // every mutex that ever guarded a node of a snapshot
	prev                  *gobptree.VerifNode   // structure before the step in progress (nil: no step)
	tid, step             int
	what                  string
	may                   map[*vsync.Mutex]bool // held when the step began + acquired during it
	reported              bool
	steps, nodes, changed int
}

// findRootMutex locates the field `rootMutex` of the tree behind the adapter by
// reflection (the adapter wraps a pointer to the tree as its only field). In the
// shadow build the field's type is vsync.Mutex.
func findRootMutex(tr adapter.Tree) (m *vsync.Mutex) {
	defer func() {
		if recover() != nil {
			m = nil
		}
	}()
	v := reflect.ValueOf(tr)
	for v.Kind() == reflect.Ptr || v.Kind() == reflect.Interface {
		v = v.Elem()
	}
	if v.Kind() != reflect.Struct || v.NumField() == 0 {
		return nil
	}
	t := v.Field(0)
	for t.Kind() == reflect.Ptr || t.Kind() == reflect.Interface {
		t = t.Elem()
	}
	if t.Kind() != reflect.Struct {
		return nil
	}
	f := t.FieldByName("rootMutex")
	if !f.IsValid() || !f.CanAddr() || f.Type() != reflect.TypeOf(vsync.Mutex{}) {
		return nil
	}
	return (*vsync.Mutex)(unsafe.Pointer(f.UnsafeAddr()))
}

func wfIndex(n *gobptree.VerifNode, acc map[interface{}]*gobptree.VerifNode) {
	if n == nil || n.Truncated {
		return
	}
	if _, seen := acc[n.Self]; seen {
		return
	}
	acc[n.Self] = n
	for _, c := range n.Children {
		wfIndex(c, acc)
	}
}

func wfIdent(n *gobptree.VerifNode) interface{} {
	if n == nil {
		return nil
	}
	if n.Truncated {
		return "truncated"
	}
	return n.Self
}

func (w *wfState) beginStep(snap *gobptree.VerifNode, tid, step int, what string, held []*vsync.Mutex) {
	w.prev, w.tid, w.step, w.what = snap, tid, step, what
	w.may = make(map[*vsync.Mutex]bool, len(held)+2)
	for _, h := range held {
		w.may[h] = true
	}
}

func (w *wfState) acquired(tid int, m *vsync.Mutex) {
	if w.prev != nil && tid == w.tid {
		w.may[m] = true
	}
}

func (w *wfState) keyEq(a, b interface{}) bool {
	switch a.(type) {
	case int32, int64, uint32, uint64, string:
		return a == b
	}
	return w.tr.FmtKey(a) == w.tr.FmtKey(b)
}

func valEq(a, b interface{}) bool {
	switch a.(type) {
	case nil, int64, int, string, bool:
		return a == b
	}
	return fmt.Sprintf("%v", a) == fmt.Sprintf("%v", b)
}

func (w *wfState) fmtKeys(ks []interface{}) string {
	out := make([]string, len(ks))
	for i, k := range ks {
		out[i] = w.tr.FmtKey(k)
	}
	return "[" + strings.Join(out, " ") + "]"
}

func fmtVals(vs []interface{}) string {
	out := make([]string, len(vs))
	for i, v := range vs {
		out[i] = fmt.Sprintf("%v", v)
	}
	return "[" + strings.Join(out, " ") + "]"
}

// endStep compares the structure before the step in progress with `now` and
// returns a description of the first write outside the frame ("" if none).
func (w *wfState) endStep(now *gobptree.VerifNode) string {
	if w.prev == nil {
		return ""
	}
	before := map[interface{}]*gobptree.VerifNode{}
	after := map[interface{}]*gobptree.VerifNode{}
	wfIndex(w.prev, before)
	wfIndex(now, after)
	prevRoot, nowRoot := wfIdent(w.prev), wfIdent(now)
	w.prev = nil
	w.steps++
	for _, n := range before {
		w.everNode[n.Mutex] = true
	}
	for _, n := range after {
		w.everNode[n.Mutex] = true
	}
	var msgs []string
	kindOf := func(n *gobptree.VerifNode) string {
		if n.Internal {
			return "internal node"
		}
		return "leaf"
	}
	bad := func(field string, n *gobptree.VerifNode, detail string) {
		msgs = append(msgs, fmt.Sprintf("%s of a pre-existing %s %s written by task %d (%s) in step %d without holding its mutex: %s",
			field, kindOf(n), w.fmtKeys(n.Runts), w.tid, w.what, w.step, detail))
	}
	for id, b := range before {
		w.nodes++
		a := after[id]
		if a == nil {
			w.changed++
			if !w.may[b.Mutex] {
				bad("membership", b, "the node left the tree")
			}
			continue
		}
		field, detail := "", ""
		if len(a.Runts) != len(b.Runts) {
			field, detail = "runts", w.fmtKeys(b.Runts)+" -> "+w.fmtKeys(a.Runts)
		} else {
			for i := range b.Runts {
				if !w.keyEq(b.Runts[i], a.Runts[i]) {
					field, detail = "runts", w.fmtKeys(b.Runts)+" -> "+w.fmtKeys(a.Runts)
					break
				}
			}
		}
		if field == "" {
			if len(a.Values) != len(b.Values) {
				field, detail = "values", fmtVals(b.Values)+" -> "+fmtVals(a.Values)
			} else {
				for i := range b.Values {
					if !valEq(b.Values[i], a.Values[i]) {
						field, detail = "values", fmtVals(b.Values)+" -> "+fmtVals(a.Values)
						break
					}
				}
			}
		}
		if field == "" && a.Next != b.Next {
			field, detail = "next", "the next pointer moved"
		}
		if field == "" {
			if len(a.Children) != len(b.Children) {
				field, detail = "children", fmt.Sprintf("%d -> %d children", len(b.Children), len(a.Children))
			} else {
				for i := range b.Children {
					if wfIdent(b.Children[i]) != wfIdent(a.Children[i]) {
						field, detail = "children", fmt.Sprintf("child %d is another node", i)
						break
					}
				}
			}
		}
		if field == "" && (a.Internal != b.Internal || a.Mutex != b.Mutex) {
			field, detail = "identity", "kind or mutex of the node changed"
		}
		if field != "" {
			w.changed++
			if !w.may[b.Mutex] {
				bad(field, b, detail)
			}
		}
	}
	if prevRoot != nowRoot {
		w.changed++
		ok := false
		if w.rootMutex != nil {
			ok = w.may[w.rootMutex]
		} else {
			// no rootMutex field found: like the coupling oracle, a held mutex that never
			// guarded a node is the tree-level lock
			for m := range w.may {
				if !w.everNode[m] {
					ok = true
				}
			}
		}
		if !ok {
			msgs = append(msgs, fmt.Sprintf("root pointer moved by task %d (%s) in step %d without holding rootMutex", w.tid, w.what, w.step))
		}
	}
	if len(msgs) == 0 || w.reported {
		return ""
	}
	w.reported = true // one report per run
	sort.Strings(msgs)
	return strings.Join(msgs, " || ")
}
