//go:build shadow

// concrun executes concurrent client programs against the SHADOW copy of
// gobptree (sources unchanged except the "sync" import) under the deterministic
// cooperative scheduler of package vsync. For every case it prints the
// schedule, the canonical event log and the final structure (the lines the Lean
// small-step model must reproduce) and evaluates the implementation-side
// oracles: linearizability (C03/C04/C05), deadlock (C06), lock state at rest
// (C09), lock coupling (C10), shape at quiescence (C08), and - when enabled by
// -writeframe or a case's `opt writeframe` line - the write frame of every
// scheduler step (C07), and with `opt readframe` the read-frame probe (C07, see rfState).
// With -stepsnap or `opt stepsnap` the canonical rendering
// of the whole structure (the one of the `final` line) is also printed as an
// `s <tree>` line right before every `d` line: the structure in which that
// scheduling decision is taken, which the model must reproduce step by step.
package main

import (
	"bufio"
	"flag"
	"fmt"
	"math/rand"
	"os"
	"reflect"
	"sort"
	"strconv"
	"strings"
	"unsafe"

	"github.com/karrick/gobptree"
	"github.com/karrick/gobptree/vsync"
	"verifharness/adapter"
	"verifharness/lin"
	"verifharness/shape"
)

type clientOp struct {
	kind string
	args []string
	text string
}

type caseSpec struct {
	ty       string
	order    int
	pre      []string
	threads  [][]clientOp
	strategy []string
	id       string
	// engine options (command-line defaults, overridden by the case's `opt` line)
	writeframe  bool // C07: diff the structure around every scheduler step
	yieldUnlock bool // Unlock is a scheduling point too
	stepsnap    bool // print the structure (`s <tree>`) before every scheduling decision
	readframe   bool // C07: scramble, for the duration of each step, the nodes the stepping task does not hold
	// scheduling policy of a `strategy lead` run (nil: uniform random with stickiness)
	pol *policy
}

// policy is the scheduling policy of one run of
//
//	strategy lead <tid> <nops> <modes> <seed> <n> [pace <t>:<base>:<stride>,...]
//
// Task leadTid (a cursor) runs alone (whenever it is enabled) until it has started leadOps
// client operations. From then on the other tasks (writers) are PACED: task t may begin its
// i-th operation (i = 0, 1, ..) only once the lead task has started base + i*stride operations
// - the generator knows which leaf the cursor is about to enter after that many operations
// and aims the writer's i-th operation at that leaf. Among the tasks that may run, the mode
// decides (run r of the n runs uses the r-th mode, cyclically):
//
//	queue   writers first, but first come, first served on the mutex the lead task wants: a
//	        writer that asks for the leaf the cursor is about to enter gets it after the
//	        cursor, stays queued on it for the cursor's whole stay and gets in the moment
//	        the cursor lets go of it
//	ahead   writers first: the writer changes the leaf right before the cursor enters it (or
//	        the cursor has to wait for the writer)
//	behind  as queue, one operation later: the writer heads for the leaf when the cursor is
//	        about to leave it
//	rand    the uniform random choice with stickiness of `strategy random` (paced)
//	cursor  the lead task with probability 3/4 whenever it is enabled (writers not paced)
//
// In the writers-first modes the lead task still runs with probability 1/16 when a writer
// could, so that the runs of one mode differ.
type policy struct {
	leadTid, leadOps int
	mode             string
	pace             map[int][2]int // task -> (base, stride)
}

var out *bufio.Writer

func fmtVal(v interface{}) string {
	if v == nil {
		return "nil"
	}
	if n, ok := v.(int64); ok {
		return strconv.FormatInt(n, 10)
	}
	return fmt.Sprintf("?%v", v)
}

func parseVal(s string) interface{} {
	if s == "nil" {
		return nil
	}
	n, err := strconv.ParseInt(s, 10, 64)
	if err != nil {
		panic("bad value " + s)
	}
	return n
}

func canonKey(ty, k string) string {
	if ty == "cmp" {
		if i := strings.IndexByte(k, '#'); i >= 0 {
			return k[:i]
		}
	}
	return k
}

func mkCallback(spec string) (f func(interface{}, bool) interface{}, yields bool) {
	if strings.HasPrefix(spec, "y") {
		yields = true
		spec = spec[1:]
	}
	if strings.HasPrefix(spec, "c") {
		v := parseVal(spec[1:])
		return func(interface{}, bool) interface{} { return v }, yields
	}
	d, err := strconv.ParseInt(spec[1:], 10, 64)
	if err != nil || spec[0] != 'a' {
		panic("bad callback " + spec)
	}
	return func(old interface{}, ok bool) interface{} {
		if n, isInt := old.(int64); ok && isInt {
			return n + d
		}
		return d
	}, yields
}

func parseOps(s string) []clientOp {
	var ops []clientOp
	for _, part := range strings.Split(s, ";") {
		f := strings.Fields(part)
		if len(f) == 0 {
			continue
		}
		ops = append(ops, clientOp{kind: f[0], args: f[1:], text: strings.Join(f, " ")})
	}
	return ops
}

type oracleMsg struct{ kind, detail string }

// opRec is one client operation of a run.
type opRec struct {
	op       clientOp
	inv, ret int
	res      string
	cbArgs   []string
	atInv    map[*vsync.Mutex]bool // mutexes of the nodes in the tree at invocation
}

// curOpOf returns the operation task tid is executing (its latest started one).
func curOpOf(recs [][]*opRec, tid int) *opRec {
	for i := len(recs[tid]) - 1; i >= 0; i-- {
		if recs[tid][i] != nil {
			return recs[tid][i]
		}
	}
	return nil
}

func runCase(cs *caseSpec, rng *rand.Rand, replay []int, record bool) (sched []int, lines []string, oracles []oracleMsg, enabledSets [][]int) {
	tr, err := adapter.New(cs.ty, cs.order)
	if err != nil || tr == nil {
		return nil, []string{"error constructor"}, []oracleMsg{{"ctor", fmt.Sprint(err)}}, nil
	}
	// sequential prefix (outside any run: the shadow mutex is a plain flag)
	for _, l := range cs.pre {
		f := strings.Fields(l)
		switch f[0] {
		case "ins":
			tr.Insert(f[1], parseVal(f[2]))
		case "del":
			tr.Delete(f[1])
		case "upd":
			cb, _ := mkCallback(f[2])
			tr.Update(f[1], cb)
		}
	}
	// initial contents for the linearizability oracle
	init := map[string]string{}
	{
		c := tr.NewScanner(minKey(cs.ty))
		for c.Scan() {
			k, v := c.Pair()
			init[canonKey(cs.ty, k)] = fmtVal(v)
		}
		c.Close()
	}
	recs := make([][]*opRec, len(cs.threads))
	started := make([]int, len(cs.threads)) // client operations started, per task
	var s *vsync.Sched
	var fns []func()
	cursors := make([]adapter.Cursor, len(cs.threads))
	exhausted := make([]bool, len(cs.threads))
	cbHeldBad := false // C10 callback oracle already reported in this run
	for ti := range cs.threads {
		ti := ti
		prog := cs.threads[ti]
		recs[ti] = make([]*opRec, len(prog))
		fns = append(fns, func() {
			for oi, op := range prog {
				r := &opRec{op: op, ret: -1}
				recs[ti][oi] = r
				started[ti]++
				r.inv = len(s.Log)
				switch op.kind {
				case "ins", "upd", "get", "ns":
					r.atInv = map[*vsync.Mutex]bool{}
					collectMutexes(tr.Snapshot(), r.atInv)
				}
				vsync.Note(fmt.Sprintf("inv %d %s", oi, op.text))
				res := "ok"
				switch op.kind {
				case "ins":
					tr.Insert(op.args[0], parseVal(op.args[1]))
				case "del":
					tr.Delete(op.args[0])
				case "get":
					v, ok := tr.Search(op.args[0])
					if ok {
						res = "val:" + fmtVal(v)
					} else {
						res = "absent"
					}
				case "upd":
					f, yields := mkCallback(op.args[1])
					tr.Update(op.args[0], func(old interface{}, ok bool) interface{} {
						a := "absent"
						if ok {
							a = fmtVal(old)
						}
						r.cbArgs = append(r.cbArgs, a)
						vsync.Note("cb " + a)
						// C10: "a running Update callback holds exactly one leaf" (R7-C10-d kept the
						// leaf's parent locked across the callback: within the parent+child bound,
						// so the coupling count alone did not see it)
						if n := len(s.HeldBy(ti)); n != 1 && !cbHeldBad {
							cbHeldBad = true
							oracles = append(oracles, oracleMsg{"coupling", fmt.Sprintf("task %d (%s) runs its Update callback holding %d mutexes (exactly one, its leaf, expected)", ti, r.op.text, n)})
						}
						if yields {
							vsync.Yield()
						}
						return f(old, ok)
					})
				case "ns":
					cursors[ti] = tr.NewScanner(op.args[0])
					exhausted[ti] = false
				case "scan":
					if cursors[ti] == nil || exhausted[ti] {
						res = "skip"
					} else if cursors[ti].Scan() {
						res = "true"
					} else {
						res = "false"
						exhausted[ti] = true
					}
				case "pair":
					if cursors[ti] == nil || exhausted[ti] {
						res = "skip"
					} else {
						k, v := cursors[ti].Pair()
						res = k + "=" + fmtVal(v)
					}
				case "close":
					if cursors[ti] == nil {
						res = "skip"
					} else {
						cursors[ti].Close()
						cursors[ti].Close() // idempotent
						exhausted[ti] = true
					}
				case "pause":
					vsync.Yield()
				default:
					panic("bad client op " + op.kind)
				}
				r.res = res
				r.ret = len(s.Log)
				vsync.Note(fmt.Sprintf("ret %d %s", oi, res))
			}
		})
	}
	s = vsync.New(fns)
	s.UnlockYields = cs.yieldUnlock
	step := 0
	rankBad := false
	shapeMidBad := false // quiescent-instant shape oracle (C08) already reported in this run
	rankStates := 0
	// C07 oracle (Lean: C07_write_frame): the step of task g that runs between two
	// scheduling decisions changes own fields only of nodes whose mutex g held when
	// the step began or acquired during it, and moves the root pointer only under
	// rootMutex. wfPrev is the structure before the step in progress, wfMay the
	// mutexes of that step (grown by OnAcquire), wfTid its task.
	var wf *wfState
	// stepSnaps[i] is the canonical structure at the i-th call of Choose, i.e. in the
	// state in which the i-th decision (the i-th `d` line) is taken
	var stepSnaps []string
	if cs.writeframe {
		wf = &wfState{tr: tr, rootMutex: findRootMutex(tr), everNode: map[*vsync.Mutex]bool{}}
	}
	// C07 read-frame probe (`opt readframe`): see rfState
	var rf *rfState
	if cs.readframe {
		rf = &rfState{tr: tr}
	}
	type request struct {
		m     *vsync.Mutex
		acqs  int
		since int
	}
	reqs := map[int]request{}               // `strategy lead`: the pending lock request of each task
	acqCount := make([]int, len(cs.threads)) // acquisitions per task
	s.Choose = func(st int, enabled []int) int {
		enabledSets = append(enabledSets, append([]int(nil), enabled...))
		if rf != nil {
			// the step is over: put the scrambled fields back before anything looks at the tree
			if msg := rf.restore(); msg != "" {
				oracles = append(oracles, oracleMsg{"writeframe", msg})
			}
		}
		var snapNow *gobptree.VerifNode
		if wf != nil {
			snapNow = tr.Snapshot()
			if msg := wf.endStep(snapNow); msg != "" {
				oracles = append(oracles, oracleMsg{"writeframe", msg})
			}
		}
		if cs.stepsnap {
			// unsynchronised snapshot, like the write-frame oracle's: every task is parked
			if snapNow == nil {
				snapNow = tr.Snapshot()
			}
			stepSnaps = append(stepSnaps, shape.Canon(snapNow, tr.FmtKey, fmtVal))
		}
		// C08 "whenever the tree is quiescent", not only at the end of the run: an operation in
		// flight always holds a mutex (rootMutex, then hand over hand down to the leaf; a resting
		// cursor holds its leaf), so a scheduler state in which NO task holds any mutex is a
		// quiescent instant and the full shape invariant must hold of the snapshot (R6-C08-d: a
		// stale separator that the next operation repairs is invisible at the end of the run)
		if snapNow != nil && cs.order >= 4 && !shapeMidBad {
			anyHeld := false
			for ti := range cs.threads {
				if len(s.HeldBy(ti)) > 0 {
					anyHeld = true
					break
				}
			}
			if !anyHeld {
				for _, p := range shape.Check(snapNow, cs.order, tr.FmtKey, tr.Less) {
					oracles = append(oracles, oracleMsg{"shape", fmt.Sprintf("at a quiescent instant (no mutex held, before decision %d): %s", len(enabledSets), p)})
					shapeMidBad = true
					break
				}
			}
		}
		// C06 oracle (Lean: Ranked (levelRank tree)): in this state every task parked in
		// Lock() wants a mutex that comes after all it holds in the level order of the tree
		// (rootMutex, root, then level by level, left to right)
		if !rankBad {
			tids, wants := s.Waiting()
			var rank map[*vsync.Mutex]int
			for i, tid := range tids {
				held := s.HeldBy(tid)
				if len(held) == 0 {
					continue
				}
				if rank == nil {
					if snapNow == nil {
						snapNow = tr.Snapshot()
					}
					rank = levelRank(snapNow)
					rankStates++
				}
				rw := rank[wants[i]]
				for _, h := range held {
					if rank[h] >= rw {
						rankBad = true
						oracles = append(oracles, oracleMsg{"lockorder", fmt.Sprintf("task %d waits for a mutex of level-order rank %d while holding one of rank %d (0 = not a node of the tree)", tid, rw, rank[h])})
						break
					}
				}
			}
		}
		var pick int
		if step < len(replay) {
			pick = replay[step]
		} else if rng != nil {
			randomPick := func() int {
				// bias: keep running the same task with probability 1/2 when it is enabled
				p := enabled[rng.Intn(len(enabled))]
				if len(sched) > 0 && rng.Intn(100) < 35 {
					last := sched[len(sched)-1]
					for _, e := range enabled {
						if e == last {
							p = last
						}
					}
				}
				return p
			}
			if pol := cs.pol; pol != nil && pol.leadTid < len(started) {
				wantOf := map[int]*vsync.Mutex{}
				{
					tids, wants := s.Waiting()
					for i, t := range tids {
						wantOf[t] = wants[i]
						// a request is identified by the mutex and the number of acquisitions
						// the task had made when it asked; its age is the step it was first seen
						if rq := reqs[t]; rq.m != wants[i] || rq.acqs != acqCount[t] {
							reqs[t] = request{wants[i], acqCount[t], step}
						}
					}
				}
				shift := 0
				if pol.mode == "behind" {
					shift = 1
				}
				// may task t run? (a paced task at the start of an operation - parked in the
				// operation's first Lock(), holding nothing - waits for the lead task's progress)
				eligible := func(t int) bool {
					pc, paced := pol.pace[t]
					if !paced || pol.mode == "cursor" || started[t] == 0 || len(s.HeldBy(t)) > 0 || wantOf[t] == nil {
						return true
					}
					return started[pol.leadTid] >= pc[0]+(started[t]-1+shift)*pc[1]
				}
				leadEnabled := false
				var others []int
				for _, e := range enabled {
					if e == pol.leadTid {
						leadEnabled = true
					} else if eligible(e) {
						others = append(others, e)
					}
				}
				switch {
				case leadEnabled && started[pol.leadTid] < pol.leadOps:
					pick = pol.leadTid
				case pol.mode == "queue" || pol.mode == "behind" || pol.mode == "ahead" || pol.mode == "prio":
					if leadEnabled && pol.mode != "ahead" && pol.mode != "prio" && wantOf[pol.leadTid] != nil {
						// first come, first served on the mutex the lead task wants: a writer
						// that asked for it later than the lead task waits
						var rest []int
						for _, o := range others {
							if wantOf[o] != wantOf[pol.leadTid] || reqs[o].since < reqs[pol.leadTid].since {
								rest = append(rest, o)
							}
						}
						others = rest
					}
					if len(others) > 0 && (!leadEnabled || rng.Intn(16) != 0) {
						pick = others[rng.Intn(len(others))]
					} else if leadEnabled {
						pick = pol.leadTid
					} else {
						pick = enabled[rng.Intn(len(enabled))]
					}
				case pol.mode == "cursor":
					if leadEnabled && (len(others) == 0 || rng.Intn(4) != 0) {
						pick = pol.leadTid
					} else if len(others) > 0 {
						pick = others[rng.Intn(len(others))]
					} else {
						pick = enabled[rng.Intn(len(enabled))]
					}
				default:
					// rand: among the lead task and the tasks that may run
					pool := append([]int(nil), others...)
					if leadEnabled {
						pool = append(pool, pol.leadTid)
					}
					if len(pool) == 0 {
						pool = enabled
					}
					pick = pool[rng.Intn(len(pool))]
					if len(sched) > 0 && rng.Intn(100) < 35 {
						last := sched[len(sched)-1]
						for _, e := range pool {
							if e == last {
								pick = last
							}
						}
					}
				}
			} else {
				pick = randomPick()
			}
		} else {
			pick = enabled[0]
		}
		step++
		sched = append(sched, pick)
		if wf != nil {
			what := ""
			if r := curOpOf(recs, pick); r != nil {
				what = r.op.text
			}
			wf.beginStep(snapNow, pick, step-1, what, s.HeldBy(pick))
		}
		if rf != nil {
			if snapNow == nil {
				snapNow = tr.Snapshot()
			}
			var want *vsync.Mutex
			tids, wants := s.Waiting()
			for i, t := range tids {
				if t == pick {
					want = wants[i]
				}
			}
			what := ""
			if r := curOpOf(recs, pick); r != nil {
				what = r.op.text
			}
			rf.beginStep(snapNow, pick, step-1, what, s.HeldBy(pick), want)
		}
		return pick
	}
	if rf != nil {
		s.OnRelease = func(tid int, m *vsync.Mutex) { rf.released(tid, m) }
	}
	// C10 oracle: lock coupling of point operations and NewScanner
	curOp := func(tid int) *opRec { return curOpOf(recs, tid) }
	s.OnAcquire = func(tid int, m *vsync.Mutex, heldBefore []*vsync.Mutex) {
		acqCount[tid]++
		if wf != nil {
			wf.acquired(tid, m)
		}
		r := curOp(tid)
		if r == nil {
			return
		}
		// fresh: the node did not exist when this operation was invoked
		fresh := r.atInv != nil && !r.atInv[m]
		switch r.op.kind {
		case "ins", "upd", "get", "ns":
		default:
			return
		}
		// held set after this acquisition: heldBefore + m
		if len(heldBefore) >= 3 {
			oracles = append(oracles, oracleMsg{"coupling", fmt.Sprintf("task %d (%s) holds %d locks while acquiring another", tid, r.op.text, len(heldBefore))})
			return
		}
		if len(heldBefore) == 2 && !fresh {
			oracles = append(oracles, oracleMsg{"coupling", fmt.Sprintf("task %d (%s) acquires a third, pre-existing lock while holding two", tid, r.op.text)})
			return
		}
		if len(heldBefore) >= 1 && !fresh {
			// the newly locked node must be a child of the most recently locked held node
			parent := heldBefore[len(heldBefore)-1]
			if !isChildOf(tr, parent, m) {
				oracles = append(oracles, oracleMsg{"coupling", fmt.Sprintf("task %d (%s) locks a node that is not a child of the node it holds", tid, r.op.text)})
			}
		}
	}
	s.Run()
	if rf != nil {
		if msg := rf.restore(); msg != "" {
			oracles = append(oracles, oracleMsg{"writeframe", msg})
		}
	}
	if wf != nil {
		// the last step (and the step that ended in a deadlock, panic or abort)
		if msg := wf.endStep(tr.Snapshot()); msg != "" {
			oracles = append(oracles, oracleMsg{"writeframe", msg})
		}
	}
	// ---- canonical output
	midName := map[int]string{}
	for _, e := range s.Log {
		if e.Kind == "acq" {
			if _, ok := midName[e.Mid]; !ok {
				midName[e.Mid] = "m" + strconv.Itoa(len(midName))
			}
		}
	}
	decs := 0
	for _, e := range s.Log {
		switch e.Kind {
		case "dec":
			// a decision that was rejected (schedule names a disabled task) has no `d`
			// line and hence no `s` line either
			if cs.stepsnap && decs < len(stepSnaps) {
				lines = append(lines, "s "+stepSnaps[decs])
			}
			decs++
			lines = append(lines, fmt.Sprintf("d %d %s", e.Tid, e.Text))
		case "acq":
			lines = append(lines, fmt.Sprintf("a %d %s", e.Tid, midName[e.Mid]))
		case "rel":
			lines = append(lines, fmt.Sprintf("r %d %s", e.Tid, midName[e.Mid]))
		case "note":
			lines = append(lines, fmt.Sprintf("n %d %s", e.Tid, e.Text))
		}
	}
	lines = append(lines, fmt.Sprintf("# lockorder states %d", rankStates))
	if wf != nil {
		lines = append(lines, fmt.Sprintf("# writeframe steps %d nodes %d changed %d yieldunlock %v rootmutex %v", wf.steps, wf.nodes, wf.changed, cs.yieldUnlock, wf.rootMutex != nil))
	}
	if rf != nil {
		lines = append(lines, fmt.Sprintf("# readframe steps %d scrambled %d onrelease %d", rf.steps, rf.nscrambled, rf.nreleased))
	}
	if s.Deadlock != "" {
		lines = append(lines, "deadlock")
		oracles = append(oracles, oracleMsg{"deadlock", s.Deadlock})
	}
	if s.Aborted != "" {
		lines = append(lines, "aborted "+s.Aborted)
		if strings.HasPrefix(s.Aborted, "step limit") {
			oracles = append(oracles, oracleMsg{"livelock", s.Aborted})
		}
	}
	for tid, p := range s.Panics() {
		oracles = append(oracles, oracleMsg{"panic", fmt.Sprintf("task %d panicked: %v", tid, p)})
	}
	quiescent := s.Deadlock == "" && s.Aborted == "" && len(s.Panics()) == 0
	// ---- C09: lock state at rest
	if quiescent {
		var heldLeaves []interface{}
		open := 0
		for ti := range cs.threads {
			if cursors[ti] != nil {
				if l, _ := cursors[ti].Leaf(); l != nil {
					heldLeaves = append(heldLeaves, l)
					open++
				}
			}
			want := 0
			if cursors[ti] != nil {
				if l, _ := cursors[ti].Leaf(); l != nil {
					want = 1
				}
			}
			if got := len(s.HeldBy(ti)); got != want {
				oracles = append(oracles, oracleMsg{"locks", fmt.Sprintf("task %d finished holding %d locks, expected %d", ti, got, want)})
			}
		}
		if open == 0 {
			for _, p := range shape.CheckLocks(tr.Snapshot(), nil) {
				oracles = append(oracles, oracleMsg{"locks", "after all tasks finished: " + p})
			}
		}
		// per-op: locks held when an operation returned
		held := map[int]map[string]bool{}
		for _, l := range lines {
			if strings.HasPrefix(l, "s ") {
				continue
			}
			f := strings.Fields(l)
			tid, _ := strconv.Atoi(f[1])
			if held[tid] == nil {
				held[tid] = map[string]bool{}
			}
			switch f[0] {
			case "a":
				held[tid][f[2]] = true
			case "r":
				delete(held[tid], f[2])
			case "n":
				if f[2] == "ret" {
					oi, _ := strconv.Atoi(f[3])
					op := cs.threads[tid][oi]
					want := 0
					switch op.kind {
					case "ns", "pair", "pause":
						want = -1 // depends on the session; checked at scan/close
					case "scan":
						if f[4] == "true" {
							want = 1
						}
						if f[4] == "skip" {
							want = -1
						}
					case "close":
						if f[4] == "skip" {
							want = -1
						}
					}
					if want >= 0 && len(held[tid]) != want {
						oracles = append(oracles, oracleMsg{"locks", fmt.Sprintf("task %d returned from `%s` holding %d locks, expected %d", tid, op.text, len(held[tid]), want)})
					}
					if op.kind == "ns" && len(held[tid]) != 1 {
						oracles = append(oracles, oracleMsg{"locks", fmt.Sprintf("task %d returned from `%s` holding %d locks, expected exactly one leaf", tid, op.text, len(held[tid]))})
					}
					// C10: a resting cursor holds exactly one leaf
					if (op.kind == "ns" || (op.kind == "scan" && f[4] == "true")) && len(held[tid]) > 1 {
						oracles = append(oracles, oracleMsg{"resting", fmt.Sprintf("task %d rests after `%s` holding %d locks: a resting cursor holds exactly one leaf", tid, op.text, len(held[tid]))})
					}
				}
			}
		}
	}
	// close cursors left open so the final inspection can proceed
	for ti := range cs.threads {
		if cursors[ti] != nil && quiescent {
			cursors[ti].Close()
		}
	}
	final := map[string]string{}
	if quiescent {
		snap := tr.Snapshot()
		lines = append(lines, "final "+shape.Canon(snap, tr.FmtKey, fmtVal))
		for _, p := range shape.Check(snap, cs.order, tr.FmtKey, tr.Less) {
			if cs.order >= 4 {
				oracles = append(oracles, oracleMsg{"shape", p})
			}
		}
		var ls []*gobptree.VerifNode
		collectLeaves(snap, &ls)
		for _, l := range ls {
			for i, r := range l.Runts {
				if i < len(l.Values) {
					final[canonKey(cs.ty, tr.FmtKey(r))] = fmtVal(l.Values[i])
				}
			}
		}
	} else {
		final = nil
	}
	// ---- C03/C04/C05: linearizability of the recorded history
	var ops []lin.Op
	less := func(a, b string) bool { return tr.Less(a, b) }
	for ti := range recs {
		var start string
		var prev string
		havePrev := false
		nsInv := -1
		for oi, r := range recs[ti] {
			if r == nil {
				continue
			}
			o := lin.Op{Tid: ti, Idx: oi, Inv: r.inv, Ret: r.ret, Text: r.op.text + " -> " + r.res}
			switch r.op.kind {
			case "ins":
				o.Kind, o.Key, o.Val = "ins", canonKey(cs.ty, r.op.args[0]), fmtVal(parseVal(r.op.args[1]))
			case "del":
				o.Kind, o.Key = "del", canonKey(cs.ty, r.op.args[0])
			case "get":
				o.Kind, o.Key, o.Val = "get", canonKey(cs.ty, r.op.args[0]), r.res
			case "upd":
				f, _ := mkCallback(r.op.args[1])
				o.Kind, o.Key = "upd", canonKey(cs.ty, r.op.args[0])
				if r.ret >= 0 && len(r.cbArgs) != 1 {
					oracles = append(oracles, oracleMsg{"callback", fmt.Sprintf("task %d `%s`: callback invoked %d times", ti, r.op.text, len(r.cbArgs))})
				}
				if len(r.cbArgs) >= 1 {
					o.Val = r.cbArgs[0]
					if o.Val == "absent" {
						o.Store = fmtVal(f(nil, false))
					} else {
						o.Store = fmtVal(f(parseVal(o.Val), true))
					}
				} else {
					o.Val = "?"
					o.Store = fmtVal(f(nil, false))
					if r.ret < 0 {
						continue // pending, callback not yet run: no effect possible
					}
				}
			case "ns":
				start, havePrev, nsInv = r.op.args[0], false, r.inv
				continue
			case "scan":
				if r.ret < 0 || r.res == "skip" {
					continue
				}
				o.Kind = "succ"
				if havePrev {
					o.Key, o.Strict = prev, true
				} else {
					o.Key, o.Strict = canonKey(cs.ty, start), false
					if nsInv >= 0 {
						o.Inv = nsInv
					}
				}
				if r.res == "true" {
					// the key is revealed by the following pair; if the client never
					// calls pair we cannot check this step
					if oi+1 < len(recs[ti]) && recs[ti][oi+1] != nil && recs[ti][oi+1].op.kind == "pair" && recs[ti][oi+1].ret >= 0 {
						kv := recs[ti][oi+1].res
						k := kv[:strings.IndexByte(kv, '=')]
						o.Res = canonKey(cs.ty, k)
						prev, havePrev = o.Res, true
					} else {
						continue
					}
				} else {
					o.Res = ""
				}
			case "pair":
				if r.ret < 0 || r.res == "skip" {
					continue
				}
				kv := r.res
				i := strings.IndexByte(kv, '=')
				o.Kind, o.Key, o.Val = "get", canonKey(cs.ty, kv[:i]), "val:"+kv[i+1:]
			default:
				continue
			}
			ops = append(ops, o)
		}
	}
	if msg := lin.Check(ops, init, final, less); msg != "" && msg != "budget" {
		oracles = append(oracles, oracleMsg{"linearizability", msg})
	} else if msg == "budget" {
		lines = append(lines, "# linearizability search budget exhausted (inconclusive)")
		// histories beyond the exhaustive search (more than 62 operations: long cursor
		// sessions, hops over wide leaves): the interval oracle, a sound necessary condition
		n, msgs := intervalCheck(ops, init, less)
		lines = append(lines, fmt.Sprintf("# interval oracle ops %d", n))
		for _, m := range msgs {
			oracles = append(oracles, oracleMsg{"linearizability", "interval oracle: " + m})
		}
	}
	return
}

// intervalCheck is the linearizability oracle for histories too long for the exhaustive
// search of package lin. It decides, from the invocation/response positions alone, whether a
// key is stored at EVERY instant of a window of the log, or at NO instant of it, under every
// linearization, and reports an observation that contradicts such a fact:
//
//   - a Search (or a cursor's Pair) that misses a key stored throughout its window, or finds
//     a key stored at no instant of it;
//   - a cursor step that exposes a key not greater than the key exposed before (not at or
//     after the start key, for the first step), exposes a key stored at no instant of its
//     window, or passes over a key stored throughout its window (ends the scan before it).
//
// A key is stored throughout [a,b] if it is in the initial contents or an Insert/Update of it
// returned before a, and every Delete of it invoked before b returned before an Insert/Update
// of it was invoked that itself returned before a. Symmetrically for "stored at no instant".
// Every report is a genuine violation (the conditions are necessary for linearizability); a
// silent oracle proves nothing, which is why the exhaustive search is used wherever it fits.
func intervalCheck(ops []lin.Op, init map[string]string, less func(a, b string) bool) (checked int, msgs []string) {
	type keyWrites struct {
		est, rem []lin.Op
		inInit   bool
	}
	w := map[string]*keyWrites{}
	get := func(k string) *keyWrites {
		kw := w[k]
		if kw == nil {
			kw = &keyWrites{}
			w[k] = kw
		}
		return kw
	}
	for k := range init {
		get(k).inInit = true
	}
	for _, o := range ops {
		switch o.Kind {
		case "ins", "upd":
			kw := get(o.Key)
			kw.est = append(kw.est, o)
		case "del":
			kw := get(o.Key)
			kw.rem = append(kw.rem, o)
		}
	}
	present := func(k string, a, b int) bool {
		kw := w[k]
		if kw == nil {
			return false
		}
		ok := kw.inInit
		for _, e := range kw.est {
			if e.Ret >= 0 && e.Ret < a {
				ok = true
			}
		}
		if !ok {
			return false
		}
		for _, d := range kw.rem {
			if d.Inv > b {
				continue
			}
			if d.Ret < 0 {
				return false
			}
			over := false
			for _, e := range kw.est {
				if e.Inv > d.Ret && e.Ret >= 0 && e.Ret < a {
					over = true
				}
			}
			if !over {
				return false
			}
		}
		return true
	}
	absent := func(k string, a, b int) bool {
		kw := w[k]
		if kw == nil {
			return true
		}
		if kw.inInit {
			over := false
			for _, d := range kw.rem {
				if d.Ret >= 0 && d.Ret < a {
					over = true
				}
			}
			if !over {
				return false
			}
		}
		for _, e := range kw.est {
			if e.Inv > b {
				continue
			}
			if e.Ret < 0 {
				return false
			}
			over := false
			for _, d := range kw.rem {
				if d.Inv > e.Ret && d.Ret >= 0 && d.Ret < a {
					over = true
				}
			}
			if !over {
				return false
			}
		}
		return true
	}
	// keys that are ever stored, ascending
	var cand []string
	for k, kw := range w {
		if kw.inInit || len(kw.est) > 0 {
			cand = append(cand, k)
		}
	}
	sort.Slice(cand, func(i, j int) bool { return less(cand[i], cand[j]) })
	report := func(o lin.Op, what string) {
		if len(msgs) < 3 {
			msgs = append(msgs, fmt.Sprintf("[t%d#%d %s inv@%d ret@%d] %s", o.Tid, o.Idx, o.Text, o.Inv, o.Ret, what))
		}
	}
	for _, o := range ops {
		if o.Ret < 0 {
			continue
		}
		switch o.Kind {
		case "get":
			checked++
			if o.Val == "absent" && present(o.Key, o.Inv, o.Ret) {
				report(o, "key "+o.Key+" reported absent, but it is stored during the whole operation")
			}
			if o.Val != "absent" && absent(o.Key, o.Inv, o.Ret) {
				report(o, "key "+o.Key+" reported present, but it is stored at no instant of the operation")
			}
		case "succ":
			checked++
			if o.Res != "" {
				if o.Strict && !less(o.Key, o.Res) {
					report(o, "cursor exposes key "+o.Res+" after key "+o.Key+": keys must strictly increase")
				}
				if !o.Strict && less(o.Res, o.Key) {
					report(o, "cursor exposes key "+o.Res+" below its start key "+o.Key)
				}
				if absent(o.Res, o.Inv, o.Ret) {
					report(o, "cursor exposes key "+o.Res+", which is stored at no instant of the step")
				}
			}
			i := sort.Search(len(cand), func(i int) bool {
				if o.Strict {
					return less(o.Key, cand[i])
				}
				return !less(cand[i], o.Key)
			})
			for ; i < len(cand) && (o.Res == "" || less(cand[i], o.Res)); i++ {
				if present(cand[i], o.Inv, o.Ret) {
					report(o, "cursor passes over key "+cand[i]+", which is stored during the whole step")
					break
				}
			}
		}
	}
	return
}

// levelRank numbers the nodes' mutexes in level order from 1 (root); anything else,
// in particular the tree's rootMutex, has rank 0.
func levelRank(root *gobptree.VerifNode) map[*vsync.Mutex]int {
	rank := map[*vsync.Mutex]int{}
	level := []*gobptree.VerifNode{root}
	n := 0
	for len(level) > 0 {
		var next []*gobptree.VerifNode
		for _, x := range level {
			if x == nil || x.Truncated {
				continue
			}
			if _, seen := rank[x.Mutex]; !seen {
				n++
				rank[x.Mutex] = n
			}
			next = append(next, x.Children...)
		}
		level = next
	}
	return rank
}

func collectLeaves(n *gobptree.VerifNode, acc *[]*gobptree.VerifNode) {
	if n == nil || n.Truncated {
		return
	}
	if !n.Internal {
		*acc = append(*acc, n)
		return
	}
	for _, c := range n.Children {
		collectLeaves(c, acc)
	}
}

func collectMutexes(n *gobptree.VerifNode, acc map[*vsync.Mutex]bool) {
	if n == nil || n.Truncated {
		return
	}
	acc[n.Mutex] = true
	for _, c := range n.Children {
		collectMutexes(c, acc)
	}
}

// isChildOf reports whether the node guarded by c is currently a child of the
// node guarded by p, or c guards the root and p guards no node (the tree lock).
func isChildOf(tr adapter.Tree, p, c *vsync.Mutex) bool {
	root := tr.Snapshot()
	var find func(n *gobptree.VerifNode) *gobptree.VerifNode
	find = func(n *gobptree.VerifNode) *gobptree.VerifNode {
		if n == nil || n.Truncated {
			return nil
		}
		if n.Mutex == p {
			return n
		}
		for _, ch := range n.Children {
			if r := find(ch); r != nil {
				return r
			}
		}
		return nil
	}
	pn := find(root)
	if pn == nil {
		// p guards no node in the tree: it is the tree-level lock; its "child" is the root
		return root != nil && root.Mutex == c
	}
	for _, ch := range pn.Children {
		if ch != nil && ch.Mutex == c {
			return true
		}
	}
	return false
}

func minKey(ty string) string {
	switch ty {
	case "i32":
		return "-2147483648"
	case "i64", "cmp":
		return "-9223372036854775808"
	case "str":
		return "_"
	}
	return "0"
}

func main() {
	dfsMax := flag.Int("dfs-max", 20000, "maximum number of schedules per dfs case")
	wfFlag := flag.Bool("writeframe", false, "C07 write-frame oracle: diff the structure around every scheduler step")
	yuFlag := flag.Bool("yieldunlock", false, "Unlock is a scheduling point too (a goroutine parks, enabled, right after releasing)")
	ssFlag := flag.Bool("stepsnap", false, "print the canonical structure (`s <tree>`, as in the `final` line) before every scheduling decision")
	flag.Parse()
	in := bufio.NewScanner(os.Stdin)
	in.Buffer(make([]byte, 1<<20), 1<<26)
	out = bufio.NewWriterSize(os.Stdout, 1<<16)
	defer out.Flush()
	var cs *caseSpec
	caseNo := 0
	for in.Scan() {
		line := strings.TrimSpace(in.Text())
		f := strings.Fields(line)
		if len(f) == 0 || strings.HasPrefix(line, "#") {
			continue
		}
		switch f[0] {
		case "cbegin":
			o, _ := strconv.Atoi(f[2])
			cs = &caseSpec{ty: f[1], order: o, id: strconv.Itoa(caseNo), writeframe: *wfFlag, yieldUnlock: *yuFlag, stepsnap: *ssFlag}
			caseNo++
		case "opt":
			// per-case engine options, so that a replay file carries them
			for _, o := range f[1:] {
				switch o {
				case "writeframe":
					cs.writeframe = true
				case "yieldunlock":
					cs.yieldUnlock = true
				case "nowriteframe":
					cs.writeframe = false
				case "noyieldunlock":
					cs.yieldUnlock = false
				case "readframe":
					cs.readframe = true
				case "noreadframe":
					cs.readframe = false
				case "stepsnap":
					cs.stepsnap = true
				case "nostepsnap":
					cs.stepsnap = false
				}
			}
		case "pre":
			cs.pre = append(cs.pre, strings.Join(f[1:], " "))
		case "thread":
			cs.threads = append(cs.threads, parseOps(strings.Join(f[2:], " ")))
		case "strategy":
			cs.strategy = f[1:]
		case "cend":
			runStrategy(cs, *dfsMax)
			cs = nil
		}
	}
}

func emitRun(cs *caseSpec, sched []int, lines []string, oracles []oracleMsg) {
	fmt.Fprintf(out, "case %s\n", cs.id)
	ss := make([]string, len(sched))
	for i, t := range sched {
		ss[i] = strconv.Itoa(t)
	}
	fmt.Fprintf(out, "sched %s\n", strings.Join(ss, " "))
	for _, l := range lines {
		fmt.Fprintln(out, l)
	}
	for _, o := range oracles {
		fmt.Fprintf(out, "ORACLE %s %s\n", o.kind, o.detail)
	}
	fmt.Fprintln(out, "cend")
}

func runStrategy(cs *caseSpec, dfsMax int) {
	switch cs.strategy[0] {
	case "random":
		seed, _ := strconv.ParseInt(cs.strategy[1], 10, 64)
		n := 1
		if len(cs.strategy) > 2 {
			n, _ = strconv.Atoi(cs.strategy[2])
		}
		for i := 0; i < n; i++ {
			rng := rand.New(rand.NewSource(seed + int64(i)*7919))
			sched, lines, oracles, _ := runCase(cs, rng, nil, true)
			if cs.readframe {
				if d := rfCompare(cs, sched, lines, oracles); d != "" {
					oracles = append(oracles, oracleMsg{"readframe", d})
				}
			}
			emitRun(cs, sched, lines, oracles)
		}
	case "lead":
		// strategy lead <tid> <nops> <mode,mode,..> <seed> <n> [pace <t>:<base>:<stride>,..]
		tid, _ := strconv.Atoi(cs.strategy[1])
		nops, _ := strconv.Atoi(cs.strategy[2])
		modes := strings.Split(cs.strategy[3], ",")
		seed, _ := strconv.ParseInt(cs.strategy[4], 10, 64)
		n := 1
		if len(cs.strategy) > 5 {
			n, _ = strconv.Atoi(cs.strategy[5])
		}
		pace := map[int][2]int{}
		if len(cs.strategy) > 7 && cs.strategy[6] == "pace" {
			for _, part := range strings.Split(cs.strategy[7], ",") {
				f := strings.Split(part, ":")
				if len(f) == 3 {
					t, _ := strconv.Atoi(f[0])
					b, _ := strconv.Atoi(f[1])
					st, _ := strconv.Atoi(f[2])
					pace[t] = [2]int{b, st}
				}
			}
		}
		for i := 0; i < n; i++ {
			rng := rand.New(rand.NewSource(seed + int64(i)*7919))
			run := *cs
			run.pol = &policy{leadTid: tid, leadOps: nops, mode: modes[i%len(modes)], pace: pace}
			sched, lines, oracles, _ := runCase(&run, rng, nil, true)
			if cs.readframe {
				if d := rfCompare(cs, sched, lines, oracles); d != "" {
					oracles = append(oracles, oracleMsg{"readframe", d})
				}
			}
			emitRun(cs, sched, lines, oracles)
		}
	case "replay":
		var rp []int
		for _, s := range cs.strategy[1:] {
			n, _ := strconv.Atoi(s)
			rp = append(rp, n)
		}
		sched, lines, oracles, _ := runCase(cs, nil, rp, true)
		if cs.readframe {
			if d := rfCompare(cs, sched, lines, oracles); d != "" {
				oracles = append(oracles, oracleMsg{"readframe", d})
			}
		}
		emitRun(cs, sched, lines, oracles)
	case "dfs":
		// stateless exploration of every schedule by re-execution
		var prefix []int
		runs, bad := 0, 0
		seenKinds := map[string]int{}
		emitAll := len(cs.strategy) > 1 && cs.strategy[1] == "all"
		wfSteps, wfNodes, quiet := 0, 0, 0 // over the runs that are not emitted
		// the exploration itself runs without the per-step structure lines; a run that is
		// emitted is re-executed under its own schedule (the engine is deterministic) with them
		explore := *cs
		explore.stepsnap = false
		for {
			sched, lines, oracles, en := runCase(&explore, nil, prefix, true)
			runs++
			if cs.readframe && len(oracles) > 0 {
				// the exploration runs with the read-frame probe; a run the oracles object to
				// is made again without it (a run they accept agrees with its plain twin on
				// everything the oracles look at)
				if d := rfCompare(cs, sched, lines, oracles); d != "" {
					oracles = append(oracles, oracleMsg{"readframe", d})
				}
			}
			if len(oracles) > 0 {
				bad++
			}
			newKind := false
			for _, o := range oracles {
				seenKinds[o.kind]++
				if seenKinds[o.kind] <= 2 {
					newKind = true
				}
			}
			if emitAll || newKind || runs == 1 {
				if cs.stepsnap {
					s2, l2, o2, _ := runCase(cs, nil, sched, true)
					for _, o := range oracles {
						if o.kind == "readframe" {
							o2 = append(o2, o)
						}
					}
					emitRun(cs, s2, l2, o2)
				} else {
					emitRun(cs, sched, lines, oracles)
				}
			} else if cs.writeframe {
				quiet++
				for _, l := range lines {
					if strings.HasPrefix(l, "# writeframe steps ") {
						f := strings.Fields(l)
						a, _ := strconv.Atoi(f[3])
						b, _ := strconv.Atoi(f[5])
						wfSteps += a
						wfNodes += b
					}
				}
			}
			// next schedule: backtrack to the deepest decision with an untried alternative
			i := len(sched) - 1
			for ; i >= 0; i-- {
				alts := en[i]
				idx := sort.SearchInts(alts, sched[i])
				if idx+1 < len(alts) {
					prefix = append(append([]int(nil), sched[:i]...), alts[idx+1])
					break
				}
			}
			if i < 0 || runs >= dfsMax {
				if cs.writeframe {
					fmt.Fprintf(out, "dfs case %s runs %d bad %d exhaustive %v quiet %d wfsteps %d wfnodes %d\n", cs.id, runs, bad, i < 0, quiet, wfSteps, wfNodes)
				} else {
					fmt.Fprintf(out, "dfs case %s runs %d bad %d exhaustive %v\n", cs.id, runs, bad, i < 0)
				}
				break
			}
		}
	}
}

// ---------------------------------------------------------------------------
// C07 write-frame oracle

// wfState carries the oracle across the scheduling decisions of one run.
type wfState struct {
	tr                    adapter.Tree
	rootMutex             *vsync.Mutex          // the tree's rootMutex field, nil if the type has none
	everNode              map[*vsync.Mutex]bool // every mutex that ever guarded a node of a snapshot
	prev                  *gobptree.VerifNode   // structure before the step in progress (nil: no step)
	tid, step             int
	what                  string
	may                   map[*vsync.Mutex]bool // held when the step began + acquired during it
	reported              bool
	steps, nodes, changed int
}

// findRootMutex locates the field `rootMutex` of the tree behind the adapter by
// reflection (the adapter wraps a pointer to the tree as its only field). In the
// shadow build the field's type is vsync.Mutex.
func findRootMutex(tr adapter.Tree) (m *vsync.Mutex) {
	defer func() {
		if recover() != nil {
			m = nil
		}
	}()
	v := reflect.ValueOf(tr)
	for v.Kind() == reflect.Ptr || v.Kind() == reflect.Interface {
		v = v.Elem()
	}
	if v.Kind() != reflect.Struct || v.NumField() == 0 {
		return nil
	}
	t := v.Field(0)
	for t.Kind() == reflect.Ptr || t.Kind() == reflect.Interface {
		t = t.Elem()
	}
	if t.Kind() != reflect.Struct {
		return nil
	}
	f := t.FieldByName("rootMutex")
	if !f.IsValid() || !f.CanAddr() || f.Type() != reflect.TypeOf(vsync.Mutex{}) {
		return nil
	}
	return (*vsync.Mutex)(unsafe.Pointer(f.UnsafeAddr()))
}

func wfIndex(n *gobptree.VerifNode, acc map[interface{}]*gobptree.VerifNode) {
	if n == nil || n.Truncated {
		return
	}
	if _, seen := acc[n.Self]; seen {
		return
	}
	acc[n.Self] = n
	for _, c := range n.Children {
		wfIndex(c, acc)
	}
}

func wfIdent(n *gobptree.VerifNode) interface{} {
	if n == nil {
		return nil
	}
	if n.Truncated {
		return "truncated"
	}
	return n.Self
}

func (w *wfState) beginStep(snap *gobptree.VerifNode, tid, step int, what string, held []*vsync.Mutex) {
	w.prev, w.tid, w.step, w.what = snap, tid, step, what
	w.may = make(map[*vsync.Mutex]bool, len(held)+2)
	for _, h := range held {
		w.may[h] = true
	}
}

func (w *wfState) acquired(tid int, m *vsync.Mutex) {
	if w.prev != nil && tid == w.tid {
		w.may[m] = true
	}
}

func (w *wfState) keyEq(a, b interface{}) bool {
	switch a.(type) {
	case int32, int64, uint32, uint64, string:
		return a == b
	}
	return w.tr.FmtKey(a) == w.tr.FmtKey(b)
}

func valEq(a, b interface{}) bool {
	switch a.(type) {
	case nil, int64, int, string, bool:
		return a == b
	}
	return fmt.Sprintf("%v", a) == fmt.Sprintf("%v", b)
}

func (w *wfState) fmtKeys(ks []interface{}) string {
	out := make([]string, len(ks))
	for i, k := range ks {
		out[i] = w.tr.FmtKey(k)
	}
	return "[" + strings.Join(out, " ") + "]"
}

func fmtVals(vs []interface{}) string {
	out := make([]string, len(vs))
	for i, v := range vs {
		out[i] = fmt.Sprintf("%v", v)
	}
	return "[" + strings.Join(out, " ") + "]"
}

// endStep compares the structure before the step in progress with `now` and
// returns a description of the first write outside the frame ("" if none).
func (w *wfState) endStep(now *gobptree.VerifNode) string {
	if w.prev == nil {
		return ""
	}
	before := map[interface{}]*gobptree.VerifNode{}
	after := map[interface{}]*gobptree.VerifNode{}
	wfIndex(w.prev, before)
	wfIndex(now, after)
	prevRoot, nowRoot := wfIdent(w.prev), wfIdent(now)
	w.prev = nil
	w.steps++
	for _, n := range before {
		w.everNode[n.Mutex] = true
	}
	for _, n := range after {
		w.everNode[n.Mutex] = true
	}
	var msgs []string
	kindOf := func(n *gobptree.VerifNode) string {
		if n.Internal {
			return "internal node"
		}
		return "leaf"
	}
	bad := func(field string, n *gobptree.VerifNode, detail string) {
		msgs = append(msgs, fmt.Sprintf("%s of a pre-existing %s %s written by task %d (%s) in step %d without holding its mutex: %s",
			field, kindOf(n), w.fmtKeys(n.Runts), w.tid, w.what, w.step, detail))
	}
	for id, b := range before {
		w.nodes++
		a := after[id]
		if a == nil {
			w.changed++
			if !w.may[b.Mutex] {
				bad("membership", b, "the node left the tree")
			}
			continue
		}
		field, detail := "", ""
		if len(a.Runts) != len(b.Runts) {
			field, detail = "runts", w.fmtKeys(b.Runts)+" -> "+w.fmtKeys(a.Runts)
		} else {
			for i := range b.Runts {
				if !w.keyEq(b.Runts[i], a.Runts[i]) {
					field, detail = "runts", w.fmtKeys(b.Runts)+" -> "+w.fmtKeys(a.Runts)
					break
				}
			}
		}
		if field == "" {
			if len(a.Values) != len(b.Values) {
				field, detail = "values", fmtVals(b.Values)+" -> "+fmtVals(a.Values)
			} else {
				for i := range b.Values {
					if !valEq(b.Values[i], a.Values[i]) {
						field, detail = "values", fmtVals(b.Values)+" -> "+fmtVals(a.Values)
						break
					}
				}
			}
		}
		if field == "" && a.Next != b.Next {
			field, detail = "next", "the next pointer moved"
		}
		if field == "" {
			if len(a.Children) != len(b.Children) {
				field, detail = "children", fmt.Sprintf("%d -> %d children", len(b.Children), len(a.Children))
			} else {
				for i := range b.Children {
					if wfIdent(b.Children[i]) != wfIdent(a.Children[i]) {
						field, detail = "children", fmt.Sprintf("child %d is another node", i)
						break
					}
				}
			}
		}
		if field == "" && (a.Internal != b.Internal || a.Mutex != b.Mutex) {
			field, detail = "identity", "kind or mutex of the node changed"
		}
		if field != "" {
			w.changed++
			if !w.may[b.Mutex] {
				bad(field, b, detail)
			}
		}
	}
	if prevRoot != nowRoot {
		w.changed++
		ok := false
		if w.rootMutex != nil {
			ok = w.may[w.rootMutex]
		} else {
			// no rootMutex field found: like the coupling oracle, a held mutex that never
			// guarded a node is the tree-level lock
			for m := range w.may {
				if !w.everNode[m] {
					ok = true
				}
			}
		}
		if !ok {
			msgs = append(msgs, fmt.Sprintf("root pointer moved by task %d (%s) in step %d without holding rootMutex", w.tid, w.what, w.step))
		}
	}
	if len(msgs) == 0 || w.reported {
		return ""
	}
	w.reported = true // one report per run
	sort.Strings(msgs)
	return strings.Join(msgs, " || ")
}

// ---------------------------------------------------------------------------
// C07 read-frame probe

// rfState carries the read-frame probe (`opt readframe`) across the scheduling decisions of
// one run. The dual of the write frame: the step of task g that runs between two scheduling
// decisions reads own fields (keys, values) only of nodes whose mutex g holds. The probe
// makes a read outside that frame observable: when g is picked, the keys of every node of
// the tree whose mutex g neither holds nor is about to acquire are put in reverse order and
// its values replaced by sentinels, and the same is done to a node the moment g releases its
// mutex; everything is put back when the step ends (before the next decision, before any
// snapshot). Lengths, child and next pointers stay as they are. Code that reads a node's keys
// and values only under the node's mutex cannot tell the difference, so a run with the probe
// and the run under the same schedule without it must agree line by line; runStrategy makes
// that comparison and reports a difference as oracle `readframe`. A scrambled field that
// was written during the step (a write outside the write frame) is reported as `writeframe`.
type rfState struct {
	tr         adapter.Tree
	tid, step  int
	what       string
	byMutex    map[*vsync.Mutex]*gobptree.VerifNode // nodes of the tree when the step began
	saved      []rfSaved
	done       map[interface{}]bool
	steps      int
	nscrambled int
	nreleased  int
	reported   bool
}

type rfSaved struct {
	node           *gobptree.VerifNode
	keys, keysOrig reflect.Value // the slice (same backing array) and a copy of its contents
	keysScr        reflect.Value // the scrambled contents
	vals           []interface{}
	valsOrig       []interface{}
}

func rfIndex(n *gobptree.VerifNode, acc map[*vsync.Mutex]*gobptree.VerifNode) {
	if n == nil || n.Truncated {
		return
	}
	if _, seen := acc[n.Mutex]; seen {
		return
	}
	acc[n.Mutex] = n
	for _, c := range n.Children {
		rfIndex(c, acc)
	}
}

func (r *rfState) beginStep(snap *gobptree.VerifNode, tid, step int, what string, held []*vsync.Mutex, want *vsync.Mutex) {
	r.tid, r.step, r.what = tid, step, what
	r.steps++
	r.byMutex = map[*vsync.Mutex]*gobptree.VerifNode{}
	r.done = map[interface{}]bool{}
	rfIndex(snap, r.byMutex)
	frame := map[*vsync.Mutex]bool{}
	for _, h := range held {
		frame[h] = true
	}
	if want != nil {
		frame[want] = true
	}
	for m, n := range r.byMutex {
		if !frame[m] {
			r.scramble(n)
		}
	}
}

// released: task tid has just released m; the node m guards leaves its read frame.
func (r *rfState) released(tid int, m *vsync.Mutex) {
	if r.byMutex == nil || tid != r.tid {
		return
	}
	if n := r.byMutex[m]; n != nil && !r.done[n.Self] {
		r.nreleased++
		r.scramble(n)
	}
}

// rfSentinel is the value slot i of a scrambled node holds (an int64, so that it travels
// through the harness like any stored value if it is read after all)
func rfSentinel(i int) int64 { return -7777000000 - int64(i) }

func (r *rfState) scramble(n *gobptree.VerifNode) {
	if r.done[n.Self] {
		return
	}
	r.done[n.Self] = true
	defer func() { recover() }() // a node type without the expected fields is left alone
	rv := reflect.ValueOf(n.Self)
	if rv.Kind() != reflect.Ptr || rv.IsNil() {
		return
	}
	st := rv.Elem()
	sv := rfSaved{node: n}
	if f := st.FieldByName("runts"); f.IsValid() && f.Kind() == reflect.Slice && f.Len() >= 2 {
		sl := reflect.NewAt(f.Type(), unsafe.Pointer(f.UnsafeAddr())).Elem()
		k := sl.Len()
		sv.keys = sl.Slice(0, k)
		sv.keysOrig = reflect.MakeSlice(f.Type(), k, k)
		reflect.Copy(sv.keysOrig, sv.keys)
		for i := 0; i < k; i++ {
			sv.keys.Index(i).Set(sv.keysOrig.Index(k - 1 - i))
		}
		sv.keysScr = reflect.MakeSlice(f.Type(), k, k)
		reflect.Copy(sv.keysScr, sv.keys)
	}
	if f := st.FieldByName("values"); f.IsValid() && f.Kind() == reflect.Slice && f.Len() >= 1 && f.Type() == reflect.TypeOf([]interface{}(nil)) {
		vs := *(*[]interface{})(unsafe.Pointer(f.UnsafeAddr()))
		sv.vals = vs[:len(vs):len(vs)]
		sv.valsOrig = append([]interface{}(nil), vs...)
		for i := range sv.vals {
			sv.vals[i] = rfSentinel(i)
		}
	}
	if sv.keys.IsValid() || sv.vals != nil {
		r.nscrambled++
		r.saved = append(r.saved, sv)
	}
}

// restore puts every scrambled field back and returns a description of the first scrambled
// field that was written in the meantime ("" if none).
func (r *rfState) restore() string {
	msg := ""
	for i := len(r.saved) - 1; i >= 0; i-- {
		sv := r.saved[i]
		written := ""
		if sv.keys.IsValid() {
			for j := 0; j < sv.keys.Len(); j++ {
				if !reflect.DeepEqual(sv.keys.Index(j).Interface(), sv.keysScr.Index(j).Interface()) {
					written = "runts"
					break
				}
			}
			if written == "" {
				reflect.Copy(sv.keys, sv.keysOrig)
			}
		}
		if sv.vals != nil {
			wv := false
			for j := range sv.vals {
				if s, ok := sv.vals[j].(int64); !ok || s != rfSentinel(j) {
					wv = true
					break
				}
			}
			if wv {
				written = "values"
			} else {
				copy(sv.vals, sv.valsOrig)
			}
		}
		if written != "" && msg == "" && !r.reported {
			kind := "leaf"
			if sv.node.Internal {
				kind = "internal node"
			}
			msg = fmt.Sprintf("%s of a pre-existing %s written by task %d (%s) in step %d without holding its mutex (found by the read-frame probe: the field was scrambled for the step and holds something else now)", written, kind, r.tid, r.what, r.step)
			r.reported = true
		}
	}
	r.saved = nil
	r.byMutex = nil
	return msg
}

// rfCompare runs the case again under the schedule of a run made with the read-frame probe,
// this time without the probe, and returns a description of the first difference ("" if the
// two runs agree on every line of the canonical log and on the oracles' verdicts).
func rfCompare(cs *caseSpec, sched []int, lines []string, oracles []oracleMsg) string {
	plain := *cs
	plain.readframe = false
	plain.stepsnap = false
	plain.pol = nil
	_, l2, o2, _ := runCase(&plain, nil, sched, true)
	strip := func(ls []string) []string {
		var out []string
		for _, l := range ls {
			if !strings.HasPrefix(l, "#") && !strings.HasPrefix(l, "s ") {
				out = append(out, l)
			}
		}
		return out
	}
	a, b := strip(lines), strip(l2)
	trunc := func(s string) string {
		if len(s) > 160 {
			return s[:160] + "..."
		}
		return s
	}
	for i := 0; i < len(a) || i < len(b); i++ {
		la, lb := "<end of log>", "<end of log>"
		if i < len(a) {
			la = a[i]
		}
		if i < len(b) {
			lb = b[i]
		}
		if la != lb {
			return fmt.Sprintf("with the keys and values of the nodes a task does not hold scrambled for the duration of each of its steps, line %d of the event log reads `%s`; under the same schedule without the probe it reads `%s`: the task read a node outside its critical section", i, trunc(la), trunc(lb))
		}
	}
	kinds := func(os []oracleMsg) string {
		var ks []string
		for _, o := range os {
			if o.kind != "readframe" {
				ks = append(ks, o.kind)
			}
		}
		sort.Strings(ks)
		return strings.Join(ks, ",")
	}
	if ka, kb := kinds(oracles), kinds(o2); ka != kb {
		return fmt.Sprintf("with the keys and values of the nodes a task does not hold scrambled for the duration of each of its steps the oracles report [%s]; under the same schedule without the probe they report [%s]: a task read a node outside its critical section", ka, kb)
	}
	return ""
}
