//go:build !shadow

package shape

import "sync"

// IsFree reports whether the mutex is unlocked (only meaningful while no
// other goroutine uses the tree).
func IsFree(m *sync.Mutex) bool {
	if m == nil {
		return true
	}
	if m.TryLock() {
		m.Unlock()
		return true
	}
	return false
}
