// Package shape holds the oracles that look at a structural snapshot: the
// canonical dump, the C08 shape predicate (exactly the clauses the property
// states) and the lock-state check.
package shape

import (
	"fmt"
	"strconv"
	"strings"

	"github.com/karrick/gobptree"
)

type KeyFmt func(interface{}) string
type ValFmt func(interface{}) string

func leavesOf(n *gobptree.VerifNode, acc *[]*gobptree.VerifNode, seen map[*gobptree.VerifNode]bool) {
	if n == nil || n.Truncated {
		return
	}
	if !n.Internal {
		*acc = append(*acc, n)
		return
	}
	for _, c := range n.Children {
		leavesOf(c, acc, seen)
	}
}

// Canon prints the structure: I{runts}(children) / L<ord>{keys|values}>next
func Canon(root *gobptree.VerifNode, kf KeyFmt, vf ValFmt) string {
	var ls []*gobptree.VerifNode
	leavesOf(root, &ls, nil)
	ord := map[interface{}]int{}
	for i, l := range ls {
		if _, dup := ord[l.Self]; !dup {
			ord[l.Self] = i
		}
	}
	var sb strings.Builder
	cnt := 0
	var rec func(n *gobptree.VerifNode)
	rec = func(n *gobptree.VerifNode) {
		if n == nil {
			sb.WriteString("nil")
			return
		}
		if n.Truncated {
			sb.WriteString("?")
			return
		}
		ks := make([]string, len(n.Runts))
		for i, r := range n.Runts {
			ks[i] = kf(r)
		}
		if n.Internal {
			sb.WriteString("I{" + strings.Join(ks, " ") + "}(")
			for i, c := range n.Children {
				if i > 0 {
					sb.WriteByte(' ')
				}
				rec(c)
			}
			sb.WriteByte(')')
			return
		}
		vs := make([]string, len(n.Values))
		for i, v := range n.Values {
			vs[i] = vf(v)
		}
		nx := "-"
		if n.Next != nil {
			if o, ok := ord[n.Next]; ok {
				nx = strconv.Itoa(o)
			} else {
				nx = "x"
			}
		}
		sb.WriteString("L" + strconv.Itoa(cnt) + "{" + strings.Join(ks, " ") + "|" + strings.Join(vs, " ") + "}>" + nx)
		cnt++
	}
	rec(root)
	return sb.String()
}

// Check evaluates the C08 clauses on a snapshot and returns one message per
// broken clause (empty = holds). less is the key order of the tree type.
func Check(root *gobptree.VerifNode, order int, kf KeyFmt, less func(a, b string) bool) []string {
	var probs []string
	add := func(f string, a ...interface{}) {
		if len(probs) < 8 {
			probs = append(probs, fmt.Sprintf(f, a...))
		}
	}
	if root == nil {
		return []string{"nil root"}
	}
	seen := map[interface{}]bool{}
	leafDepth := -1
	var leaves []*gobptree.VerifNode
	half := order / 2
	// returns all leaf keys beneath n (as tokens), in order
	var rec func(n *gobptree.VerifNode, depth int, isRoot bool) []string
	rec = func(n *gobptree.VerifNode, depth int, isRoot bool) []string {
		if n == nil {
			add("nil child at depth %d", depth)
			return nil
		}
		if n.Truncated {
			add("structure deeper than %d levels or of unknown node type (cycle?)", depth)
			return nil
		}
		if seen[n.Self] {
			add("node reachable twice (shared child or cycle)")
			return nil
		}
		seen[n.Self] = true
		ks := make([]string, len(n.Runts))
		for i, r := range n.Runts {
			ks[i] = kf(r)
		}
		for i := 1; i < len(ks); i++ {
			if !less(ks[i-1], ks[i]) {
				add("keys of a node not strictly ascending: %s then %s", ks[i-1], ks[i])
			}
		}
		if len(ks) > order {
			add("node holds %d entries, order is %d", len(ks), order)
		}
		if !isRoot && order >= 4 && len(ks) < half {
			add("non-root node holds %d entries, minimum is %d", len(ks), half)
		}
		if !n.Internal {
			if len(n.Values) != len(n.Runts) {
				add("leaf has %d keys and %d values", len(n.Runts), len(n.Values))
			}
			if leafDepth == -1 {
				leafDepth = depth
			} else if leafDepth != depth {
				add("leaves at depths %d and %d", leafDepth, depth)
			}
			leaves = append(leaves, n)
			return ks
		}
		if len(n.Children) != len(n.Runts) {
			add("internal node has %d separators and %d children", len(n.Runts), len(n.Children))
		}
		var all []string
		var prev []string
		for i, c := range n.Children {
			sub := rec(c, depth+1, false)
			if i < len(ks) {
				for _, k := range sub {
					if less(k, ks[i]) {
						add("separator %s is greater than key %s beneath it", ks[i], k)
						break
					}
				}
				for _, k := range prev {
					if !less(k, ks[i]) {
						add("separator %s is not greater than key %s beneath its left neighbour", ks[i], k)
						break
					}
				}
			}
			prev = sub
			all = append(all, sub...)
		}
		return all
	}
	rec(root, 0, true)
	// chain: visits the leaves left to right and ends at the last one
	for i, l := range leaves {
		if i+1 < len(leaves) {
			if l.Next == nil || l.Next != leaves[i+1].Self {
				add("leaf chain: leaf %d does not link to leaf %d", i, i+1)
			}
		} else if l.Next != nil {
			add("leaf chain does not end at the last leaf")
		}
	}
	return probs
}

// CheckLocks reports mutexes that are held although they should be free; the
// leaf `held` (identity, may be nil) is expected to be locked and all others free.
func CheckLocks(root *gobptree.VerifNode, held interface{}) []string {
	var probs []string
	seen := map[interface{}]bool{}
	var rec func(n *gobptree.VerifNode)
	rec = func(n *gobptree.VerifNode) {
		if n == nil || n.Truncated || seen[n.Self] {
			return
		}
		seen[n.Self] = true
		free := IsFree(n.Mutex)
		kind := "leaf"
		if n.Internal {
			kind = "internal node"
		}
		first := "-"
		if len(n.Runts) > 0 {
			first = fmt.Sprint(n.Runts[0])
		}
		if held != nil && n.Self == held {
			if free {
				probs = append(probs, "the cursor's leaf (first key "+first+") is not locked")
			}
		} else if !free {
			probs = append(probs, "mutex of "+kind+" (first key "+first+") is still held")
		}
		for _, c := range n.Children {
			rec(c)
		}
	}
	rec(root)
	if len(probs) > 6 {
		probs = probs[:6]
	}
	return probs
}
