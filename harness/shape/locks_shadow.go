//go:build shadow

package shape

import "github.com/karrick/gobptree/vsync"

// IsFree reports whether the shadow mutex is unlocked.
func IsFree(m *vsync.Mutex) bool {
	if m == nil {
		return true
	}
	return m.Holder() == -2
}
