#!/bin/sh
# Regenerates /repo/verif_snapshot.go (the only hook; build tag `verif`).
set -e
here=$(dirname "$0")
out=${1:-/repo/verif_snapshot.go}
{
cat <<'HDR'
//go:build verif

package gobptree

// Read-only structural snapshot of a tree, for external verification
// harnesses. This file is compiled only with `-tags verif`; it adds no
// behaviour to the package and touches no existing declaration.

import (
	"sync"
)

// VerifNode is a dump of one node. Self and Next are the node pointers
// themselves (usable as map keys for identity); Mutex points at the node's
// mutex.
// VerifCheckOrder exposes the order validation shared by all constructors.
func VerifCheckOrder(order int) error { return checkOrder(order) }

type VerifNode struct {
	Self      interface{}
	Internal  bool
	Truncated bool
	Runts     []interface{}
	Values    []interface{}
	Children  []*VerifNode
	Next      interface{}
	Mutex     *sync.Mutex
}
HDR
for pair in int32:Int32 int64:Int64 uint32:Uint32 uint64:Uint64 string:String comparable:Comparable; do
  low=${pair%%:*}; up=${pair##*:}
  sed "s/XXLOW/$low/g; s/XXUP/$up/g; s/XXTYPE/$up/g" "$here/template.go.txt"
done
} > "$out"
gofmt -w "$out"
