// GENERATED from template.go.txt by gen.sh — do not edit.
package adapter

import "github.com/karrick/gobptree"

type treeUint64 struct{ t *gobptree.Uint64Tree }

func newUint64(order int) (Tree, error) {
	t, err := gobptree.NewUint64Tree(order)
	if err != nil {
		if t != nil {
			return &treeUint64{t}, err
		}
		return nil, err
	}
	if t == nil {
		return nil, nil
	}
	return &treeUint64{t}, nil
}

func (a *treeUint64) Insert(k string, v interface{}) { a.t.Insert(parseUint64(k), v) }
func (a *treeUint64) Update(k string, cb func(interface{}, bool) interface{}) {
	a.t.Update(parseUint64(k), cb)
}
func (a *treeUint64) Delete(k string)                     { a.t.Delete(parseUint64(k)) }
func (a *treeUint64) Search(k string) (interface{}, bool) { return a.t.Search(parseUint64(k)) }
func (a *treeUint64) NewScanner(k string) Cursor {
	return &cursorUint64{a.t.NewScanner(parseUint64(k))}
}
func (a *treeUint64) Snapshot() *gobptree.VerifNode { return a.t.VerifSnapshot() }
func (a *treeUint64) Order() int                    { return a.t.VerifOrder() }
func (a *treeUint64) Less(x, y string) bool         { return lessUint64(parseUint64(x), parseUint64(y)) }
func (a *treeUint64) FmtKey(n interface{}) string {
	k, ok := n.(uint64)
	if !ok {
		return "?"
	}
	return fmtUint64(k)
}

type cursorUint64 struct{ c *gobptree.Uint64Cursor }

func (c *cursorUint64) Scan() bool { return c.c.Scan() }
func (c *cursorUint64) Pair() (string, interface{}) {
	k, v := c.c.Pair()
	return fmtUint64(k), v
}
func (c *cursorUint64) Close() error { return c.c.Close() }
func (c *cursorUint64) Leaf() (interface{}, interface{}) {
	l, m := c.c.VerifLeaf()
	if l == nil {
		return nil, nil
	}
	return l, m
}
