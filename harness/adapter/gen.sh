#!/bin/sh
set -e
cd "$(dirname "$0")"
for t in Int32:int32 Int64:int64 Uint32:uint32 Uint64:uint64 String:string Comparable:gobptree.Comparable; do
  up=${t%%:*}; key=${t##*:}
  low=$(echo "$up" | tr 'A-Z' 'a-z')
  sed "s/XXUP/$up/g; s/XXKEY/$key/g" template.go.txt > "gen_$low.go"
done
gofmt -w gen_*.go
