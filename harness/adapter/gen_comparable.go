// GENERATED from template.go.txt by gen.sh — do not edit.
package adapter

import "github.com/karrick/gobptree"

type treeComparable struct{ t *gobptree.ComparableTree }

func newComparable(order int) (Tree, error) {
	t, err := gobptree.NewComparableTree(order)
	if err != nil {
		if t != nil {
			return &treeComparable{t}, err
		}
		return nil, err
	}
	if t == nil {
		return nil, nil
	}
	return &treeComparable{t}, nil
}

func (a *treeComparable) Insert(k string, v interface{}) { a.t.Insert(parseComparable(k), v) }
func (a *treeComparable) Update(k string, cb func(interface{}, bool) interface{}) {
	a.t.Update(parseComparable(k), cb)
}
func (a *treeComparable) Delete(k string)                     { a.t.Delete(parseComparable(k)) }
func (a *treeComparable) Search(k string) (interface{}, bool) { return a.t.Search(parseComparable(k)) }
func (a *treeComparable) NewScanner(k string) Cursor {
	return &cursorComparable{a.t.NewScanner(parseComparable(k))}
}
func (a *treeComparable) Snapshot() *gobptree.VerifNode { return a.t.VerifSnapshot() }
func (a *treeComparable) Order() int                    { return a.t.VerifOrder() }
func (a *treeComparable) Less(x, y string) bool {
	return lessComparable(parseComparable(x), parseComparable(y))
}
func (a *treeComparable) FmtKey(n interface{}) string {
	k, ok := n.(gobptree.Comparable)
	if !ok {
		return "?"
	}
	return fmtComparable(k)
}

type cursorComparable struct{ c *gobptree.ComparableCursor }

func (c *cursorComparable) Scan() bool { return c.c.Scan() }
func (c *cursorComparable) Pair() (string, interface{}) {
	k, v := c.c.Pair()
	return fmtComparable(k), v
}
func (c *cursorComparable) Close() error { return c.c.Close() }
func (c *cursorComparable) Leaf() (interface{}, interface{}) {
	l, m := c.c.VerifLeaf()
	if l == nil {
		return nil, nil
	}
	return l, m
}
