// GENERATED from template.go.txt by gen.sh — do not edit.
package adapter

import "github.com/karrick/gobptree"

type treeInt32 struct{ t *gobptree.Int32Tree }

func newInt32(order int) (Tree, error) {
	t, err := gobptree.NewInt32Tree(order)
	if err != nil {
		if t != nil {
			return &treeInt32{t}, err
		}
		return nil, err
	}
	if t == nil {
		return nil, nil
	}
	return &treeInt32{t}, nil
}

func (a *treeInt32) Insert(k string, v interface{}) { a.t.Insert(parseInt32(k), v) }
func (a *treeInt32) Update(k string, cb func(interface{}, bool) interface{}) {
	a.t.Update(parseInt32(k), cb)
}
func (a *treeInt32) Delete(k string)                     { a.t.Delete(parseInt32(k)) }
func (a *treeInt32) Search(k string) (interface{}, bool) { return a.t.Search(parseInt32(k)) }
func (a *treeInt32) NewScanner(k string) Cursor {
	return &cursorInt32{a.t.NewScanner(parseInt32(k))}
}
func (a *treeInt32) Snapshot() *gobptree.VerifNode { return a.t.VerifSnapshot() }
func (a *treeInt32) Order() int                    { return a.t.VerifOrder() }
func (a *treeInt32) Less(x, y string) bool         { return lessInt32(parseInt32(x), parseInt32(y)) }
func (a *treeInt32) FmtKey(n interface{}) string {
	k, ok := n.(int32)
	if !ok {
		return "?"
	}
	return fmtInt32(k)
}

type cursorInt32 struct{ c *gobptree.Int32Cursor }

func (c *cursorInt32) Scan() bool { return c.c.Scan() }
func (c *cursorInt32) Pair() (string, interface{}) {
	k, v := c.c.Pair()
	return fmtInt32(k), v
}
func (c *cursorInt32) Close() error { return c.c.Close() }
func (c *cursorInt32) Leaf() (interface{}, interface{}) {
	l, m := c.c.VerifLeaf()
	if l == nil {
		return nil, nil
	}
	return l, m
}
