// GENERATED from template.go.txt by gen.sh — do not edit.
package adapter

import "github.com/karrick/gobptree"

type treeUint32 struct{ t *gobptree.Uint32Tree }

func newUint32(order int) (Tree, error) {
	t, err := gobptree.NewUint32Tree(order)
	if err != nil {
		if t != nil {
			return &treeUint32{t}, err
		}
		return nil, err
	}
	if t == nil {
		return nil, nil
	}
	return &treeUint32{t}, nil
}

func (a *treeUint32) Insert(k string, v interface{}) { a.t.Insert(parseUint32(k), v) }
func (a *treeUint32) Update(k string, cb func(interface{}, bool) interface{}) {
	a.t.Update(parseUint32(k), cb)
}
func (a *treeUint32) Delete(k string)                     { a.t.Delete(parseUint32(k)) }
func (a *treeUint32) Search(k string) (interface{}, bool) { return a.t.Search(parseUint32(k)) }
func (a *treeUint32) NewScanner(k string) Cursor {
	return &cursorUint32{a.t.NewScanner(parseUint32(k))}
}
func (a *treeUint32) Snapshot() *gobptree.VerifNode { return a.t.VerifSnapshot() }
func (a *treeUint32) Order() int                    { return a.t.VerifOrder() }
func (a *treeUint32) Less(x, y string) bool         { return lessUint32(parseUint32(x), parseUint32(y)) }
func (a *treeUint32) FmtKey(n interface{}) string {
	k, ok := n.(uint32)
	if !ok {
		return "?"
	}
	return fmtUint32(k)
}

type cursorUint32 struct{ c *gobptree.Uint32Cursor }

func (c *cursorUint32) Scan() bool { return c.c.Scan() }
func (c *cursorUint32) Pair() (string, interface{}) {
	k, v := c.c.Pair()
	return fmtUint32(k), v
}
func (c *cursorUint32) Close() error { return c.c.Close() }
func (c *cursorUint32) Leaf() (interface{}, interface{}) {
	l, m := c.c.VerifLeaf()
	if l == nil {
		return nil, nil
	}
	return l, m
}
