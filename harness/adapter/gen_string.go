// GENERATED from template.go.txt by gen.sh — do not edit.
package adapter

import "github.com/karrick/gobptree"

type treeString struct{ t *gobptree.StringTree }

func newString(order int) (Tree, error) {
	t, err := gobptree.NewStringTree(order)
	if err != nil {
		if t != nil {
			return &treeString{t}, err
		}
		return nil, err
	}
	if t == nil {
		return nil, nil
	}
	return &treeString{t}, nil
}

func (a *treeString) Insert(k string, v interface{}) { a.t.Insert(parseString(k), v) }
func (a *treeString) Update(k string, cb func(interface{}, bool) interface{}) {
	a.t.Update(parseString(k), cb)
}
func (a *treeString) Delete(k string)                     { a.t.Delete(parseString(k)) }
func (a *treeString) Search(k string) (interface{}, bool) { return a.t.Search(parseString(k)) }
func (a *treeString) NewScanner(k string) Cursor {
	return &cursorString{a.t.NewScanner(parseString(k))}
}
func (a *treeString) Snapshot() *gobptree.VerifNode { return a.t.VerifSnapshot() }
func (a *treeString) Order() int                    { return a.t.VerifOrder() }
func (a *treeString) Less(x, y string) bool         { return lessString(parseString(x), parseString(y)) }
func (a *treeString) FmtKey(n interface{}) string {
	k, ok := n.(string)
	if !ok {
		return "?"
	}
	return fmtString(k)
}

type cursorString struct{ c *gobptree.StringCursor }

func (c *cursorString) Scan() bool { return c.c.Scan() }
func (c *cursorString) Pair() (string, interface{}) {
	k, v := c.c.Pair()
	return fmtString(k), v
}
func (c *cursorString) Close() error { return c.c.Close() }
func (c *cursorString) Leaf() (interface{}, interface{}) {
	l, m := c.c.VerifLeaf()
	if l == nil {
		return nil, nil
	}
	return l, m
}
