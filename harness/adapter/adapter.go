// Package adapter gives the six gobptree tree types one interface. Keys travel
// as canonical tokens (see PROTOCOL.md): decimal for integers, dot-separated
// byte values for strings ("_" = empty string), "class#tag" for Comparable keys.
package adapter

import (
	"fmt"
	"strconv"
	"strings"

	"github.com/karrick/gobptree"
)

// Tree is the common interface. Mutexes are passed as interface{} so that the
// same code builds against the real package (sync.Mutex) and the shadow copy.
type Tree interface {
	Insert(k string, v interface{})
	Update(k string, cb func(interface{}, bool) interface{})
	Delete(k string)
	Search(k string) (interface{}, bool)
	NewScanner(k string) Cursor
	Snapshot() *gobptree.VerifNode
	Order() int
	// Less is the key order of the type, computed by the adapter itself (not
	// by tree code) from the tokens.
	Less(a, b string) bool
	// FmtKey formats a native key (as found in a snapshot) as a token.
	FmtKey(native interface{}) string
}

type Cursor interface {
	Scan() bool
	Pair() (string, interface{})
	Close() error
	// Leaf returns the identity of the held leaf and its mutex (nil, nil if none).
	Leaf() (interface{}, interface{})
}

var Types = []string{"i32", "i64", "u32", "u64", "str", "cmp"}

// New calls the constructor of the named type.
func New(ty string, order int) (Tree, error) {
	switch ty {
	case "i32":
		return newInt32(order)
	case "i64":
		return newInt64(order)
	case "u32":
		return newUint32(order)
	case "u64":
		return newUint64(order)
	case "str":
		return newString(order)
	case "cmp":
		return newComparable(order)
	}
	return nil, fmt.Errorf("unknown type %q", ty)
}

// ---- values ----
//
// Values travel as tokens without blanks: "nil", a decimal int64, or a slice of
// int64 written "[1,2,3]" ("[]" = empty slice). Slice values make the stored
// interface{} values UNCOMPARABLE (== on two of them panics), which tree code
// must never do.

// ParseVal parses a value token.
func ParseVal(s string) (interface{}, bool) {
	if s == "nil" {
		return nil, true
	}
	if len(s) >= 2 && s[0] == '[' && s[len(s)-1] == ']' {
		out := []int64{}
		body := s[1 : len(s)-1]
		if body == "" {
			return out, true
		}
		for _, p := range strings.Split(body, ",") {
			n, err := strconv.ParseInt(p, 10, 64)
			if err != nil {
				return nil, false
			}
			out = append(out, n)
		}
		return out, true
	}
	n, err := strconv.ParseInt(s, 10, 64)
	if err != nil {
		return nil, false
	}
	return n, true
}

// FmtVal prints a value as its canonical token.
func FmtVal(v interface{}) string {
	switch tv := v.(type) {
	case nil:
		return "nil"
	case int64:
		return strconv.FormatInt(tv, 10)
	case []int64:
		var sb strings.Builder
		sb.WriteByte('[')
		for i, n := range tv {
			if i > 0 {
				sb.WriteByte(',')
			}
			sb.WriteString(strconv.FormatInt(n, 10))
		}
		sb.WriteByte(']')
		return sb.String()
	}
	return fmt.Sprintf("?%v", v)
}

// CloneVal returns a value that shares no memory with v (callbacks are pure:
// a slice handed out twice must not alias).
func CloneVal(v interface{}) interface{} {
	if s, ok := v.([]int64); ok {
		return append(make([]int64, 0, len(s)), s...)
	}
	return v
}

// BulkKey is the key token number j of the `bulk` protocol line: decimal for the
// integer types and Comparable (tag 0), three base-200 "digits" (offset 33) for
// strings; ascending in j for j >= 0 (strings: j < 8 000 000).
func BulkKey(ty string, j int64) string {
	if ty == "str" {
		return strconv.FormatInt(j/40000+33, 10) + "." + strconv.FormatInt((j/200)%200+33, 10) + "." + strconv.FormatInt(j%200+33, 10)
	}
	return strconv.FormatInt(j, 10)
}

// ---- native key conversions ----

func parseInt32(s string) int32 {
	n, err := strconv.ParseInt(s, 10, 32)
	if err != nil {
		panic("bad i32 key " + s)
	}
	return int32(n)
}
func fmtInt32(k int32) string { return strconv.FormatInt(int64(k), 10) }

func parseInt64(s string) int64 {
	n, err := strconv.ParseInt(s, 10, 64)
	if err != nil {
		panic("bad i64 key " + s)
	}
	return n
}
func fmtInt64(k int64) string { return strconv.FormatInt(k, 10) }

func parseUint32(s string) uint32 {
	n, err := strconv.ParseUint(s, 10, 32)
	if err != nil {
		panic("bad u32 key " + s)
	}
	return uint32(n)
}
func fmtUint32(k uint32) string { return strconv.FormatUint(uint64(k), 10) }

func parseUint64(s string) uint64 {
	n, err := strconv.ParseUint(s, 10, 64)
	if err != nil {
		panic("bad u64 key " + s)
	}
	return n
}
func fmtUint64(k uint64) string { return strconv.FormatUint(k, 10) }

func parseString(s string) string {
	if s == "_" {
		return ""
	}
	parts := strings.Split(s, ".")
	b := make([]byte, len(parts))
	for i, p := range parts {
		n, err := strconv.ParseUint(p, 10, 8)
		if err != nil {
			panic("bad str key " + s)
		}
		b[i] = byte(n)
	}
	return string(b)
}
func fmtString(k string) string {
	if k == "" {
		return "_"
	}
	parts := make([]string, len(k))
	for i := 0; i < len(k); i++ {
		parts[i] = strconv.Itoa(int(k[i]))
	}
	return strings.Join(parts, ".")
}

// CKey is the client key type used with ComparableTree. Only Cls takes part in
// the order, so keys with equal Cls and different Tag are order-equivalent but
// distinct; Tag is a slice, so Go's == on two CKey interface values panics.
type CKey struct {
	Cls int64
	Tag []int64
}

func (a CKey) Less(b interface{}) bool {
	bs, ok := b.(CKey)
	return ok && a.Cls < bs.Cls
}

// ZeroValue returns a recognisable sentinel, never used as a client key.
func (CKey) ZeroValue() gobptree.Comparable { return CKey{Cls: -999999, Tag: []int64{-1}} }

func parseComparable(s string) gobptree.Comparable {
	c, t := s, "0"
	if i := strings.IndexByte(s, '#'); i >= 0 {
		c, t = s[:i], s[i+1:]
	}
	cn, err := strconv.ParseInt(c, 10, 64)
	if err != nil {
		panic("bad cmp key " + s)
	}
	tn, err := strconv.ParseInt(t, 10, 64)
	if err != nil {
		panic("bad cmp key " + s)
	}
	return CKey{Cls: cn, Tag: []int64{tn}}
}
func fmtComparable(k gobptree.Comparable) string {
	ck, ok := k.(CKey)
	if !ok {
		return fmt.Sprintf("?%v", k)
	}
	t := int64(0)
	if len(ck.Tag) > 0 {
		t = ck.Tag[0]
	}
	if t == 0 {
		return strconv.FormatInt(ck.Cls, 10)
	}
	return strconv.FormatInt(ck.Cls, 10) + "#" + strconv.FormatInt(t, 10)
}

// CanonKey returns the canonical spelling of a key token (what FmtKey prints for the
// key the token denotes): "7#0" -> "7" for Comparable keys.
func CanonKey(ty, s string) string {
	switch ty {
	case "i32":
		return fmtInt32(parseInt32(s))
	case "i64":
		return fmtInt64(parseInt64(s))
	case "u32":
		return fmtUint32(parseUint32(s))
	case "u64":
		return fmtUint64(parseUint64(s))
	case "str":
		return fmtString(parseString(s))
	case "cmp":
		return fmtComparable(parseComparable(s))
	}
	return s
}

func lessInt32(a, b int32) bool     { return a < b }
func lessInt64(a, b int64) bool     { return a < b }
func lessUint32(a, b uint32) bool   { return a < b }
func lessUint64(a, b uint64) bool   { return a < b }
func lessString(a, b string) bool   { return a < b }
func lessComparable(a, b gobptree.Comparable) bool {
	return a.(CKey).Cls < b.(CKey).Cls
}
