// GENERATED from template.go.txt by gen.sh — do not edit.
package adapter

import "github.com/karrick/gobptree"

type treeInt64 struct{ t *gobptree.Int64Tree }

func newInt64(order int) (Tree, error) {
	t, err := gobptree.NewInt64Tree(order)
	if err != nil {
		if t != nil {
			return &treeInt64{t}, err
		}
		return nil, err
	}
	if t == nil {
		return nil, nil
	}
	return &treeInt64{t}, nil
}

func (a *treeInt64) Insert(k string, v interface{}) { a.t.Insert(parseInt64(k), v) }
func (a *treeInt64) Update(k string, cb func(interface{}, bool) interface{}) {
	a.t.Update(parseInt64(k), cb)
}
func (a *treeInt64) Delete(k string)                     { a.t.Delete(parseInt64(k)) }
func (a *treeInt64) Search(k string) (interface{}, bool) { return a.t.Search(parseInt64(k)) }
func (a *treeInt64) NewScanner(k string) Cursor {
	return &cursorInt64{a.t.NewScanner(parseInt64(k))}
}
func (a *treeInt64) Snapshot() *gobptree.VerifNode { return a.t.VerifSnapshot() }
func (a *treeInt64) Order() int                    { return a.t.VerifOrder() }
func (a *treeInt64) Less(x, y string) bool         { return lessInt64(parseInt64(x), parseInt64(y)) }
func (a *treeInt64) FmtKey(n interface{}) string {
	k, ok := n.(int64)
	if !ok {
		return "?"
	}
	return fmtInt64(k)
}

type cursorInt64 struct{ c *gobptree.Int64Cursor }

func (c *cursorInt64) Scan() bool { return c.c.Scan() }
func (c *cursorInt64) Pair() (string, interface{}) {
	k, v := c.c.Pair()
	return fmtInt64(k), v
}
func (c *cursorInt64) Close() error { return c.c.Close() }
func (c *cursorInt64) Leaf() (interface{}, interface{}) {
	l, m := c.c.VerifLeaf()
	if l == nil {
		return nil, nil
	}
	return l, m
}
