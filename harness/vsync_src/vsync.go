// Package vsync is dropped into the shadow copy of gobptree in place of "sync".
// Its Mutex has sync.Mutex's method set, but every Lock() is a scheduling point
// of a deterministic cooperative scheduler: exactly one registered goroutine
// runs at a time, and a goroutine whose wanted mutex is held is disabled.
// Outside a scheduled run (tree construction, snapshots) the mutex is a plain
// flag that panics on contention.
package vsync

import (
	"fmt"
	"sort"
)

// Mutex replaces sync.Mutex in the shadow copy.
type Mutex struct {
	id     int // 0 = not yet numbered; numbered on first Lock inside a run
	held   bool
	holder int // task id, or -1 (held outside a run)
}

type task struct {
	id     int
	resume chan struct{}
	want   *Mutex // non-nil: parked in Lock()
	done   bool
	fn     func()
	held   []*Mutex
}

// Event is one entry of the global, totally ordered log of a run.
type Event struct {
	Kind string // dec | acq | rel | note
	Tid  int
	Mid  int    // mutex number (by first Lock in this run)
	Text string // note payload; for dec: the enabled set
}

// Sched is one deterministic run.
type Sched struct {
	tasks   []*task
	cur     *task
	yield   chan struct{} // running task -> scheduler: "I am parked / done"
	nextMid int
	Log     []Event
	// Choose picks the next task among the enabled ones (sorted ascending).
	Choose func(step int, enabled []int) int
	// UnlockYields makes Unlock a scheduling point too.
	UnlockYields bool
	Deadlock     string // non-empty: description of the wait-for cycle / blocked set
	Steps        int
	MaxSteps     int
	Aborted      string
	// OnAcquire, if set, is called (on the acquiring task's goroutine) right
	// after a mutex was taken, before the task continues.
	OnAcquire func(tid int, m *Mutex, heldBefore []*Mutex)
	// OnRelease, if set, is called (on the releasing task's goroutine) right after a
	// mutex was released, before the task continues (or parks, with UnlockYields).
	OnRelease func(tid int, m *Mutex)
	panics       map[int]interface{}
}

var active *Sched

// Holder returns the task holding m, -1 if held outside a run, -2 if free.
func (m *Mutex) Holder() int {
	if !m.held {
		return -2
	}
	return m.holder
}

// ID returns the number of the mutex in the current run (0 = never locked).
func (m *Mutex) ID() int { return m.id }

func (m *Mutex) Lock() {
	s := active
	if s == nil || s.cur == nil {
		if m.held {
			panic("vsync: Lock of a held mutex outside a scheduled run (self-deadlock)")
		}
		m.held, m.holder = true, -1
		return
	}
	t := s.cur
	if m.id == 0 {
		s.nextMid++
		m.id = s.nextMid
	}
	t.want = m
	s.park(t)
	// resumed: the scheduler guarantees m is free
	if m.held {
		panic("vsync: scheduler resumed a task whose mutex is held")
	}
	heldBefore := append([]*Mutex(nil), t.held...)
	m.held, m.holder = true, t.id
	t.want = nil
	t.held = append(t.held, m)
	s.Log = append(s.Log, Event{Kind: "acq", Tid: t.id, Mid: m.id})
	if s.OnAcquire != nil {
		s.OnAcquire(t.id, m, heldBefore)
	}
}

func (m *Mutex) TryLock() bool {
	if m.held {
		return false
	}
	m.Lock()
	return true
}

func (m *Mutex) Unlock() {
	if !m.held {
		panic("vsync: Unlock of an unlocked mutex")
	}
	s := active
	if s == nil || s.cur == nil {
		m.held = false
		return
	}
	t := s.cur
	m.held = false
	for i, h := range t.held {
		if h == m {
			t.held = append(t.held[:i], t.held[i+1:]...)
			break
		}
	}
	s.Log = append(s.Log, Event{Kind: "rel", Tid: t.id, Mid: m.id})
	if s.OnRelease != nil {
		s.OnRelease(t.id, m)
	}
	if s.UnlockYields {
		s.park(t)
	}
}

// Yield is an always-enabled scheduling point (client pause, callback pause).
func Yield() {
	s := active
	if s == nil || s.cur == nil {
		return
	}
	t := s.cur
	t.want = nil
	s.park(t)
}

// Note appends a client-level event (invocation, response, callback) to the log.
func Note(text string) {
	s := active
	if s == nil || s.cur == nil {
		return
	}
	s.Log = append(s.Log, Event{Kind: "note", Tid: s.cur.id, Text: text})
}

// HeldBy returns the mutexes task tid currently holds.
func (s *Sched) HeldBy(tid int) []*Mutex { return s.tasks[tid].held }

// Waiting returns, for every task parked in Lock(), its id and the mutex it wants.
func (s *Sched) Waiting() (tids []int, wants []*Mutex) {
	for _, t := range s.tasks {
		if !t.done && t.want != nil {
			tids = append(tids, t.id)
			wants = append(wants, t.want)
		}
	}
	return
}

func (s *Sched) park(t *task) {
	s.yield <- struct{}{}
	<-t.resume
}

// New prepares a run of the given task bodies.
func New(fns []func()) *Sched {
	s := &Sched{yield: make(chan struct{}), MaxSteps: 100000, panics: map[int]interface{}{}}
	for i, f := range fns {
		s.tasks = append(s.tasks, &task{id: i, resume: make(chan struct{}), fn: f})
	}
	return s
}

// Panics returns the panic values of tasks that panicked.
func (s *Sched) Panics() map[int]interface{} { return s.panics }

// Run executes the tasks to completion, deadlock or step limit.
func (s *Sched) Run() {
	if active != nil {
		panic("vsync: nested run")
	}
	active = s
	defer func() { active = nil }()
	for _, t := range s.tasks {
		t := t
		go func() {
			<-t.resume
			defer func() {
				if r := recover(); r != nil {
					s.panics[t.id] = r
					s.Log = append(s.Log, Event{Kind: "note", Tid: t.id, Text: fmt.Sprintf("panic %v", r)})
				}
				t.done = true
				s.yield <- struct{}{}
			}()
			t.fn()
		}()
	}
	for {
		var enabled []int
		unfinished := 0
		for _, t := range s.tasks {
			if t.done {
				continue
			}
			unfinished++
			if t.want == nil || !t.want.held {
				enabled = append(enabled, t.id)
			}
		}
		if unfinished == 0 {
			return
		}
		if len(enabled) == 0 {
			s.Deadlock = s.describeDeadlock()
			return
		}
		if s.Steps >= s.MaxSteps {
			s.Aborted = "step limit"
			return
		}
		sort.Ints(enabled)
		pick := s.Choose(s.Steps, enabled)
		ok := false
		for _, e := range enabled {
			if e == pick {
				ok = true
			}
		}
		if !ok {
			s.Aborted = fmt.Sprintf("schedule names task %d which is not enabled (enabled %v) at step %d", pick, enabled, s.Steps)
			return
		}
		s.Log = append(s.Log, Event{Kind: "dec", Tid: pick, Text: fmt.Sprint(enabled)})
		s.Steps++
		t := s.tasks[pick]
		s.cur = t
		t.resume <- struct{}{}
		<-s.yield
		s.cur = nil
	}
}

func (s *Sched) describeDeadlock() string {
	var parts []string
	for _, t := range s.tasks {
		if t.done || t.want == nil {
			continue
		}
		parts = append(parts, fmt.Sprintf("task %d waits for mutex %d held by task %d", t.id, t.want.id, t.want.holder))
	}
	return fmt.Sprint(parts)
}
